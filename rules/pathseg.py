"""PA.8 — getPathName / getParentDirectory on the result of join(d, n), decided over *shapes* of path strings.

A path string is a sequence of segments: an arbitrary prefix (any length, any characters), single characters known to be /
known not to be a separator, and a separator-free name of length >= 1.  Positions and sizes are linear forms over the segment
lengths; find_last_of is answered from the shape (the last separator in front of a separator-free tail), erase / substr cut at
segment boundaries, comparisons are decided from the bounds of the lengths (|prefix| >= 0, |name| >= 1).  Anything that would
cut inside a segment, or a comparison the bounds do not decide, is "not decided".  No string is ever built or run: the two
functions are evaluated path by path on each shape by the abstract evaluator (lib/symex.py) with this value domain.
"""
from facts import Node, strip_targs, Inconclusive
from symex import Exec, Domain, Lin, Unknown, Ref, Sym, as_lin

P = 'tulz::Path'
SEPS = ('/', '\\')
NPOS = (-1, 2 ** 64 - 1)


class SStr:
    """segments: ('A', name) arbitrary, maybe empty | ('S', ch) one separator | ('K', name) one non-separator character | ('N', name) separator-free, length >= 1"""
    __slots__ = ('segs',)

    def __init__(self, segs): self.segs = tuple(segs)
    def __eq__(self, o): return isinstance(o, SStr) and o.segs == self.segs
    def __hash__(self): return hash(self.segs)

    def __repr__(self):
        def one(s):
            if s[0] == 'S': return repr(s[1]) if s[1] else 'sep'
            return {'A': '⟨' + s[1] + '⟩', 'K': s[1], 'N': '⟨' + s[1] + '⟩'}[s[0]]
        return '"' + ' '.join(one(s) for s in self.segs) + '"' if self.segs else '""'

    @staticmethod
    def seglen(s):
        return Lin.sym('|' + s[1] + '|') if s[0] in ('A', 'N') else Lin.const(1)

    def size(self):
        t = Lin.const(0)
        for s in self.segs: t = t + SStr.seglen(s)
        return t

    def offsets(self):
        """offset of every segment boundary, len(segs) + 1 entries"""
        out = [Lin.const(0)]
        for s in self.segs: out.append(out[-1] + SStr.seglen(s))
        return out


def _lb(sym): return 1 if sym.startswith('|n') or sym.startswith('|N') else 0


def bounds(l):
    """(lo, hi) of a linear form over segment lengths (None = unbounded)"""
    lo = hi = l.c
    for k, c in l.t.items():
        if c > 0:
            lo = None if lo is None else lo + c * _lb(k); hi = None
        elif c < 0:
            hi = None if hi is None else hi + c * _lb(k); lo = None
    return lo, hi


def cmp_lin(op, l, r):
    import operator as o
    OP = {'<': o.lt, '<=': o.le, '>': o.gt, '>=': o.ge, '==': o.eq, '!=': o.ne}
    ln, rn = l.is_const() and l.c in NPOS, r.is_const() and r.c in NPOS
    if ln or rn:
        # npos against a position / size of a real string (always below npos)
        if ln and rn: return OP[op](0, 0)
        return OP[op](1, 0) if ln else OP[op](0, 1)
    d = l - r
    if d.is_const(): return OP[op](d.c, 0)
    lo, hi = bounds(d)
    if op == '==': return False if ((lo is not None and lo > 0) or (hi is not None and hi < 0)) else None
    if op == '!=': return True if ((lo is not None and lo > 0) or (hi is not None and hi < 0)) else None
    if op == '<': return True if (hi is not None and hi < 0) else (False if (lo is not None and lo >= 0) else None)
    if op == '<=': return True if (hi is not None and hi <= 0) else (False if (lo is not None and lo > 0) else None)
    if op == '>': return True if (lo is not None and lo > 0) else (False if (hi is not None and hi <= 0) else None)
    if op == '>=': return True if (lo is not None and lo >= 0) else (False if (hi is not None and hi < 0) else None)
    return None


class Chr:
    """one character: a known separator, or 'other' (known not to be a separator)"""
    def __init__(self, ch): self.ch = ch
    def __repr__(self): return f"'{self.ch}'"


class NotDecided(Exception):
    pass


class StrDomain(Domain):
    max_depth = 3
    loop_unroll = 1

    def __init__(self, path):
        self.path = path

    def init_field(self, path, node):
        if path[-1] == 'm_path': return self.path
        d_ = self.derived(path)
        if d_ is not None: return d_
        return Unknown('field:' + str(path[-1]))

    def derived(self, path):
        """a member that the class computes from m_path wherever it sets m_path (a cached position of the last separator, a cached
        length): its value is that expression evaluated on this object's path.  Only when every assignment to the member in the class
        is the same expression over m_path alone."""
        name = path[-1]
        ex = getattr(self, 'ex', None)
        if ex is None or getattr(self, '_deriving', False): return None
        srcs = []
        for g in ex.facts.fns:
            if g.d.get('class') != P or g.d.get('lambda'): continue
            for n in g.nodes():
                if n.k == 'binop' and n.op == '=' and n.n('lhs') is not None and n.n('lhs').k == 'member' and n.n('lhs').field and n.n('lhs').name == name and n.n('lhs').n('base') is not None and n.n('lhs').n('base').k == 'this':
                    srcs.append((g, n.n('rhs')))
        srcs = [(g, r) for g, r in srcs if r is not None and any(x.k == 'member' and x.field and x.name == 'm_path' for x in r.walk())
                and not any(x.k == 'ref' and x.dk in ('param', 'local') for x in r.walk())]
        if not srcs or len({r.text() for g, r in srcs}) != 1: return None
        # ... and every member function that changes m_path also sets the member (otherwise it may be stale: not derived, not decided)
        MUT = ('operator=', 'operator+=', 'assign', 'append', 'erase', 'insert', 'clear', 'pop_back', 'push_back', 'replace', 'resize', 'swap')
        for g in ex.facts.fns:
            if g.d.get('class') != P or g.d.get('lambda') or g.d.get('defaulted'): continue
            changes = any((n.k == 'binop' and n.op in ('=', '+=') and n.n('lhs') is not None and n.n('lhs').k == 'member' and n.n('lhs').field and n.n('lhs').name == 'm_path') or
                          (n.k == 'call' and n.callee_base() in MUT and (n.n('object') if n.n('object') is not None else (n.ns('args')[0] if n.ns('args') else None)) is not None
                           and (n.n('object') if n.n('object') is not None else n.ns('args')[0]).k == 'member' and (n.n('object') if n.n('object') is not None else n.ns('args')[0]).name == 'm_path'
                           and (n.n('object') if n.n('object') is not None else n.ns('args')[0]).n('base') is not None and (n.n('object') if n.n('object') is not None else n.ns('args')[0]).n('base').k == 'this')
                          for n in g.nodes()) or any(i.get('field') == 'm_path' for i in (g.d.get('inits') or []) if g.d.get('ctor') and i.get('init') and not (g.d.get('copy') or g.d.get('move')))
            if not changes: continue
            sets = any(n.k == 'binop' and n.op == '=' and n.n('lhs') is not None and n.n('lhs').k == 'member' and n.n('lhs').field and n.n('lhs').name == name for n in g.nodes()) \
                or any(i.get('field') == name for i in (g.d.get('inits') or [])) \
                or any(n.k == 'call' and n.callee_in_root and any(t in [h for h, _ in srcs] for t in ex.facts.resolve(n)) for n in g.nodes())
            if not sets: return None
        from symex import Frame, State
        g, rhs = srcs[0]
        self._deriving = True
        try:
            st = getattr(ex, '_st', None) or State()
            v = ex._rvalue(rhs, st, Frame(g, tuple(path[:-1]), 1))
        except Exception:
            v = None
        finally:
            self._deriving = False
        return v if isinstance(v, (Lin, SStr)) else None

    FS = ('exists', 'isFile', 'isDirectory', 'listChildren', 'size', 'getWorkingDirectory', 'setWorkingDirectory')

    def opaque(self, n):
        # std::string members are answered here; Path's own string helpers (and file-local ones) are followed, its filesystem members are not
        q = strip_targs(n.d.get('calleeq') or n.d.get('ctor') or '')
        if n.k == 'call' and n.callee_in_root and (q.startswith(P + '::') or '(anonymous namespace)' in q or q.count('::') <= 1) and q.split('::')[-1] not in self.FS and q.split('::')[-1] != 'toString':
            return False
        return True

    # ---- helpers ----
    def _sval(self, ex, node, st, fr):
        v = ex._rvalue(node, st, fr)
        if isinstance(v, Ref): v = ex.read(v.loc, st, node)
        return v

    def _charset(self, node, fn=None):
        for x in node.walk():
            if x.k == 'str': return set(x.v)
            if x.k == 'char': return {chr(x.v)}
        # a named constant (`constexpr auto separators = "/\\";`)
        for x in node.walk():
            if x.k == 'ref' and x.dk in ('local', 'global', 'static') and fn is not None:
                for g in [fn] + [h for h in fn.tu.functions if h is not fn][:0]:
                    for dn in g.nodes():
                        if dn.k == 'decl':
                            for v in dn.vars:
                                if v['decl'] == x.decl and v.get('init') and v['init'] in dn.tu.ex:
                                    return self._charset(Node(dn.tu, v['init']))
            if x.k == 'ref' and x.dk in ('global', 'static') and fn is not None:
                # a file-scope constant (`static constexpr const char *AnySeparator = "/\\";`)
                for tu_ in [fn.tu]:
                    for g_ in getattr(tu_, 'globals', []) or []:
                        if (g_.get('decl') == x.decl or (g_.get('qname') and g_.get('qname') == (x.d.get('qname') or x.qname))) and g_.get('init') and g_['init'] in tu_.ex:
                            return self._charset(Node(tu_, g_['init']))
        return None

    def _cut(self, s, pos, what):
        """index of the segment boundary at offset `pos`"""
        for i, off in enumerate(s.offsets()):
            if cmp_lin('==', off, pos) is True: return i
        raise NotDecided(f'{what} at offset {pos} of {s} does not fall on a boundary the shape knows')

    def find_last_of(self, s, chars, upto=None):
        if not chars or not chars <= set(SEPS): raise NotDecided(f'find_last_of of {sorted(chars or [])}')
        segs = s.segs; offs = s.offsets()
        hi = len(segs)
        if upto is not None:
            # the search starts at offset `upto` (inclusive): the segment that ends at upto + 1
            hi = self._cut(s, upto + Lin.const(1), 'find_last_of start')
        for i in range(hi - 1, -1, -1):
            g = segs[i]
            if g[0] == 'S':
                if g[1] is None and len(chars) < 2: raise NotDecided('a separator of unknown kind against a one-character set')
                if g[1] is None or g[1] in chars: return offs[i]
                continue
            if g[0] in ('K', 'N'): continue
            raise NotDecided(f'find_last_of reaches the arbitrary part {g[1]} of {s}')
        return Lin.const(NPOS[1])

    def erase(self, s, pos, cnt):
        i = self._cut(s, pos, 'erase')
        if cnt is None: return SStr(s.segs[:i])
        if cnt.is_const() and cnt.c in (2 ** 64, 0): return s if True else s         # npos + 1 wraps to 0: nothing erased
        if cnt.is_const() and cnt.c in NPOS: return SStr(s.segs[:i])
        end = pos + cnt
        if cmp_lin('>=', end, s.size()) is True: return SStr(s.segs[:i])
        j = self._cut(s, end, 'erase end')
        return SStr(s.segs[:i] + s.segs[j:])

    def substr(self, s, pos, cnt):
        i = self._cut(s, pos, 'substr')
        if cnt is None or (cnt.is_const() and cnt.c in NPOS): return SStr(s.segs[i:])
        end = pos + cnt
        if cmp_lin('>=', end, s.size()) is True: return SStr(s.segs[i:])
        j = self._cut(s, end, 'substr end')
        return SStr(s.segs[i:j])

    # ---- calls ----
    def ext_call(self, ex, n, st, fr):
        try:
            return self._call(ex, n, st, fr)
        except NotDecided as e:
            raise Inconclusive(str(e), n.shortloc())

    def _call(self, ex, n, st, fr):
        k = n.k
        if k == 'construct':
            args = [a for a in n.ns('args') if a is not None and not (a.type or '').startswith('std::allocator<')]
            cls = n.d.get('class') or ''
            if not args: return SStr(())                     # `return {}` / `Path()` / `string()`
            if len(args) == 1:
                v = self._sval(ex, args[0], st, fr)
                if isinstance(v, SStr): return v
                if args[0].k == 'str' or any(x.k == 'str' for x in args[0].walk()):
                    sv = next(x.v for x in args[0].walk() if x.k == 'str')
                    return SStr(tuple(('S', c) if c in SEPS else ('K', c) for c in sv))
            return Unknown('construct:' + cls)
        if k != 'call': return Unknown(k)
        q = n.calleeq or ''; base = q.split('::')[-1]
        obj = n.n('object')
        args = [a for a in n.ns('args') if a is not None]
        if n.ck == 'op' and 'mclass' in n.d and args: obj = args[0]; args = args[1:]
        if q.startswith(P + '::') and base == 'toString' and obj is not None:
            return self._sval(ex, obj, st, fr)
        if obj is None: return Unknown('call:' + q)
        s = self._sval(ex, obj, st, fr)
        if not isinstance(s, SStr): return Unknown('call:' + q)
        loc = ex.loc_of(obj, st, fr) if obj.k in ('ref', 'member') else None
        def lin(a):
            v = self._sval(ex, a, st, fr); l = as_lin(v)
            if l is None: raise NotDecided(f'argument {a.text()[:30]} of {base} is {v}')
            if l.is_const() and l.c >= 2 ** 64: l = Lin.const(l.c - 2 ** 64)
            return l
        def put(v):
            if loc is not None: ex.write(loc, v, st, n); return Ref(loc)
            return v
        if base in ('size', 'length'): return s.size()
        if base == 'empty': return cmp_lin('==', s.size(), Lin.const(0))
        if base in ('find_last_of', 'rfind'):
            cs = self._charset(args[0], fr.fn) if args else None
            up = lin(args[1]) if len(args) > 1 else None
            if up is not None and up.is_const() and up.c in NPOS: up = None          # the defaulted `pos = npos`: from the end
            return self.find_last_of(s, cs, up)
        if base == 'erase':
            if not args: return put(SStr(()))
            return put(self.erase(s, lin(args[0]), lin(args[1]) if len(args) > 1 else None))
        if base == 'substr':
            return self.substr(s, lin(args[0]) if args else Lin.const(0), lin(args[1]) if len(args) > 1 else None)
        if base == 'back':
            if not s.segs: raise NotDecided('back() of an empty string')
            g = s.segs[-1]
            if g[0] == 'S':
                if g[1] is None: raise NotDecided('which separator the string ends with is not known')
                return Chr(g[1])
            if g[0] in ('K', 'N'): return Chr('other')
            raise NotDecided(f'back() of {s}')
        if base == 'front':
            if not s.segs: raise NotDecided('front() of an empty string')
            g = s.segs[0]
            if g[0] == 'S' and g[1] is not None: return Chr(g[1])
            if g[0] == 'K': return Chr('other')
            raise NotDecided(f'front() of {s}')
        if base == 'pop_back':
            if not s.segs or s.segs[-1][0] not in ('S', 'K'): raise NotDecided(f'pop_back() of {s}')
            put(SStr(s.segs[:-1])); return None
        if base in ('c_str', 'data'): return s
        if base in ('operator=',) and args:
            v = self._sval(ex, args[0], st, fr)
            if isinstance(v, SStr): return put(v)
        raise NotDecided(f'std::string::{base} is not modelled')

    def compare(self, ex, op, l, r, n, st, fr):
        if isinstance(l, Chr) or isinstance(r, Chr):
            def ch(x):
                if isinstance(x, Chr): return x.ch
                xl = as_lin(x)
                if xl is not None and xl.is_const(): return chr(xl.c) if chr(xl.c) in SEPS else 'other'
                return None
            a, b = ch(l), ch(r)
            if a is None or b is None or op not in ('==', '!='): return None
            if a == 'other' and b == 'other': return None
            return (a == b) if op == '==' else (a != b)
        ll, rl = as_lin(l), as_lin(r)
        if ll is None or rl is None: return None
        return cmp_lin(op, ll, rl)


def shapes():
    """(description, d, path = join(d, n) by PA.4, expected parent): d non-empty, n a separator-free name"""
    A, K, N = ('A', 'a'), ('K', 'k'), ('N', 'n')
    out = [('d does not end with a separator', SStr((A, K)), SStr((A, K, ('S', '/'), N)), SStr((A, K)))]
    for c in SEPS:
        out.append((f'd ends with {c!r}', SStr((A, ('S', c))), SStr((A, ('S', c), N)), SStr((A,))))
    return out, SStr((N,))


def run_rules(facts, rep):
    rep.rule('PA.8', 'for every non-empty d and separator-free n: getPathName(join(d, n)) = n and getParentDirectory(join(d, n)) = d without a trailing separator — the two functions evaluated '
                     'on the shapes join produces (PA.4), positions as linear forms over segment lengths')
    fns = {b: facts.fn(f'{P}::{b}') for b in ('getPathName', 'getParentDirectory')}
    for b, f in fns.items():
        if f is None: rep.anchor_missing(f'{P}::{b}', 'not found')
    if rep.broken: return
    shp, name = shapes()
    n_ok = 0
    for desc, d, path, parent in shp:
        for b, want in (('getPathName', name), ('getParentDirectory', parent)):
            f = fns[b]
            inst = f'{b}(join(d, n)) where {desc}: path {path} -> {want}'
            try:
                paths = [p_ for p_ in Exec(facts, StrDomain(path)).run(f) if p_.end not in ('noreturn', 'throw')]
            except Inconclusive as e:
                rep.inconclusive('PA.8', inst, e.loc or f.shortloc(), str(e)); continue
            if not paths:
                rep.inconclusive('PA.8', inst, f.shortloc(), 'no path returns'); continue
            for p_ in paths:
                forks = [c for c, v, h in p_.decisions if h == 'fork' and c is not None]
                r = p_.ret
                if forks:
                    rep.inconclusive('PA.8', inst, forks[0].shortloc(), f'the branch `{forks[0].text()[:50]}` is not decided on this shape'); continue
                if not isinstance(r, SStr):
                    rep.inconclusive('PA.8', inst, f.shortloc(), f'the result {r} is not a shape'); continue
                if r == want: rep.ok('PA.8', inst, f.shortloc()); n_ok += 1
                else:
                    pc = '; '.join(f'{(c.text() or "")[:40]} = {v}' for c, v, h in p_.decisions if c is not None)[:200]
                    rep.violation('PA.8', inst, f.shortloc(), f'returns {r} instead of {want} (path: {pc})', key=f'PA.8|{b}|{desc}', fn=f.name)
    rep.count('path_shapes', len(shp))
    if n_ok == 2 * len(shp): rep.floor('PA.8 instances', n_ok, 6)
