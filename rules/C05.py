"""C05 — Subject delivers to exactly the live, unmuted observers, in order."""
import observer
TUS = observer.TUS
def run(facts, rep, tier):
    observer.emit(facts, rep, ['SUB.1', 'SUB.2', 'SUB.3', 'SUB.4', 'SUB.5', 'SUB.6', 'SUB.7'],
                  {'SUB.1': 7, 'SUB.2': 14, 'SUB.3': 4, 'SUB.4': 5, 'SUB.5': 14, 'SUB.6': 14, 'SUB.7': 8})
    rep.assume('std::function invokes the stored callable; per-operation rules give "exactly the live ones" by induction over the history (DESIGN §4 C05)')
