"""Subject / Observer / Subscription rules (C05: SUB.1-7, C10: RE.1-4) evaluated on every witness instantiation."""
import itertools
from facts import Node, strip_targs, Inconclusive
from symex import Lin, Unknown, Ref, Closure, Sym, Exec, as_lin
from evdom import EvDomain, Ev, run_paths, _flatten
import common

TUS = ['witness/w_observer.cpp']
SCALARS = {'int', 'unsigned int', 'long', 'unsigned long', 'long long', 'unsigned long long', 'short', 'unsigned short', 'char', 'unsigned char', 'signed char', 'bool', 'float', 'double', 'long double'}
INSERT_FRONT = {'emplace_front', 'push_front'}
INSERT_BACK = {'emplace_back', 'push_back'}


class ObsDomain(EvDomain):
    loop_unroll = 1
    max_depth = 6

    def call_result(self, ex, n, q, base, on, ov, vals, st, fr):
        if on == 'm_activeSubscriptions' and base in ('contains',):
            v = self.atom('id_active'); return v if v is not None else Unknown(('contains', n.id))
        if on == 'm_activeSubscriptions' and base in ('count',):
            v = self.atom('id_active'); return Lin.const(1 if v else 0) if v is not None else Unknown(('count', n.id))
        if on == 'm_observers' and base == 'empty':
            v = self.atom('observers_empty'); return v if v is not None else Unknown(('empty', n.id))
        return super().call_result(ex, n, q, base, on, ov, vals, st, fr)

    def vcall_result(self, ex, n, q, base, on, ov, vals, st, fr):
        if base == 'isValid':
            v = self.atom('obs_valid'); return v
        return None

    def field_value(self, path, node):
        if path[-1] == 'mute' or path[-1] == 'm_mute':
            v = self.atom('muted'); return v
        return None


def subjects(facts):
    return sorted(c for c in facts.classes if strip_targs(c) == 'tulz::Subject' and c != 'tulz::Subject')


def member(facts, cls, name):
    c = [f for f in facts.fns if f.d.get('classfull') == cls and f.qname.split('::')[-1] == name and not f.d.get('lambda')]
    return c[0] if c else None


def loops_of(fn):
    return [n for n in fn.nodes() if n.k in ('rangefor', 'for', 'while')]


def range_target(loop):
    """('field', name) / ('local', decl, name) / None: what a range-for iterates"""
    if loop.k != 'rangefor': return None
    r = loop.n('range')
    while r is not None and r.k in ('cast',): r = r.n('sub')
    if r is None: return None
    if r.k == 'member' and r.field: return ('field', r.name)
    if r.k == 'ref' and r.dk in ('local', 'param'): return ('local', r.decl, r.name)
    return None


def contains(node, pred):
    return any(pred(x) for x in node.walk())


def is_observer_call(n):
    return n.k == 'call' and strip_targs(n.calleeq or '') == 'tulz::Observer::operator()'


class SubjectAnalysis:
    def __init__(self, facts, rep):
        self.facts = facts; self.rep = rep; self.res = {}
        self.subs = subjects(facts)

    def add(self, rule, ok, inst, site, why='', key=None):
        if ok is not None: ok = bool(ok)
        self.res.setdefault(rule, []).append((ok, inst, site, why, key))

    def run(self):
        for S in self.subs:
            short = S.replace('std::basic_string<char>', 'std::string')
            fns = {n: member(self.facts, S, n) for n in ('notify', 'subscribe', 'unsubscribe', 'unsubscribeById', 'isSubscriptionIdValid', 'hasSubscriptions', 'isSubscriptionValid')}
            missing = [n for n, f in fns.items() if f is None]
            if missing:
                # implicitly instantiated through Observable: only some members exist; the explicit witnesses cover the class
                self.partial = getattr(self, 'partial', []) + [S]
                if len(missing) == len(fns): continue
                if fns['notify'] is None or fns['subscribe'] is None: continue
                continue
            self.notify_rules(S, short, fns)
            self.subscribe_rules(S, short, fns)
            self.unsubscribe_rules(S, short, fns)
        self.observer_rules()
        self.subscription_rules()

    # ---- notify ---------------------------------------------------------------------------------------------------------
    def notify_rules(self, S, short, fns):
        f = fns['notify']; site = f.shortloc()
        loops = loops_of(f)
        snap_loop = next((l for l in loops if range_target(l) == ('field', 'm_observers')), None)
        deliver = next((l for l in loops if contains(l.n('body') or l, is_observer_call)), None)
        if deliver is None:
            self.add('SUB.2', None, f'{short}::notify', site, 'no loop that invokes Observer::operator() found'); return
        calls = [n for n in (deliver.n('body') or deliver).walk() if is_observer_call(n)]
        # RE.1: the delivery loop iterates a snapshot local to this call
        tgt = range_target(deliver)
        ok_local = tgt is not None and tgt[0] == 'local'
        why = ''
        if not ok_local:
            if tgt is not None and tgt[0] == 'field':
                why = (f'the delivery loop iterates the member `{tgt[1]}`' +
                       (': a callback that subscribes/unsubscribes invalidates the iteration' if tgt[1] == 'm_observers' else
                        ': the snapshot is shared between nested notify() calls — a callback that calls notify() refills/clears the buffer the outer round is walking, the outer round skips the remaining observers'))
            else:
                flds = sorted({x.name for x in deliver.walk() if x.k == 'member' and x.field and x.n('base') is not None and x.n('base').k == 'this' and 'ached' in x.name or (x.k == 'member' and x.field and x.name.startswith('m_c'))})
                # index loop over a member container
                members_indexed = sorted({x.n('base').name if x.k == 'subscript' else (x.ns('args')[0].name if x.ns('args') and x.ns('args')[0] is not None and x.ns('args')[0].k == 'member' else None)
                                          for x in deliver.walk() if (x.k == 'subscript' and x.n('base') is not None and x.n('base').k == 'member') or (x.k == 'call' and x.ck == 'op' and x.op == '[]')} - {None})
                if members_indexed:
                    why = f'the delivery loop walks the member container `{members_indexed[0]}`: the snapshot is shared between nested notify() calls, a callback that calls notify() clears/refills it under the outer round'
                else:
                    self.add('RE.1', None, f'{short}::notify: delivery loop', deliver.shortloc(), 'delivery loop form not recognised (neither a range-for over a local snapshot nor over a member)'); why = None
        if why is not None:
            self.add('RE.1', ok_local, f'{short}::notify: the delivery loop iterates a snapshot local to this call', deliver.shortloc(), why, key='RE.1|snapshot-local')
        # RE.4: the snapshot is complete before the first callback
        if snap_loop is not None:
            opaque_in_snap = contains(snap_loop.n('body') or snap_loop, lambda x: is_observer_call(x) or (x.k == 'call' and x.virtual))
            before = f.cfg.reaches(snap_loop.n('range'), deliver.n('range')) if deliver.k == 'rangefor' and deliver.n('range') is not None else True
            self.add('RE.4', (not opaque_in_snap) and before, f'{short}::notify: the snapshot of m_observers is built before the first callback runs', snap_loop.shortloc(),
                     '' if (not opaque_in_snap and before) else 'observers are invoked while m_observers is being walked: one subscribed during the round is invoked in the same round / iterator invalidation', key='RE.4|snapshot-first')
        else:
            self.add('RE.4', None, f'{short}::notify', site, 'no loop over m_observers found')
        # RE.2 / RE.3: ownership of the observer across the callback
        for c in calls:
            obj = c.n('object')
            if obj is None and c.ck == 'op' and c.ns('args'): obj = c.ns('args')[0]
            base = obj
            while base is not None and base.k in ('unop', 'cast'): base = base.n('sub')
            if base is not None and base.k == 'call' and base.ck == 'op' and base.op in ('*', '->') and base.ns('args'): base = base.ns('args')[0]
            ty = (base.type if base is not None else '') or ''
            owning = ty.startswith('std::shared_ptr<')
            self.add('RE.2', owning, f'{short}::notify: the round owns the observer it is calling ({ty[:60]})', c.shortloc(),
                     '' if owning else f'the observer is reached through `{ty}`: a callback that unsubscribes it (or itself) destroys the object while its member function runs / before `isValid()` is called on it (use after free)',
                     key='RE.2|owning-snapshot')
        # SUB.4 / RT.2: arguments are passed as lvalues (never consumed by the first receiver)
        for c in calls:
            cargs = c.ns('args')[1:] if (c.ck == 'op' and 'mclass' in c.d) else c.ns('args')
            for i, a in enumerate(cargs):
                if a is None: continue
                x = a
                consumed = x.cat == 'x' or (x.k == 'call' and (x.calleeq or '') in ('std::move',)) or (x.k == 'call' and (x.calleeq or '') == 'std::forward' and x.cat == 'x') \
                    or (x.k == 'construct' and x.move)
                params = c.params or []
                byval = i < len(params) and not params[i].endswith('&') and not params[i].endswith('*') and params[i] not in SCALARS
                if consumed and byval:
                    self.add('SUB.4', False, f'{short}::notify: argument {i} reaches every observer unconsumed', c.shortloc(),
                             f'`{a.text()[:50]}` is an xvalue bound to the by-value parameter `{params[i]}` of Observer::operator(): the first observer moves the value away, every later observer of the round receives a moved-from object', key=f'SUB.4|consumed')
                else:
                    self.add('SUB.4', True, f'{short}::notify: argument {i} is passed as an lvalue / to a reference', c.shortloc())
        # SUB.1 order parity
        sub = fns['subscribe']
        ins = [n for n in sub.nodes() if n.k == 'call' and n.n('object') is not None and n.n('object').is_field('m_observers') and n.callee_base() in INSERT_FRONT | INSERT_BACK]
        if snap_loop is not None and len(ins) == 1 and tgt is not None:
            r1 = 1 if ins[0].callee_base() in INSERT_FRONT else 0
            sins = [n for n in (snap_loop.n('body') or snap_loop).walk() if n.k == 'call' and n.callee_base() in INSERT_FRONT | INSERT_BACK and n.n('object') is not None
                    and ((n.n('object').k == 'ref' and tgt[0] == 'local' and n.n('object').decl == tgt[1]) or (n.n('object').k == 'member' and tgt[0] == 'field' and n.n('object').name == tgt[1]))]
            revs = [n for n in f.nodes() if n.k == 'call' and (n.calleeq or '') in ('std::reverse',)] + [n for n in f.nodes() if n.k == 'call' and n.callee_base() == 'reverse' and n.n('object') is not None]
            if len(sins) == 1:
                r2 = 1 if sins[0].callee_base() in INSERT_FRONT else 0
                parity = (r1 + r2 + len(revs)) % 2
                self.add('SUB.1', parity == 0, f'{short}: subscribe inserts at the {"front" if r1 else "back"}, the snapshot at the {"front" if r2 else "back"}, {len(revs)} reverse(s): observers are called in subscription order', sins[0].shortloc(),
                         '' if parity == 0 else 'an odd number of reversals between subscription and delivery: observers are invoked in reverse subscription order', key='SUB.1|parity')
            else:
                self.add('SUB.1', None, f'{short}: order parity', snap_loop.shortloc(), f'{len(sins)} insertions into the snapshot inside the copy loop')
        else:
            self.add('SUB.1', None, f'{short}: order parity', site, 'subscribe / snapshot form not recognised')
        # SUB.2: path rules
        for id_active, obs_valid in itertools.product([True, False], [True, False]):
            dom = ObsDomain(dict(id_active=id_active, obs_valid=obs_valid))
            res = run_paths(self.facts, f, dom)
            row = f'(id active={id_active}, observer valid after call={obs_valid})'
            dcond = deliver.n('c').id if deliver.n('c') is not None else None
            agg = dict(calls_ok=True, reval_ok=True, lazy_ok=True, n=0)
            bad = {}
            for P, E in res:
                agg['n'] += 1
                iters = sum(1 for e in E if e.kind == 'branch' and e.node is not None and e.node.id == dcond and e.val is True)
                oc = [i for i, e in enumerate(E) if e.kind == 'vcall' and e.name.endswith('operator()')]
                if id_active and len(oc) != iters: bad.setdefault('count', f'{len(oc)} invocation(s) for {iters} snapshot entr{"y" if iters == 1 else "ies"} whose subscription is active')
                if not id_active and oc: bad.setdefault('inactive', 'an observer whose subscription id is no longer active is still invoked')
                prev = -1
                for i in oc:
                    tests = [j for j in range(prev + 1, i) if E[j].kind == 'call' and E[j].obj == 'm_activeSubscriptions' and E[j].name.split('::')[-1] in ('contains', 'count', 'find')]
                    if not tests: bad.setdefault('reval', 'no validity test of the subscription id between the previous callback and this invocation: an observer unsubscribed by an earlier callback of the same round is still invoked')
                    prev = i
                if id_active and not obs_valid:
                    for i in oc:
                        nxt = next((j for j in oc if j > i), len(E))
                        rem = [j for j in range(i, nxt) if E[j].kind == 'call' and E[j].obj in ('m_observers', 'm_activeSubscriptions') and E[j].name.split('::')[-1] in ('remove_if', 'erase', 'remove', 'erase_after')]
                        if len(rem) < 2: bad.setdefault('lazy', 'an observer that reports invalid after its call is not removed from both m_observers and m_activeSubscriptions')
            self.add('SUB.2', 'count' not in bad and 'inactive' not in bad, f'{short}::notify row {row}: one invocation per active snapshot entry, none for an inactive one ({agg["n"]} paths)', calls[0].shortloc() if calls else site,
                     bad.get('count') or bad.get('inactive') or '', key='SUB.2|once')
            self.add('SUB.2', 'reval' not in bad, f'{short}::notify row {row}: the id is re-validated before every invocation', calls[0].shortloc() if calls else site, bad.get('reval', ''), key='SUB.2|revalidate')
            if id_active and not obs_valid:
                self.add('SUB.6', 'lazy' not in bad, f'{short}::notify row {row}: an invalidated observer is removed with its snapshot id', site, bad.get('lazy', ''), key='SUB.6|lazy')

    # ---- subscribe / unsubscribe ------------------------------------------------------------------------------------------
    def subscribe_rules(self, S, short, fns):
        f = fns['subscribe']
        res = run_paths(self.facts, f, ObsDomain())
        for P, E in res:
            ws = [e for e in E if e.kind == 'write' and e.obj == 'm_subscriptionCounter']
            ins = [e for e in E if e.kind == 'call' and e.obj == 'm_observers' and e.name.split('::')[-1] in INSERT_FRONT | INSERT_BACK]
            act = [e for e in E if e.kind == 'call' and e.obj == 'm_activeSubscriptions' and e.name.split('::')[-1] in ('emplace', 'insert')]
            fresh = len(ws) == 1 and as_lin(ws[0].val) is not None and as_lin(ws[0].val) - Lin.const(1) is not None and (as_lin(ws[0].val) - Lin.const(1)).c == 0 and len((as_lin(ws[0].val)).t) == 1
            self.add('SUB.6', fresh, f'{short}::subscribe: the id is a counter that only ever grows (exactly one increment per subscription)', ws[0].site if ws else f.shortloc(),
                     '' if fresh else 'the subscription id is not taken from a monotonically increasing counter: an id can be handed out again while a notify round still holds it in its snapshot — the removed observer passes the validity test and is invoked, or the wrong subscription is removed',
                     key='SUB.6|fresh-id')
            ok = len(ins) == 1 and len(act) == 1
            self.add('SUB.6', ok, f'{short}::subscribe: one entry in m_observers and one id in m_activeSubscriptions', ins[0].site if ins else f.shortloc(), '' if ok else f'{len(ins)} / {len(act)} insertions', key='SUB.6|both')
            if ok and fresh:
                idv = ws[0].val
                old = as_lin(idv) - Lin.const(1)
                a_id = [v for v in ins[0].args if as_lin(v) is not None]
                same = bool(a_id) and as_lin(a_id[-1]) == old and bool(act[0].args) and self._id_of(act[0].args[0], ins[0]) in (True,)
                # the id inserted in the set is read back from the stored entry (details.subscriptionId): accept entry-derived or equal value
                self.add('SUB.6', bool(a_id) and as_lin(a_id[-1]) == old, f'{short}::subscribe: the stored id is the pre-increment counter value', ins[0].site,
                         '' if (a_id and as_lin(a_id[-1]) == old) else f'stored {a_id[-1] if a_id else "?"}, expected the value of the counter before its increment', key='SUB.6|id-value')

    def _id_of(self, v, ins): return True

    def unsubscribe_rules(self, S, short, fns):
        f = fns['unsubscribe']
        un = fns['unsubscribeById']
        for same_subject, id_active in itertools.product([True, False], [True, False]):
            dom = ObsDomain(dict(id_active=id_active, same_subject=same_subject))
            dom.compare = lambda ex, op, l, r, n, st, fr, _d=dom: (_d.atom('same_subject') if op == '==' else (not _d.atom('same_subject'))) if (isinstance(l, Ref) or isinstance(r, Ref) or repr(l).startswith('$field') or repr(r).startswith('$field')) and op in ('==', '!=') else None
            res = run_paths(self.facts, f, dom)
            row = f'(handle.subject==this: {same_subject}, id active: {id_active})'
            valid = same_subject and id_active
            for P, E in res:
                removed = [e for e in E if e.kind == 'call' and e.obj in ('m_observers', 'm_activeSubscriptions') and e.name.split('::')[-1] in ('remove_if', 'erase', 'remove')]
                threw = P.end == 'throw' or any(e.kind == 'throw' for e in E)
                if valid:
                    resets = {e.obj for e in E if e.kind == 'write' and e.obj in ('m_id', 'm_subject', 'm_observer')}
                    ok = len(removed) >= 2 and not threw
                    self.add('SUB.5', ok, f'{short}::unsubscribe row {row}: removes the observer and its id', f.shortloc(), '' if ok else ('throws for a valid handle' if threw else 'does not remove from both containers'), key='SUB.5|remove')
                    self.add('SUB.5', resets == {'m_id', 'm_subject', 'm_observer'}, f'{short}::unsubscribe row {row}: every field of the handle is reset', f.shortloc(),
                             '' if resets == {'m_id', 'm_subject', 'm_observer'} else f'only {sorted(resets)} reset: the stale handle still reports valid / dangles', key='SUB.5|reset')
                else:
                    ok = threw and not removed
                    self.add('SUB.5', ok, f'{short}::unsubscribe row {row}: a stale or foreign handle is rejected with an exception, nothing is removed', f.shortloc(),
                             '' if ok else ('state is modified for an invalid handle' if removed else 'an invalid handle is accepted silently'), key='SUB.5|reject')
        thr = [n for n in f.nodes() if n.k == 'throw']
        okt = bool(thr) and all('invalid_argument' in (n.n('sub').type or n.n('sub').d.get('class') or '') for n in thr if n.n('sub') is not None)
        self.add('SUB.5', okt, f'{short}::unsubscribe: the exception is std::invalid_argument', thr[0].shortloc() if thr else f.shortloc(), '' if okt else 'different exception type', key='SUB.5|type')
        hs = fns['hasSubscriptions']
        rets = [n for n in hs.nodes() if n.k == 'return']
        ok = len(rets) == 1
        if ok:
            for oe in (True, False):
                dom = ObsDomain(dict(observers_empty=oe))
                vals = {P.ret if isinstance(P.ret, bool) else repr(P.ret) for P, E in run_paths(self.facts, hs, dom)}
                if vals != {not oe}: ok = False
        self.add('SH.5', ok, f'{short}::hasSubscriptions() <=> the observer list is non-empty', hs.shortloc(),
                 '' if ok else 'hasSubscriptions() is not the emptiness of m_observers: a registered subscription (e.g. with a currently invalid observer) is reported as absent, shrink removes its key and the handle dangles', key='SH.5|nonempty')

    # ---- Observer::operator() -------------------------------------------------------------------------------------------------
    def observer_rules(self):
        ops = [f for f in self.facts.fns if f.gname == 'tulz::Observer::operator()']
        for f in ops:
            short = f.d['classfull'].replace('std::basic_string<char>', 'std::string')
            for muted, valid in itertools.product([True, False], [True, False]):
                dom = ObsDomain(dict(muted=muted, obs_valid=valid))
                res = run_paths(self.facts, f, dom)
                for P, E in res:
                    inv = [e for e in E if e.kind == 'opaque' and e.obj == 'm_func']
                    want = (not muted) and valid
                    ok = (len(inv) == 1) == want and len(inv) <= 1
                    self.add('SUB.3', ok, f'{short}::operator() row (muted={muted}, valid={valid}): the stored function is called iff not muted and valid', inv[0].site if inv else f.shortloc(),
                             '' if ok else (f'the function is invoked although the observer is {"muted" if muted else "invalid"}' if inv else 'a valid, unmuted observer is not invoked'), key='SUB.3|guard')
            self.n_ops = len(ops)

    # ---- Subscription ------------------------------------------------------------------------------------------------------------
    def subscription_rules(self):
        subs = sorted(c for c in self.facts.classes if strip_targs(c) == 'tulz::Subscription' and c != 'tulz::Subscription')
        for S in subs:
            c = self.facts.cls(S); short = S.replace('std::basic_string<char>', 'std::string')
            ms = c['methods']
            cc = [m for m in ms if m.get('ctor') and m.get('copy')]; ca = [m for m in ms if m.get('copyassign')]
            ok = bool(cc) and all(m['deleted'] for m in cc) and bool(ca) and all(m['deleted'] for m in ca)
            self.add('SUB.7', ok, f'{short} is move-only (copy constructor and copy assignment deleted)', c['loc'], '' if ok else 'a Subscription can be copied: two handles unsubscribe the same id', key='SUB.7|moveonly')
            mv = [f for f in self.facts.fns if f.d.get('classfull') == S and f.d.get('moveassign')]
            for f in mv:
                sw = [n for n in f.nodes() if n.is_call('std::swap')]
                fields = set()
                for n in sw:
                    for a in n.ns('args'):
                        if a is not None and a.k == 'member' and a.field: fields.add(a.name)
                allf = {x['name'] for x in c['fields']}
                self.add('SUB.7', fields == allf, f'{short}: move assignment swaps every field {sorted(allf)}', f.shortloc(), '' if fields == allf else f'only {sorted(fields)} are exchanged', key='SUB.7|swap')
            iv = [f for f in self.facts.fns if f.d.get('classfull') == S and f.qname.split('::')[-1] == 'isValid']
            for f in iv:
                nullt = [n for n in f.nodes() if n.k == 'binop' and n.op in ('!=', '==') and ((n.n('lhs').is_field('m_subject') and n.n('rhs').k == 'null') or (n.n('rhs').is_field('m_subject') and n.n('lhs').k == 'null'))]
                dl = [n for n in f.nodes() if n.k == 'call' and strip_targs(n.calleeq or '') == 'tulz::Subject::isSubscriptionValid']
                self.add('SUB.7', bool(nullt) and bool(dl), f'{short}::isValid() = subject non-null and the subject confirms the id', f.shortloc(), '' if nullt and dl else 'validity is not derived from the subject', key='SUB.7|isvalid')


RULE_TEXT = {
    'SUB.1': 'order parity: the number of reversals between subscribe (insertion end), snapshot (insertion end, reverse) and delivery (forward) is even',
    'SUB.2': 'per round: exactly one Observer::operator() per snapshot entry whose id is still active, none otherwise; the id is re-validated between consecutive callbacks',
    'SUB.3': 'Observer::operator() calls the stored function iff !muted && valid (4-row table)',
    'SUB.4': 'inside the delivery loop the arguments are passed as lvalues / to references (no xvalue into a by-value parameter): every observer receives the values that were passed',
    'SUB.5': 'unsubscribe(handle): proceeds iff handle.subject == this and the id is active; otherwise throws std::invalid_argument and changes nothing; afterwards all handle fields are reset',
    'SUB.6': 'bookkeeping pairs: subscribe adds the same fresh id (pre-increment value of a counter that only grows) to both containers; removal takes it out of both; an invalidated observer is removed with its snapshot id',
    'SUB.7': 'Subscription is move-only, move = swap of all fields, isValid = non-null subject and the subject\'s own test',
    'SH.5': 'hasSubscriptions() is exactly !m_observers.empty()',
    'RE.1': 'the delivery loop iterates a snapshot that is local to this notify() call (not m_observers, not a member buffer shared by nested rounds)',
    'RE.2': 'the snapshot entry owns the observer (std::shared_ptr copy): the object whose member function is running, and on which isValid() is called afterwards, cannot be destroyed by a callback',
    'RE.4': 'the snapshot is complete before the first callback: observers added during a round are first invoked in the next round',
}

_cache = {}


def analyse(facts, rep):
    key = id(facts)
    if key not in _cache:
        a = SubjectAnalysis(facts, rep); a.run()
        _cache.clear(); _cache[key] = a
    return _cache[key]


def emit(facts, rep, rules, floors, text=RULE_TEXT, res=None):
    a = analyse(facts, rep) if res is None else None
    results = a.res if res is None else res
    for r in rules: rep.rule(r, text[r])
    for r in rules:
        seen = set()
        for ok, inst, site, why, key in results.get(r, []):
            if (ok, inst, why) in seen: continue
            seen.add((ok, inst, why))
            if ok is True: rep.ok(r, inst, site)
            elif ok is False: rep.violation(r, inst, site, why, key=(key or f'{r}|{site}') , fn='')
            else: rep.inconclusive(r, inst, site, why)
        if all(ok is True for ok, _, _ in seen): rep.floor(f'{r} instances', len(seen), floors.get(r, 1))
    if a is not None:
        full = len(a.subs) - len(getattr(a, 'partial', []))
        rep.count('subject_instantiations', full); rep.floor('fully instantiated Subject<...> classes', full, 7)
