"""Subject / Observer / Subscription rules (C05: SUB.1-7, C10: RE.1-4) evaluated on every witness instantiation."""
import itertools, re
from facts import Node, strip_targs, Inconclusive
from symex import Lin, Unknown, Ref, Closure, Sym, Exec, as_lin
from evdom import EvDomain, Ev, run_paths, _flatten, loop_conds, loop_visits
import common

TUS = ['witness/w_observer.cpp']
SCALARS = {'int', 'unsigned int', 'long', 'unsigned long', 'long long', 'unsigned long long', 'short', 'unsigned short', 'char', 'unsigned char', 'signed char', 'bool', 'float', 'double', 'long double'}
INSERT_FRONT = {'emplace_front', 'push_front'}
INSERT_BACK = {'emplace_back', 'push_back'}


OBS, ACT, CNT = 'm_observers', 'm_activeSubscriptions', 'm_subscriptionCounter'
REMOVALS = ('remove_if', 'erase', 'remove', 'erase_after', 'erase_if', 'pop_front', 'pop_back', 'clear')
INSERTS = INSERT_FRONT | INSERT_BACK | {'insert', 'emplace', 'insert_after', 'emplace_after', 'emplace_hint', 'try_emplace', 'insert_or_assign'}


class ObsDomain(EvDomain):
    """atoms: id_active (the id under test is in the active set), obs_valid (Observer::isValid() after the call), observers_empty,
    muted, same_subject.  Every consultation of id_active leaves a `consult` event, however the test is spelled
    (contains / count / find != end)."""
    loop_unroll = 1
    max_depth = 6

    def consult(self, key, st, fr, n):
        v = self.atom(key)
        if key == 'id_active' and v is True and getattr(self, 'erase_deactivates', False):
            # the row fixes whether the id is active on entry; once this path has erased it from the active set it is not any more
            for t_ in st.events:
                e_ = t_[2] if isinstance(t_, tuple) and len(t_) == 3 and t_[0] == 'ev' else None
                if e_ is not None and e_.kind == 'call' and (e_.obj == ACT or (e_.obj is None and e_.argobjs and e_.argobjs[0] == ACT)) and e_.name.split('::')[-1] in ('erase', 'clear', 'extract', 'erase_if'):
                    v = False; break
        if v is not None: self.ev(st, Ev('consult', n, name=key, val=v), fr)
        return v

    def call_result(self, ex, n, q, base, on, ov, vals, st, fr):
        if on == ACT and base == 'contains':
            v = self.consult('id_active', st, fr, n); return v if v is not None else Unknown(('contains', n.id))
        if on == ACT and base == 'count':
            v = self.consult('id_active', st, fr, n); return Lin.const(1 if v else 0) if v is not None else Unknown(('count', n.id))
        if on == ACT and base == 'find': return Sym(f'{ACT}.find')
        if on in (OBS, ACT) and base == 'empty':
            # the id set is empty exactly when the observer table is: the two change together (SUB.6, checked on every member)
            v = self.atom('observers_empty'); return v if v is not None else Unknown(('empty', n.id))
        if base in ('operator==', 'operator!='):
            ops = [x for x in ([ov] + list(vals)) if x is not None]
            ops = [ex.read(x.loc, st, n) if isinstance(x, Ref) else x for x in ops]
            r = self.compare(ex, '==' if base == 'operator==' else '!=', ops[0], ops[1], n, st, fr) if len(ops) == 2 else None
            if r is not None: return r
        return super().call_result(ex, n, q, base, on, ov, vals, st, fr)

    def compare(self, ex, op, l, r, n, st, fr):
        names = {x.name for x in (l, r) if isinstance(x, Sym)}
        if names == {f'{ACT}.find', f'{ACT}.end'} and op in ('==', '!='):
            v = self.consult('id_active', st, fr, n)
            if v is not None: return v if op == '!=' else (not v)
        if names == {f'{OBS}.begin', f'{OBS}.end'} and op in ('==', '!='):
            v = self.atom('observers_empty')
            if v is not None: return v if op == '==' else (not v)
        for a, b, o in ((l, r, op), (r, l, {'<': '>', '>': '<', '<=': '>=', '>=': '<=', '==': '==', '!=': '!='}.get(op, op))):
            if isinstance(a, Lin) and a.t == {f'{OBS}.size': 1} and a.c == 0 and isinstance(b, Lin) and b.is_const() and b.c == 0:
                v = self.atom('observers_empty')
                if v is not None: return {'==': v, '!=': not v, '>': not v, '<=': v, '<': False, '>=': True}.get(o)
            if isinstance(a, Lin) and a.is_const() and a.c in (0, 1) and isinstance(b, Lin) and b.is_const() and False: pass
        if op in ('==', '!=') and isinstance(l, Ref) and isinstance(r, Ref):
            if l.loc == r.loc: return op == '=='
            def is_tmp(loc):
                if (loc[0] == 'f' and loc[1] and loc[1][0] == 'tmp') or loc[0] == 'tmp': return True
                v = st.store.get(loc)
                return (isinstance(v, Sym) and v.name.startswith('obj:')) or type(v).__name__ == 'Record'      # a freshly constructed local / temporary object
            if is_tmp(l.loc) or is_tmp(r.loc): return op == '!='         # a temporary is no other object
        if 'same_subject' in self.oracle and op in ('==', '!='):
            # handle.m_subject (or what getSubject() returns) against `this`
            this_side = [x for x in (l, r) if isinstance(x, Ref) and x.loc == ('f', ('this',))]
            subj_side = [x for x in (l, r) if 'm_subject' in repr(x)]
            if this_side and subj_side:
                v = self.atom('same_subject'); return v if op == '==' else (not v)
            # handle.m_subject against null: a handle of this subject has a subject
            null_side = [x for x in (l, r) if (isinstance(x, Lin) and x.is_const() and x.c == 0) or (isinstance(x, int) and not isinstance(x, bool) and x == 0)]
            if null_side and subj_side and self.atom('same_subject') is True: return op == '!='
        return None

    def container_empty(self, X):
        return self.atom('observers_empty') if X == OBS else None

    extra_scalars = ()       # scalar members of the Subject outside the delivery tables (set per class by the analysis)

    def summarise_loop(self, ex, loop, st, fr):
        # one iteration stands for every iteration: when the body runs user callbacks (directly or through a helper of the class), the
        # extra scalar members at the loop head are whatever earlier iterations' callbacks left there
        if self.extra_scalars and loop is not None and fr.this and fr.this[0] == 'this':
            body = loop.n('body') or loop
            if any(x.k == 'call' and (x.virtual or (x.ck == 'op' and x.op == '()') or x.callee_in_root) for x in body.walk()):
                for x in self.extra_scalars:
                    ex.write(('f', fr.this + (x,)), Unknown(('at-loop-head', x, loop.id)), st, loop)
        return None

    def vcall_result(self, ex, n, q, base, on, ov, vals, st, fr):
        if base == 'isValid':
            v = self.atom('obs_valid'); return v
        if base == 'operator()':
            # the user callback may call any public member of this Subject (subscribe / unsubscribe / notify): what the extra scalar
            # members (a removal counter, a dirty flag, a cached size) hold afterwards is not what they held before
            for x in self.extra_scalars:
                ex.write(('f', fr.this + (x,)) if fr.this and fr.this[0] == 'this' else ('f', ('this', x)), Unknown(('after-callback', x, n.id)), st, n)
        return None

    def field_value(self, path, node):
        if path[-1] == 'mute' or path[-1] == 'm_mute':
            v = self.atom('muted'); return v
        return None


def subjects(facts):
    return sorted(c for c in facts.classes if strip_targs(c) == 'tulz::Subject' and c != 'tulz::Subject')


def member(facts, cls, name):
    c = [f for f in facts.fns if f.d.get('classfull') == cls and f.qname.split('::')[-1] == name and not f.d.get('lambda')]
    return c[0] if c else None


def contains(node, pred):
    return any(pred(x) for x in node.walk())


def is_observer_call(n):
    return n.k == 'call' and strip_targs(n.calleeq or '') == 'tulz::Observer::operator()'


def on_container(e, cont, bases):
    """call event on container `cont` (member call, or a free algorithm such as std::erase_if(cont, ...)) with one of the base names"""
    if e.kind != 'call': return False
    b = e.name.split('::')[-1]
    if b not in bases: return False
    return e.obj == cont or (e.obj is None and e.argobjs and e.argobjs[0] == cont)


class SubjectAnalysis:
    def __init__(self, facts, rep):
        self.rep = rep; self.res = {}
        self.subs0 = subjects(facts)
        # roles: the observer table, the set of active ids, the id counter — by type, whatever they are called
        import roles
        per = {}; self.unfit = []
        for S in self.subs0:
            fm, entry, why = roles.infer_subject(facts, S)
            if fm is None: self.unfit.append((S, why)); continue
            per[S] = (fm, entry)
        ren = {}
        for S, (fm, (ecls, em)) in per.items():
            for k, v in list(fm.items()) + list(em.items()):
                if k != v: ren[k] = v
        if ren:
            facts = roles.renamed_subject_facts(facts, per)
            rep.assume('Subject members recognised by role (type), reported under their canonical names: ' + ', '.join(f'{k} = {v}' for k, v in sorted(ren.items())))
        self.facts = facts
        self.subs = [S for S in self.subs0 if S in per]
        if self.unfit:
            S, why = self.unfit[0]
            rep.anchor_missing(f'{S} data layout', why)

    def add(self, rule, ok, inst, site, why='', key=None):
        if ok is not None: ok = bool(ok)
        self.res.setdefault(rule, []).append((ok, inst, site, why, key))

    def run(self):
        for S in self.subs:
            short = S.replace('std::basic_string<char>', 'std::string')
            fns = {n: member(self.facts, S, n) for n in ('notify', 'subscribe', 'unsubscribe', 'hasSubscriptions', 'isSubscriptionValid')}
            missing = [n for n, f in fns.items() if f is None]
            if missing:
                # implicitly instantiated through Observable: only some members exist; the explicit witnesses cover the class
                self.partial = getattr(self, 'partial', []) + [S]
                continue
            self.fields = {f['name'] for f in self.facts.cls(S)['fields']}
            self.no_counter = CNT not in self.fields
            self.notify_rules(S, short, fns)
            self.subscribe_rules(S, short, fns)
            self.counter_writers(S, short, fns)
            self.unsubscribe_rules(S, short, fns)
            self.other_members(S, short, fns)
        self.observer_rules()
        self.subscription_rules()

    # ---- notify ---------------------------------------------------------------------------------------------------------
    def _deliver_loop(self, f):
        """(loop node, function that contains it) for the innermost loop from which Observer::operator() is reached (helpers followed)"""
        def reaches(fn, depth=0, seen=None):
            seen = seen or set()
            if fn.name in seen or depth > 3: return False
            seen.add(fn.name)
            for n in fn.nodes():
                if is_observer_call(n): return True
                if n.k == 'call' and n.callee_in_root:
                    for t in self.facts.resolve(n):
                        if t.d.get('classfull') == fn.d.get('classfull') and reaches(t, depth + 1, seen): return True
            return False
        def find(fn, depth=0):
            best = None
            for l in [n for n in fn.nodes() if n.k in ('rangefor', 'for', 'while', 'do')]:
                body = l.n('body') or l
                hit = contains(body, is_observer_call) or any(n.k == 'call' and n.callee_in_root and any(t.d.get('classfull') == fn.d.get('classfull') and reaches(t) for t in self.facts.resolve(n)) for n in body.walk())
                if hit and (best is None or any(x.id == l.id for x in best.walk())): best = l
            return best
        return find(f)

    def notify_rules(self, S, short, fns):
        f = fns['notify']; site = f.shortloc()
        deliver = self._deliver_loop(f)
        calls = [n for g in [f] + [t for n in f.nodes() if n.k == 'call' and n.callee_in_root for t in self.facts.resolve(n) if t.d.get('classfull') == S] for n in g.nodes() if is_observer_call(n)]
        if deliver is None or not calls:
            self.add('SUB.2', None, f'{short}::notify', site, 'no loop that invokes Observer::operator() found'); return
        dcond = deliver.n('c').id if deliver.n('c') is not None else None
        conds = loop_conds(self.facts, {g.name for g in self.facts.fns if g.d.get('classfull') == S})
        # SUB.4: arguments are passed as lvalues (never consumed by the first receiver)
        for c in calls:
            cargs = c.ns('args')[1:] if (c.ck == 'op' and 'mclass' in c.d) else c.ns('args')
            for i, a in enumerate(cargs):
                if a is None: continue
                x = a
                consumed = x.cat == 'x' or (x.k == 'call' and (x.calleeq or '') in ('std::move',)) or (x.k == 'call' and (x.calleeq or '') == 'std::forward' and x.cat == 'x') \
                    or (x.k == 'construct' and x.move)
                params = c.params or []
                byval = i < len(params) and not params[i].endswith('&') and not params[i].endswith('*') and params[i] not in SCALARS
                if consumed and byval:
                    self.add('SUB.4', False, f'{short}::notify: argument {i} reaches every observer unconsumed', c.shortloc(),
                             f'`{a.text()[:50]}` is an xvalue bound to the by-value parameter `{params[i]}` of Observer::operator(): the first observer moves the value away, every later observer of the round receives a moved-from object', key=f'SUB.4|consumed')
                else:
                    self.add('SUB.4', True, f'{short}::notify: argument {i} is passed as an lvalue / to a reference', c.shortloc())
        # SUB.4 (second half): the round works on its own copy of every by-value argument.  notify()'s parameter types are the pack itself;
        # a reference where the pack element is a value type aliases the caller's object, which an observer (or the caller, re-entrantly) may change
        pack = S[S.index('<') + 1:S.rindex('>')] if '<' in S else ''
        want = [t.strip() for t in _split_targs(pack)] if pack.strip() else []
        notify = f
        got = [p_['ctype'] for p_ in notify.d['params']]
        if len(want) == len(got):
            for i, (w_, g_) in enumerate(zip(want, got)):
                norm_ = lambda t: t.replace(' ', '')
                if norm_(w_) == norm_(g_): self.add('SUB.4', True, f'{short}::notify: parameter {i} has the type of the pack element ({g_})', notify.shortloc())
                elif not w_.rstrip().endswith('&') and g_.rstrip().endswith('&'):
                    self.add('SUB.4', False, f'{short}::notify: parameter {i} has the type of the pack element', notify.shortloc(),
                             f'the pack element is the value type `{w_}` but notify() takes `{g_}`: the round aliases the caller\'s object instead of holding its own copy — an observer that changes that object (or the caller re-entering) changes what the later observers of the same round receive', key='SUB.4|aliased')
                else: self.add('SUB.4', None, f'{short}::notify: parameter {i} has the type of the pack element', notify.shortloc(), f'pack element `{w_}`, parameter `{g_}`')
        # RE.2: the round owns the observer it calls
        for c in calls: self._ownership(S, short, c)
        self._stable_storage(S, short, f, deliver)
        self._held_across_callback(S, short, f, deliver, calls)
        # path rules: SUB.2 / SUB.6 / RE.1 / RE.4 / SUB.1
        order_seen = set()
        cls_ = self.facts.cls(S) or {}
        ObsDomain.extra_scalars = tuple(x['name'] for x in cls_.get('fields', []) if x['name'] not in (OBS, ACT, CNT) and (x['ctype'].replace('const ', '') in ('bool', 'int', 'unsigned int', 'long', 'unsigned long', 'unsigned long long', 'long long', 'size_t', 'std::size_t', 'uint64_t', 'unsigned char', 'char', 'short') or x['ctype'].startswith('std::atomic<')))
        for id_active, obs_valid in itertools.product([True, False], [True, False]):
            dom = ObsDomain(dict(id_active=id_active, obs_valid=obs_valid))
            res = run_paths(self.facts, f, dom)
            row = f'(id active={id_active}, observer valid after call={obs_valid})'
            bad = {}; n_paths = 0; n_inv = 0; lazy_seen = dict(o=False, a=False, n=0); row_undecided = None
            for P, E in res:
                if P.end in ('throw', 'noreturn'): continue
                xf = common.extra_field_fork(P, 'tulz::Subject', tuple(n_ for n_ in self.fields if n_ not in ObsDomain.extra_scalars) + (OBS, ACT, CNT))          # scalar members only: a member container that the round walks is RE.1's business
                undec_path = xf is not None
                if undec_path:
                    # the path was chosen by a test of a member the delivery tables know nothing about (a removal counter, a dirty flag):
                    # whether "nothing changed since the snapshot" follows from it is not followed.  What the round iterates (RE.1 / RE.4) does
                    # not depend on that and is still judged
                    row_undecided = xf
                else: n_paths += 1
                vis = [(i, c) for i, c in loop_visits(E, conds) if E[i].node.id == dcond]
                bounds = [i for i, c in vis] + [len(E)]
                oc = [i for i, e in enumerate(E) if e.kind == 'vcall' and e.name.endswith('operator()')]
                n_inv += len(oc)
                # the delivery loop's container (RE.1) and what happens to m_observers once callbacks run (RE.4)
                for i, cont in vis[:1]:
                    if cont is None: self.add('RE.1', None, f'{short}::notify: delivery loop', deliver.shortloc(), 'the container walked by the delivery loop was not identified')
                    elif cont in self.fields:
                        self.add('RE.1', False, f'{short}::notify: the delivery loop iterates a snapshot local to this call', deliver.shortloc(),
                                 f'the delivery loop iterates the member `{cont}`' + (': a callback that subscribes/unsubscribes invalidates the iteration' if cont == OBS else
                                 ': the snapshot is shared between nested notify() calls — a callback that calls notify() refills/clears the buffer the outer round is walking, the outer round skips the remaining observers'), key='RE.1|snapshot-local')
                    else: self.add('RE.1', True, f'{short}::notify: the delivery loop iterates `{cont}`, a snapshot local to this call', deliver.shortloc(), key='RE.1|snapshot-local')
                # the snapshot takes every entry: whether an observer is muted (or valid) is its state *at its turn*, which an earlier
                # callback of the round may change, so no entry may be left out when the snapshot is filled
                first_cb = oc[0] if oc else len(E)
                fvis = [(i, c) for i, c in loop_visits(E, conds) if c == OBS and i < first_cb and E[i].node.id != dcond]
                fb = [i for i, c in fvis] + [min([i for i, c in vis] + [first_cb])]
                for k in range(len(fb) - 1):
                    lo, hi = fb[k], fb[k + 1]
                    if hi <= lo or (P.end == 'loop' and hi >= len(E)): continue
                    ins = [e for e in E[lo:hi] if e.kind == 'call' and e.obj is not None and e.obj not in self.fields and e.name.split('::')[-1] in INSERTS]
                    if ins: continue
                    mute = [e for e in E[lo:hi] if e.kind in ('call', 'vcall', 'enter', 'consult') and ((e.name or '').split('::')[-1] in ('isMuted', 'muted') or (e.name or '').endswith('isMuted'))]
                    if not mute:
                        # the condition of the skipped insertion, by its text (a member access spelled differently)
                        mute = [e for e in E[lo:hi] if e.kind == 'branch' and e.node is not None and 'mute' in (e.node.text() or '').lower()]
                    inst = f'{short}::notify: every entry of m_observers is taken into the round\'s snapshot'
                    if mute:
                        self.add('RE.4', False, inst, mute[0].site, 'an observer that is muted when notify() is entered is left out of the snapshot: the mute state is read at the start of the round instead of at the observer\'s turn — '
                                 'an observer unmuted by an earlier callback of the same round is not called, and a muted observer that is invalidated during the round is never removed', key='RE.4|snapshot-filter')
                    elif any(e.kind == 'branch' for e in E[lo:hi]):
                        self.add('RE.4', None, inst, E[lo].site, 'an entry is left out of the snapshot under a condition that was not recognised')
                if oc:
                    walk = [e for e in E[oc[0]:] if e.kind == 'call' and e.obj == OBS and e.name.split('::')[-1] in ('begin', 'cbegin', 'rbegin', 'front', 'back', 'before_begin')
                            and not any(x.kind == 'enter' and x.name.endswith(('unsubscribeById',)) for x in [])]
                    # traversal of m_observers after a callback ran is only legitimate inside the removal of an invalidated observer
                    late = [e for e in walk if not self._inside_removal(E, E.index(e))]
                    self.add('RE.4', not late, f'{short}::notify: m_observers is not walked any more once the first callback has run (the snapshot is complete)', (late[0].site if late else deliver.shortloc()),
                             '' if not late else 'observers are invoked while m_observers is being walked: one subscribed during the round is invoked in the same round / iterator invalidation', key='RE.4|snapshot-first')
                if undec_path: continue
                # complete iterations only: a path cut by the unroll bound ends inside its last iteration
                for k in range(len(bounds) - 1):
                    lo, hi = bounds[k], bounds[k + 1]
                    if P.end == 'loop' and k == len(bounds) - 2: continue
                    inv = [i for i in oc if lo <= i < hi]
                    if id_active and len(inv) != 1: bad.setdefault('count', f'{len(inv)} invocation(s) for a snapshot entry whose subscription is active')
                    if not id_active and inv: bad.setdefault('inactive', 'an observer whose subscription id is no longer active is still invoked')
                    for i in inv:
                        tests = [j for j in range(lo, i) if E[j].kind == 'consult' and E[j].name == 'id_active']
                        if not tests: bad.setdefault('reval', 'no validity test of the subscription id between the previous callback and this invocation: an observer unsubscribed by an earlier callback of the same round is still invoked')
                        if id_active and not obs_valid:
                            rem_o = [j for j in range(i, hi) if on_container(E[j], OBS, REMOVALS)]
                            rem_a = [j for j in range(i, hi) if on_container(E[j], ACT, REMOVALS)]
                            lazy_seen['o'] |= bool(rem_o); lazy_seen['a'] |= bool(rem_a); lazy_seen['n'] += 1
                if not vis and oc: bad.setdefault('noloop', None)
                # SUB.1 order parity on the paths that deliver something
                if not oc or not vis: continue
                od = self._order(E, oc[0], vis)
                if od is not None and od not in order_seen:
                    order_seen.add(od); self._order_verdict(S, short, fns, od, deliver)
            if id_active and obs_valid and not order_seen:
                self.add('SUB.1', None, f'{short}: order parity', deliver.shortloc(), 'how the snapshot is filled from m_observers was not recognised (no insertion into a local container, no range construction)')
            if row_undecided is not None:
                shared = self._round_state_shared(f, deliver, row_undecided)
                if shared is not None:
                    xname, wsite = shared
                    self.add('SUB.2', False, f'{short}::notify: what a round remembers about itself is local to the round', wsite,
                             f'the re-validation of the id is skipped on `{xname}`, a member that notify() itself resets at the start of every round ({wsite}): rounds nest (a callback may call notify()), '
                             f'the inner round resets the outer round\'s `{xname}`, and the outer round then invokes an observer that was unsubscribed before its turn', key='SUB.2|round-state-shared')
                else:
                    self.add('SUB.2', None, f'{short}::notify row {row}', row_undecided.shortloc(), f'some paths of the round depend on `{(row_undecided.text() or "")[:50]}`, a test of a member outside the delivery tables: not followed')
            if 'noloop' in bad:
                self.add('SUB.2', None, f'{short}::notify row {row}', site, 'the iterations of the delivery loop were not identified on the evaluated paths'); continue
            if n_paths == 0: continue
            self.add('SUB.2', 'count' not in bad and 'inactive' not in bad, f'{short}::notify row {row}: one invocation per active snapshot entry, none for an inactive one ({n_paths} paths)', calls[0].shortloc(),
                     bad.get('count') or bad.get('inactive') or '', key='SUB.2|once')
            if id_active:
                self.add('SUB.2', 'reval' not in bad, f'{short}::notify row {row}: the id is re-validated before every invocation', calls[0].shortloc(), bad.get('reval', ''), key='SUB.2|revalidate')
            if id_active and not obs_valid and lazy_seen['n'] and not (lazy_seen['o'] and lazy_seen['a']):
                bad['lazy'] = 'an observer that reports invalid after its call is not removed from both m_observers and m_activeSubscriptions'
            if id_active and not obs_valid:
                self.add('SUB.6', 'lazy' not in bad, f'{short}::notify row {row}: an invalidated observer is removed with its snapshot id', site, bad.get('lazy', ''), key='SUB.6|lazy')

    def _round_state_shared(self, f, deliver, cond):
        """(member, site) if the condition `cond` of the delivery loop reads a scalar member that notify() itself assigns a constant before
        the loop (a per-round flag kept in the object: nested rounds share it); else None"""
        names = {x.name for x in cond.walk() if x.k == 'member' and x.field and x.name in ObsDomain.extra_scalars}
        if not names: return None
        inloop = {x.id for x in deliver.walk()}
        for n in f.nodes():
            if n.id in inloop: continue
            if n.k == 'binop' and n.op == '=' and n.n('lhs') is not None and n.n('lhs').k == 'member' and n.n('lhs').field and n.n('lhs').name in names \
                    and n.n('lhs').n('base') is not None and n.n('lhs').n('base').k == 'this':
                r = n.n('rhs')
                while r is not None and r.k == 'cast': r = r.n('sub')
                if r is not None and r.k in ('bool', 'int'): return n.n('lhs').name, n.shortloc()
        return None

    def _inside_removal(self, E, i):
        """event i lies inside a helper that removes from m_observers / m_activeSubscriptions (enter ... leave bracket containing a removal)"""
        depth = 0
        for j in range(i, -1, -1):
            if E[j].kind == 'leave': depth += 1
            elif E[j].kind == 'enter':
                if depth == 0:
                    # find the matching leave
                    d = 0
                    for k in range(j + 1, len(E)):
                        if E[k].kind == 'enter': d += 1
                        elif E[k].kind == 'leave':
                            if d == 0: return any(on_container(E[x], OBS, REMOVALS) or on_container(E[x], ACT, REMOVALS) for x in range(j, k))
                            d -= 1
                    return False
                depth -= 1
        return False

    def _origin_fn(self, S, f):
        inits = {}
        for g_ in [f] + [h for h in self.facts.fns if h.d.get('classfull') == S and h is not f]:
            for n_ in g_.nodes():
                if n_.k == 'decl':
                    for v_ in n_.vars:
                        if v_.get('init') and v_['init'] in n_.tu.ex: inits[v_['decl']] = Node(n_.tu, v_['init'])
        def origin(x, depth=0):
            """'member' if the address / iterator leads into m_observers, 'local' if into a container local to the round (the snapshot)"""
            while x is not None and x.k in ('cast', 'paren', 'materialize', 'bindtemp') and x.n('sub') is not None: x = x.n('sub')
            if x is None or depth > 8: return None
            if x.k == 'member' and x.field:
                if x.name == OBS: return 'member'
                return origin(x.n('base'), depth + 1)
            if x.k == 'ref':
                t_ = (x.type or x.d.get('decltype') or '').replace('const ', '').strip()
                if x.dk == 'binding' and x.binding and x.binding in x.tu.ex:
                    # a member of a snapshot entry: an address kept there was taken when the snapshot was filled, from m_observers
                    return 'member' if t_.endswith('*') else origin(Node(x.tu, x.binding), depth + 1)
                if re.match(r'std::(__cxx11::)?(vector|deque|list|forward_list|array)<', t_): return 'local' if x.dk in ('local', 'param') else None
                if x.decl in inits: return origin(inits[x.decl], depth + 1)
                return None
            if x.k == 'unop' and x.op in ('&', '*'): return origin(x.n('sub'), depth + 1)
            if x.k == 'call':
                if x.n('object') is not None: return origin(x.n('object'), depth + 1)
                a_ = [a for a in x.ns('args') if a is not None]
                return origin(a_[0], depth + 1) if a_ else None
            if x.k == 'construct':
                a_ = [a for a in x.ns('args') if a is not None]
                return origin(a_[0], depth + 1) if a_ else None
            return None
        return origin

    def _stable_storage(self, S, short, f, deliver):
        """RE.5: what the delivery loop reads out of m_observers' own storage (through an address / iterator taken before the callbacks
        ran) is still there: a callback may erase *other* entries, which leaves the remaining ones in place only in a node-based
        container"""
        cls = self.facts.cls(S) or {}
        of = next((x for x in cls.get('fields', []) if x['name'] == OBS), None)
        if of is None: return
        ct = of['ctype']
        m = re.match(r'std::(?:__cxx11::)?(\w+)<(.*)', ct)
        kind = m.group(1) if m else ''
        elem = _split_targs(ct[ct.index('<') + 1:ct.rindex('>')])[0].strip() if '<' in ct else ''
        ename = elem.split('::')[-1]
        if not ename: return
        body = deliver.n('body') or deliver
        def into_storage(x):
            t = (x.type or '').replace('const ', '').strip()
            return (t.endswith('*') and t.rstrip('* ').split('::')[-1] == ename) or ('_iterator<' in t and ename in t) or ('iterator' in t.lower() and ename in t and not t.endswith('*') and 'std::' in t)
        origin = self._origin_fn(S, f)
        uses = []; unknown_uses = []
        for x in body.walk():
            b_ = None
            if x.k == 'member' and x.field and x.arrow and x.n('base') is not None and into_storage(x.n('base')): b_ = x.n('base')
            elif x.k == 'unop' and x.op == '*' and x.n('sub') is not None and into_storage(x.n('sub')): b_ = x.n('sub')
            elif x.k == 'call' and x.ck == 'op' and x.op in ('*', '->') and x.ns('args') and x.ns('args')[0] is not None and into_storage(x.ns('args')[0]): b_ = x.ns('args')[0]
            if b_ is None: continue
            o_ = origin(b_)
            if o_ == 'member': uses.append(x)
            elif o_ is None: unknown_uses.append(x)
        inst = f'{short}::notify: entries of m_observers read during the delivery stay where they were'
        if not uses and unknown_uses and kind in ('vector', 'deque', 'basic_string'):
            self.add('RE.5', None, inst, unknown_uses[0].shortloc(), f'whether `{unknown_uses[0].text()[:40]}` designates an entry of m_observers or of the round\'s own snapshot was not followed'); return
        if not uses:
            self.add('RE.5', True, f'{short}::notify: the delivery loop reads nothing out of m_observers\' own storage (the snapshot holds copies)', deliver.shortloc(), key='RE.5|stable'); return
        if kind in ('forward_list', 'list', 'set', 'map', 'multiset', 'multimap', 'unordered_map', 'unordered_set'):
            self.add('RE.5', True, inst + f' (std::{kind}: erasing one entry leaves the others in place)', uses[0].shortloc(), key='RE.5|stable')
        elif kind in ('vector', 'deque', 'basic_string'):
            self.add('RE.5', False, inst, uses[0].shortloc(),
                     f'`{uses[0].text()[:40]}` reads an entry of m_observers through an address taken before the callbacks ran, and m_observers is a std::{kind}: a callback that removes (or adds) another observer '
                     f'shifts the entries, the address then denotes a neighbour or a destroyed slot while its id still passes the id check — one observer is called twice, another not at all', key='RE.5|stable')
        else:
            self.add('RE.5', None, inst, uses[0].shortloc(), f'whether `{ct[:50]}` keeps the other entries in place when one is erased is not known')

    def _held_across_callback(self, S, short, f, deliver, calls):
        """RE.5 for every other member container: an iterator / reference / pointer into a member container taken before the callback and
        used after it, while some member function erases from that container — the callback can call that function (unsubscribe itself)"""
        cls = self.facts.cls(S) or {}
        conts = {x['name']: x['ctype'] for x in cls.get('fields', []) if x['name'] != OBS and re.match(r'std::(?:__cxx11::)?(map|unordered_map|set|unordered_set|multimap|multiset|list|forward_list|vector|deque)<', x['ctype'] or '')}
        if not conts or not calls: return
        g = common.owner_fn(self.facts, calls[0]) or f
        if g.cfg is None: return
        ERASERS = ('erase', 'clear', 'remove', 'remove_if', 'erase_if', 'pop_front', 'pop_back', 'extract', 'swap', 'operator=', 'resize', 'assign')
        erased = {}
        for h in self.facts.fns:
            if h.d.get('classfull') != S: continue
            for n in h.nodes():
                if n.k == 'call' and (n.callee_base() in ERASERS or strip_targs(n.calleeq or '') in ('std::erase_if', 'std::erase')):
                    for a in [n.n('object')] + n.ns('args'):
                        if a is not None and a.k == 'member' and a.name in conts: erased.setdefault(a.name, (h, n))
        for n in g.nodes():
            if n.k != 'decl': continue
            for v in n.vars:
                if not v.get('init') or v['init'] not in n.tu.ex: continue
                init = Node(n.tu, v['init'])
                x = init
                while x is not None and x.k in ('cast', 'materialize', 'bindtemp', 'construct') and (x.n('sub') is not None or x.ns('args')): x = x.n('sub') if x.n('sub') is not None else x.ns('args')[0]
                if x is None or x.k != 'call': continue
                obj = x.n('object')
                if obj is None or obj.k != 'member' or obj.name not in conts: continue
                ty = (v.get('ctype') or v.get('type') or init.type or '')
                into = 'iterator' in ty or v.get('isref') or v.get('isptr') or ty.rstrip().endswith(('&', '*'))
                if not into or x.callee_base() in ('size', 'empty', 'count', 'contains'): continue
                cname = obj.name
                if cname not in erased: continue
                body_ids = {y.id for y in (deliver.n('body') or deliver).walk()}
                if n.id not in body_ids: continue
                cs = [c for c in calls if c.id in body_ids and self._pos(n) < self._pos(c)]
                if not cs: continue
                later = [u for u in g.nodes() if u.k == 'ref' and u.decl == v['decl'] and u.id in body_ids and any(self._pos(u) > self._pos(c) for c in cs)]
                if not later: continue
                h, en = erased[cname]
                self.add('RE.5', False, f'{short}::notify: nothing taken out of `{cname}` before a callback is used after it', later[0].shortloc(),
                         f'`{v["name"]}` ({n.text()[:50]}) points into {cname} and is used again after the observer has been called ({later[0].shortloc()}): a callback that unsubscribes this observer runs '
                         f'{h.name.split("::")[-1]}(), which erases that entry (`{en.text()[:40]}`) — the round then reads and writes through a dangling {"iterator" if "iterator" in ty else "reference"}', key=f'RE.5|held|{cname}')

    @staticmethod
    def _pos(n):
        """(line, column) of a node: order of evaluation inside one iteration of a structured loop body"""
        try:
            parts = (n.d.get('loc') or n.loc or '').split(':')
            return (int(parts[-2]), int(parts[-1]))
        except Exception:
            return (getattr(n, 'line', 0) or 0, 0)

    def _ownership(self, S, short, c):
        """RE.2: trace the object the observer call is made on back to its owner"""
        g = common.owner_fn(self.facts, c)
        obj = c.n('object')
        if obj is None and c.ck == 'op' and c.ns('args'): obj = c.ns('args')[0]
        decls = {}
        if g is not None:
            for n in g.nodes():
                if n.k == 'decl':
                    for v in n.vars:
                        if v.get('init') and v['init'] in n.tu.ex: decls[v['decl']] = Node(n.tu, v['init'])
        x = obj; hops = 0; ty = ''
        while x is not None and hops < 12:
            hops += 1
            ty = (x.type or '').replace('const ', '')
            if ty.startswith('std::shared_ptr<'): break
            if x.k in ('unop', 'cast'): x = x.n('sub'); continue
            if x.k == 'call' and x.ck == 'op' and x.op in ('*', '->') and x.ns('args'): x = x.ns('args')[0]; continue
            if x.k == 'call' and x.callee_base() in ('get',) and x.n('object') is not None and (x.n('object').type or '').startswith('std::shared_ptr<'):
                x = x.n('object'); continue
            if x.k == 'ref' and x.decl in decls: x = decls[x.decl]; continue
            if x.k == 'ref' and x.dk == 'param' and g is not None:
                # a helper that is handed the observer: follow the argument at its (single) call site in the class
                pi = next((i for i, p_ in enumerate(g.d['params']) if p_['decl'] == x.decl), None)
                sites = [(h, n) for h in self.facts.fns if h.d.get('classfull') == g.d.get('classfull') for n in h.nodes() if n.k == 'call' and n.callee_in_root and g in self.facts.resolve(n)]
                if pi is not None and len(sites) == 1:
                    h, n = sites[0]
                    a = n.ns('args'); a = a[1:] if (n.ck == 'op' and 'mclass' in n.d) else a
                    if pi < len(a) and a[pi] is not None:
                        x = a[pi]; g = h
                        for n2 in g.nodes():
                            if n2.k == 'decl':
                                for v in n2.vars:
                                    if v.get('init') and v['init'] in n2.tu.ex: decls[v['decl']] = Node(n2.tu, v['init'])
                        continue
            if x.k == 'member' and not (x.type or '').startswith('std::shared_ptr<') and x.n('base') is not None and not x.field: x = x.n('base'); continue
            break
        ty = ((x.type if x is not None else '') or '').replace('const ', '')
        inst = f'{short}::notify: the round owns the observer it is calling'
        if ty.startswith('std::shared_ptr<'):
            where = self._origin_fn(S, g)(x) if (g is not None and x is not None and x.k == 'member') else None
            if where == 'member':
                self.add('RE.2', False, inst, c.shortloc(), f'the observer is called through `{x.text()[:40]}`, the shared_ptr stored in m_observers itself (no copy is held by the round): a callback that unsubscribes this observer '
                         f'destroys the list entry and with it the observer whose member function is running (use after free)', key='RE.2|owning-snapshot')
            else:
                self.add('RE.2', True, inst + f' ({ty[:60]})', c.shortloc(), key='RE.2|owning-snapshot')
        elif ty.rstrip().endswith('*') and 'Observer<' in ty:
            self.add('RE.2', False, inst, c.shortloc(), f'the observer is reached through `{ty}`: a callback that unsubscribes it (or itself) destroys the object while its member function runs / before `isValid()` is called on it (use after free)', key='RE.2|owning-snapshot')
        else:
            self.add('RE.2', None, inst, c.shortloc(), f'could not trace `{(obj.text()[:40] if obj is not None else "?")}` back to a smart pointer or a raw pointer (stops at `{ty[:50]}`)')

    def _order(self, E, first_call, vis):
        """how the order of m_observers reaches the delivery loop on this path: (snapshot fill, reversals, delivery direction)"""
        pre = E[:first_call]
        fills = []
        for e in pre:
            if e.kind == 'call' and e.obj is not None and e.obj not in self.fields and e.name.split('::')[-1] in (INSERT_FRONT | INSERT_BACK): fills.append('front' if e.name.split('::')[-1] in INSERT_FRONT else 'back')
        rangector = [e for e in pre if e.kind == 'construct' and len(e.args) >= 2 and all(isinstance(a, Sym) for a in e.args[:2]) and e.args[0].name.startswith(OBS + '.') and e.args[1].name.startswith(OBS + '.')]
        fill = None
        # the whole container copied: `Container snapshot(m_observers)` / `auto snapshot = m_observers`
        def is_obs(a):
            return (isinstance(a, Sym) and a.name.split('.')[-1] == OBS) or (isinstance(a, Ref) and a.loc[0] == 'f' and a.loc[1][-1] == OBS)
        def by_value(e):
            # the declared variable is an object of its own (not a reference / pointer to m_observers, as the range variable of a range-for is)
            if e.node is None or e.node.k != 'decl': return False
            return any(v['name'] == e.obj and not v.get('isref') and not v.get('isptr') for v in e.node.vars)
        copied = [e for e in pre if (e.kind == 'construct' and len(e.args) == 1 and is_obs(e.args[0]) and re.match(r'std::(__cxx11::)?(vector|list|forward_list|deque)\b', (e.name or '')))
                  or (e.kind == 'decl' and is_obs(e.val) and by_value(e))]
        if copied and not fills and not rangector:
            revs = sum(1 for e in pre if e.kind == 'call' and (e.name == 'std::reverse' or (e.name.split('::')[-1] == 'reverse' and e.obj is not None and e.obj not in self.fields)))
            direction = None
            if vis:
                i = vis[0][0]
                bs = {x.name.split('::')[-1] for x in E[max(0, i - 10):i] if x.kind == 'call' and x.obj == vis[0][1]}
                if bs & {'rbegin', 'rend', 'crbegin', 'crend'}: direction = 'backward'
                elif bs & {'begin', 'end', 'cbegin', 'cend'}: direction = 'forward'
            return ('copy', revs, direction)
        if not fills and not rangector: return None          # nothing was put into a snapshot on this path (the abstraction does not relate the two loops' trip counts)
        if fills and len(set(fills)) == 1 and not rangector: fill = fills[0]
        elif rangector and not fills:
            a0, a1 = rangector[0].args[0].name, rangector[0].args[1].name
            fill = 'copy' if (a0.endswith('.begin') and a1.endswith('.end')) else ('rcopy' if (a0.endswith('.rbegin') and a1.endswith('.rend')) else None)
        revs = sum(1 for e in pre if e.kind == 'call' and (e.name == 'std::reverse' or (e.name.split('::')[-1] == 'reverse' and e.obj is not None and e.obj not in self.fields)))
        direction = None
        if vis:
            i = vis[0][0]
            near = [x for x in E[max(0, i - 10):i] if x.kind == 'call' and x.obj == vis[0][1]]
            bs = {x.name.split('::')[-1] for x in near}
            if bs & {'rbegin', 'rend', 'crbegin', 'crend'}: direction = 'backward'
            elif bs & {'begin', 'end', 'cbegin', 'cend'}: direction = 'forward'
        return (fill, revs, direction)

    def _order_verdict(self, S, short, fns, od, deliver):
        fill, revs, direction = od
        sub = fns['subscribe']
        ins = [n for n in sub.nodes() if n.k == 'call' and n.n('object') is not None and n.n('object').is_field(OBS) and n.callee_base() in INSERT_FRONT | INSERT_BACK]
        if len(ins) != 1 or fill is None or direction is None:
            self.add('SUB.1', None, f'{short}: order parity', deliver.shortloc(), f'subscribe / snapshot / delivery form not recognised (snapshot fill {fill}, {revs} reverse(s), delivery {direction})'); return
        r1 = 1 if ins[0].callee_base() in INSERT_FRONT else 0
        r2 = {'front': 1, 'back': 0, 'copy': 0, 'rcopy': 1}[fill]
        r3 = 1 if direction == 'backward' else 0
        parity = (r1 + r2 + r3 + revs) % 2
        self.add('SUB.1', parity == 0, f'{short}: subscribe inserts at the {"front" if r1 else "back"}, the snapshot is filled by {fill}, {revs} reverse(s), delivery walks {direction}: observers are called in subscription order', deliver.shortloc(),
                 '' if parity == 0 else 'an odd number of reversals between subscription and delivery: observers are invoked in reverse subscription order', key='SUB.1|parity')

    # ---- subscribe / unsubscribe ------------------------------------------------------------------------------------------
    def subscribe_rules(self, S, short, fns):
        f = fns['subscribe']
        res = run_paths(self.facts, f, ObsDomain())
        def lins(v, depth=0):
            out = []
            if isinstance(v, Ref): return out
            if as_lin(v) is not None and isinstance(v, (Lin, int)): out.append(as_lin(v))
            elif hasattr(v, 'f') and isinstance(getattr(v, 'f'), dict) and depth < 3:
                for x in v.f.values(): out += lins(x, depth + 1)
            return out
        for P, E in res:
            if P.end in ('throw', 'noreturn'): continue
            ws = [e for e in E if e.kind == 'write' and e.obj == CNT and e.name == 'field']
            ins = [e for e in E if on_container(e, OBS, INSERTS)]
            act = [e for e in E if on_container(e, ACT, INSERTS)]
            cnt0 = Lin.sym(CNT)
            fresh = len(ws) == 1 and as_lin(ws[0].val) is not None and as_lin(ws[0].val) == cnt0 + Lin.const(1)
            inst = f'{short}::subscribe: the id is a counter that only ever grows (exactly one increment per subscription)'
            if not ws and self.no_counter:
                first_ins = E.index(ins[0]) if ins else len(E)
                reads = [e for e in E[:first_ins] if e.kind == 'call' and e.obj in (ACT, OBS) and e.name.split('::')[-1] in ('rbegin', 'begin', 'end', 'size', 'empty', 'back', 'front', 'crbegin')]
                if reads: self.add('SUB.6', False, inst, reads[0].site, 'the id is computed from the current contents of ' + reads[0].obj + ' and no counter is kept: when the newest subscription is removed its id is handed out again while a notify round may still hold it in its snapshot — the removed observer passes the validity test and is invoked, or the wrong subscription is removed', key='SUB.6|fresh-id')
                else: self.add('SUB.6', None, inst, f.shortloc(), 'no id counter field and the origin of the id was not followed')
                continue
            if fresh: self.add('SUB.6', True, inst, ws[0].site, key='SUB.6|fresh-id')
            elif len(ws) == 1 and as_lin(ws[0].val) is None: self.add('SUB.6', None, inst, ws[0].site, f'the counter becomes {ws[0].val}')
            else: self.add('SUB.6', False, inst, ws[0].site if ws else f.shortloc(),
                           'the subscription id is not taken from a monotonically increasing counter: an id can be handed out again while a notify round still holds it in its snapshot — the removed observer passes the validity test and is invoked, or the wrong subscription is removed', key='SUB.6|fresh-id')
            ok = len(ins) == 1 and len(act) == 1
            self.add('SUB.6', ok, f'{short}::subscribe: one entry in m_observers and one id in m_activeSubscriptions', ins[0].site if ins else f.shortloc(), '' if ok else f'{len(ins)} / {len(act)} insertions', key='SUB.6|both')
            if ok and fresh:
                ids = [x for a in ins[0].args for x in lins(a)]
                inst = f'{short}::subscribe: the stored id is the pre-increment counter value'
                if any(x == cnt0 for x in ids): self.add('SUB.6', True, inst, ins[0].site, key='SUB.6|id-value')
                elif ids: self.add('SUB.6', False, inst, ins[0].site, f'stored {ids[-1]}, expected the value of the counter before its increment', key='SUB.6|id-value')
                else: self.add('SUB.6', None, inst, ins[0].site, 'the id stored with the observer was not followed')

    def counter_writers(self, S, short, fns):
        """who may write the id counter: besides its initialisation, only increments — wherever they are (a reset or any other
        assignment hands out an id a stale handle or a running round may still hold)"""
        if getattr(self, 'no_counter', False): return
        sub = fns.get('subscribe')
        for g in self.facts.fns:
            if g.d.get('classfull') != S or g.d.get('ctor') or g.d.get('lambda'): continue
            for n in g.nodes():
                tgt = None; grows = None
                if n.k == 'binop' and n.op in ('=', '+=', '-=', '*=', '/=', '|=', '&=', '%=') and n.n('lhs') is not None and n.n('lhs').k == 'member' and n.n('lhs').name == CNT:
                    tgt = n
                    if n.op == '+=':
                        c = n.n('rhs'); cv = c.d.get('const', c.d.get('v')) if c is not None else None
                        grows = True if isinstance(cv, int) and cv > 0 else None
                    elif n.op == '=':
                        r = n.n('rhs')
                        while r is not None and r.k in ('cast', 'paren') and r.n('sub') is not None: r = r.n('sub')
                        if r is not None and r.k == 'binop' and r.op == '+' and any(x is not None and x.k == 'member' and x.name == CNT for x in (r.n('lhs'), r.n('rhs'))):
                            o = r.n('rhs') if (r.n('lhs') is not None and r.n('lhs').k == 'member' and r.n('lhs').name == CNT) else r.n('lhs')
                            cv = o.d.get('const', o.d.get('v')) if o is not None else None
                            grows = True if isinstance(cv, int) and cv > 0 else None
                        elif r is not None and (r.d.get('const') is not None or r.k in ('int', 'bool')): grows = False
                        else: grows = None
                    else: grows = False
                elif n.k == 'unop' and n.op in ('++', '--') and n.n('sub') is not None and n.n('sub').k == 'member' and n.n('sub').name == CNT:
                    tgt = n; grows = n.op == '++'
                if tgt is None: continue
                if sub is not None and g.name == sub.name and grows is True: continue          # judged by SUB.6|fresh-id
                inst = f'{short}: the id counter only grows ({g.name.split("::")[-1]}: `{tgt.text()[:40]}`)'
                if grows is True: self.add('SUB.6', True, inst, tgt.shortloc(), key='SUB.6|counter-writers')
                elif grows is False:
                    self.add('SUB.6', False, inst, tgt.shortloc(), f'{g.name.split("::")[-1]}() sets the id counter back (`{tgt.text()[:40]}`): the next subscription receives an id that was handed out before — a stale Subscription handle becomes valid again and '
                             'unsubscribes the new observer, and a notify round that still holds the old id in its snapshot treats the removed observer as active', key='SUB.6|counter-writers')
                else: self.add('SUB.6', None, inst, tgt.shortloc(), 'the value written to the id counter is not followed')

    def other_members(self, S, short, fns):
        """the pairing of SUB.6 for every other public member that changes the subscription tables (an `unsubscribeAll`, a
        `subscribeOnce`, a `clear`): what leaves / enters m_observers leaves / enters m_activeSubscriptions on the same path"""
        role = {f.name for f in fns.values() if f is not None}
        for g in self.facts.fns:
            if g.d.get('classfull') != S or g.d.get('ctor') or g.d.get('dtor') or g.d.get('lambda') or g.name in role: continue
            if g.d.get('access') != 'public' or g.d.get('implicit') or not g.d.get('has_body', True): continue
            nm = g.name.split('::')[-1]
            if nm.startswith('operator='): continue
            try: res = run_paths(self.facts, g, ObsDomain())
            except Exception: continue
            for P, E in res:
                if P.end in ('throw', 'noreturn'): continue
                ro = [e for e in E if on_container(e, OBS, REMOVALS)]; ra = [e for e in E if on_container(e, ACT, REMOVALS)]
                io = [e for e in E if on_container(e, OBS, INSERTS)]; ia = [e for e in E if on_container(e, ACT, INSERTS)]
                if not (ro or ra or io or ia): continue
                inst = f'{short}::{nm}: what it takes out of / puts into m_observers it takes out of / puts into m_activeSubscriptions'
                if ro and not ra:
                    self.add('SUB.6', False, inst, ro[0].site, f'{nm}() removes entries from m_observers (`{ro[0].name.split("::")[-1]}`) and leaves their ids in m_activeSubscriptions: a notify round that is under way still '
                             'holds these observers in its snapshot and their ids pass the validity test, so observers that were unsubscribed are invoked; their stale handles keep reporting valid', key=f'SUB.6|other-members|{nm}')
                elif io and not ia:
                    self.add('SUB.6', False, inst, io[0].site, f'{nm}() adds an entry to m_observers without adding its id to m_activeSubscriptions: notify() skips every entry whose id is not active, the observer is never invoked', key=f'SUB.6|other-members|{nm}')
                elif (ro and ra) or (io and ia):
                    self.add('SUB.6', True, inst, (ro or io)[0].site, key=f'SUB.6|other-members|{nm}')

    def unsubscribe_rules(self, S, short, fns):
        f = fns['unsubscribe']
        hfields = None
        for same_subject, id_active in itertools.product([True, False], [True, False]):
            dom = ObsDomain(dict(id_active=id_active, same_subject=same_subject))
            dom.erase_deactivates = True          # one handle, one id: after this path has erased it, the id is not active any more
            res = run_paths(self.facts, f, dom)
            row = f'(handle.subject==this: {same_subject}, id active: {id_active})'
            valid = same_subject and id_active
            any_o = any(on_container(e, OBS, REMOVALS) for P, E in res for e in E); any_a = any(on_container(e, ACT, REMOVALS) for P, E in res for e in E)
            for P, E in res:
                rem_o = [e for e in E if on_container(e, OBS, REMOVALS)]; rem_a = [e for e in E if on_container(e, ACT, REMOVALS)]
                removed = rem_o + rem_a
                threw = P.end == 'throw' or any(e.kind == 'throw' for e in E)
                if valid:
                    pd = f.d['params'][0]['decl']
                    def on_handle(loc): return pd in loc or (loc[0] == 'f' and pd in loc[1])
                    resets = {e.obj for e in E if e.kind == 'write' and e.obj in ('m_id', 'm_subject', 'm_observer') and e.args and on_handle(e.args[0])}
                    # a hand-written erase loop removes on the paths where the entry is found: required is that the row removes at all
                    ok = any_o and any_a and not threw and (bool(rem_a) or not any(on_container(e, ACT, REMOVALS) for e in E) is False)
                    ok = any_o and any_a and not threw
                    self.add('SUB.5', ok, f'{short}::unsubscribe row {row}: removes the observer and its id', f.shortloc(), '' if ok else ('throws for a valid handle' if threw else 'does not remove from both containers'), key='SUB.5|remove')
                    if not threw:
                        self.add('SUB.5', resets == {'m_id', 'm_subject', 'm_observer'}, f'{short}::unsubscribe row {row}: every field of the handle is reset', f.shortloc(),
                                 '' if resets == {'m_id', 'm_subject', 'm_observer'} else f'only {sorted(resets)} reset: the stale handle still reports valid / dangles', key='SUB.5|reset')
                else:
                    ok = threw and not removed
                    self.add('SUB.5', ok, f'{short}::unsubscribe row {row}: a stale or foreign handle is rejected with an exception, nothing is removed', f.shortloc(),
                             '' if ok else ('state is modified for an invalid handle' if removed else 'an invalid handle is accepted silently'), key='SUB.5|reject')
        thr = [n for n in f.nodes() if n.k == 'throw']
        okt = bool(thr) and all('invalid_argument' in (n.n('sub').type or n.n('sub').d.get('class') or '') for n in thr if n.n('sub') is not None)
        self.add('SUB.5', okt, f'{short}::unsubscribe: the exception is std::invalid_argument', thr[0].shortloc() if thr else f.shortloc(), '' if okt else 'different exception type', key='SUB.5|type')
        hs = fns['hasSubscriptions']
        ok = True; unk = False
        for oe, ov in itertools.product((True, False), (True, False)):
            dom = ObsDomain(dict(observers_empty=oe, obs_valid=ov))
            vals = {P.ret if isinstance(P.ret, bool) else repr(P.ret) for P, E in run_paths(self.facts, hs, dom)}
            if any(not isinstance(v, bool) for v in vals): unk = True
            elif vals != {not oe}: ok = False
        inst = f'{short}::hasSubscriptions() <=> the observer list is non-empty'
        if unk and ok: self.add('SH.5', None, inst, hs.shortloc(), 'the emptiness test of m_observers is in a form the evaluator does not follow')
        else: self.add('SH.5', ok, inst, hs.shortloc(),
                       '' if ok else 'hasSubscriptions() is not the emptiness of m_observers: a registered subscription (e.g. with a currently invalid observer) is reported as absent, shrink removes its key and the handle dangles', key='SH.5|nonempty')

    # ---- Observer::operator() -------------------------------------------------------------------------------------------------
    def observer_rules(self):
        ops = [f for f in self.facts.fns if f.gname == 'tulz::Observer::operator()']
        for f in ops:
            short = f.d['classfull'].replace('std::basic_string<char>', 'std::string')
            for muted, valid in itertools.product([True, False], [True, False]):
                dom = ObsDomain(dict(muted=muted, obs_valid=valid))
                res = run_paths(self.facts, f, dom)
                for P, E in res:
                    inv = [e for e in E if e.kind == 'opaque' and e.obj == 'm_func']
                    want = (not muted) and valid
                    ok = (len(inv) == 1) == want and len(inv) <= 1
                    self.add('SUB.3', ok, f'{short}::operator() row (muted={muted}, valid={valid}): the stored function is called iff not muted and valid', inv[0].site if inv else f.shortloc(),
                             '' if ok else (f'the function is invoked although the observer is {"muted" if muted else "invalid"}' if inv else 'a valid, unmuted observer is not invoked'), key='SUB.3|guard')
            self.n_ops = len(ops)
        self._mute_writers()

    def _mute_writers(self):
        """SUB.3: the mute state belongs to the observer's user: the Subject never clears (or overwrites) it — an observer that is muted when it is
        handed over, or muted later through its handle, stays muted until its user unmutes it"""
        im = [f for f in self.facts.fns if f.gname == 'tulz::Observer::isMuted']
        if not im: return
        flag = None
        for n in im[0].nodes():
            if n.k == 'return':
                x = n.n('sub')
                while x is not None and x.k in ('cast', 'paren') and x.n('sub') is not None: x = x.n('sub')
                if x is not None and x.k == 'member': flag = x.name
        if flag is None: return
        clears = {}
        for g in self.facts.fns:
            if strip_targs(g.d.get('classfull') or '') != 'tulz::Observer' or g.d.get('lambda') or g.d.get('ctor'): continue
            for n in g.nodes():
                if n.k == 'binop' and n.op == '=' and n.n('lhs') is not None and n.n('lhs').k == 'member' and n.n('lhs').name == flag:
                    r = n.n('rhs')
                    while r is not None and r.k in ('cast', 'paren') and r.n('sub') is not None: r = r.n('sub')
                    val = r.d.get('v', r.d.get('const')) if r is not None and r.k in ('bool', 'int') else None
                    if val in (True, 1): continue
                    clears[g.name] = (g, n, 'clears' if val in (False, 0) else 'overwrites')
        n_sites = 0
        for S in self.subs:
            for h in self.facts.fns:
                if h.d.get('classfull') != S and not (h.d.get('lambda') and False): continue
                for n in h.nodes():
                    if n.k != 'call' or not n.callee_in_root: continue
                    for t in self.facts.resolve(n):
                        if t.name in clears:
                            g, wn, how = clears[t.name]
                            n_sites += 1
                            self.add('SUB.3', False, f'{S}: the Subject leaves the mute state of its observers alone', n.shortloc(),
                                     f'{h.name.split("::")[-1]}() calls {t.name.split("::")[-1]}(), which {how} the observer\'s mute flag (`{wn.text()[:40]}`): an observer that its user has muted '
                                     f'(before handing it over, or through a handle) is delivered to again although nobody unmuted it', key=f'SUB.3|mute-writer|{h.gname}')
        if not n_sites: self.add('SUB.3', True, 'no member function of Subject clears or overwrites an observer\'s mute flag', im[0].shortloc(), key='SUB.3|mute-writer')

    # ---- Subscription ------------------------------------------------------------------------------------------------------------
    def subscription_rules(self):
        subs = sorted(c for c in self.facts.classes if strip_targs(c) == 'tulz::Subscription' and c != 'tulz::Subscription')
        for S in subs:
            c = self.facts.cls(S); short = S.replace('std::basic_string<char>', 'std::string')
            ms = c['methods']
            cc = [m for m in ms if m.get('ctor') and m.get('copy')]; ca = [m for m in ms if m.get('copyassign')]
            ok = bool(cc) and all(m['deleted'] for m in cc) and bool(ca) and all(m['deleted'] for m in ca)
            self.add('SUB.7', ok, f'{short} is move-only (copy constructor and copy assignment deleted)', c['loc'], '' if ok else 'a Subscription can be copied: two handles unsubscribe the same id', key='SUB.7|moveonly')
            mv = [f for f in self.facts.fns if f.d.get('classfull') == S and (f.d.get('moveassign') or (f.d.get('ctor') and f.d.get('move')))]
            allf = sorted(x['name'] for x in c['fields'])
            for f in mv:
                # however it is written: afterwards *this holds the source's former fields, the source this's former ones or the invalid handle
                pn = f.d['params'][0]['name']; pd = f.d['params'][0]['decl']
                verdict = True; why = ''
                if f.d.get('ctor'):
                    deleg = [n for n in f.nodes() if n.k == 'call' and n.ck == 'op' and n.op == '=' and n.callee_in_root and any(t.d.get('moveassign') for t in self.facts.resolve(n))]
                    if deleg:
                        self.add('SUB.7', True, f'{short}: the move constructor delegates to move assignment', f.shortloc(), key='SUB.7|swap'); continue
                for P, E in run_paths(self.facts, f, EvDomain()):
                    if P.end in ('throw', 'noreturn'): continue
                    wr = {}
                    for e in E:
                        if e.kind == 'write' and e.obj in allf and e.args:
                            loc = e.args[0]
                            side = 'this' if (loc[0] == 'f' and loc[1][:1] == ('this',)) else ('src' if (pd in loc or (loc[0] == 'f' and pd in loc[1])) else None)
                            if side: wr[(side, e.obj)] = e.val
                    if not wr: continue          # self-assignment path
                    for fld in allf:
                        v = wr.get(('this', fld))
                        from_src = v is not None and fld in repr(v) and ('this' not in repr(v))
                        if v is None: verdict = False; why = f'{fld} of *this is not taken from the source'
                        elif not from_src and not isinstance(v, (Sym, Unknown)): verdict = False; why = f'{fld} of *this becomes {v}, not the source\'s {fld}'
                        elif not from_src and verdict: verdict = None; why = f'{fld} of *this becomes {v}'
                        if ('src', fld) not in wr and verdict: verdict = False; why = f'{fld} of the source is left untouched: two handles unsubscribe the same id'
                inst = f'{short}: a move transfers every field {allf} and leaves the source without them'
                self.add('SUB.7', verdict, inst, f.shortloc(), why, key='SUB.7|swap')
            iv = [f for f in self.facts.fns if f.d.get('classfull') == S and f.qname.split('::')[-1] == 'isValid']
            for f in iv:
                nullt = [n for n in f.nodes() if n.k == 'binop' and n.op in ('!=', '==') and ((n.n('lhs').is_field('m_subject') and n.n('rhs').k == 'null') or (n.n('rhs').is_field('m_subject') and n.n('lhs').k == 'null'))]
                dl = [n for n in f.nodes() if n.k == 'call' and strip_targs(n.calleeq or '') == 'tulz::Subject::isSubscriptionValid']
                self.add('SUB.7', bool(nullt) and bool(dl), f'{short}::isValid() = subject non-null and the subject confirms the id', f.shortloc(), '' if nullt and dl else 'validity is not derived from the subject', key='SUB.7|isvalid')


RULE_TEXT = {
    'SUB.1': 'order parity: the number of reversals between subscribe (insertion end), snapshot (insertion end, reverse) and delivery (forward) is even',
    'SUB.2': 'per round: exactly one Observer::operator() per snapshot entry whose id is still active, none otherwise; the id is re-validated between consecutive callbacks',
    'SUB.3': 'Observer::operator() calls the stored function iff !muted && valid (4-row table)',
    'SUB.4': 'inside the delivery loop the arguments are passed as lvalues / to references (no xvalue into a by-value parameter): every observer receives the values that were passed',
    'SUB.5': 'unsubscribe(handle): proceeds iff handle.subject == this and the id is active; otherwise throws std::invalid_argument and changes nothing; afterwards all handle fields are reset',
    'SUB.6': 'bookkeeping pairs: subscribe adds the same fresh id (pre-increment value of a counter that only grows) to both containers; removal takes it out of both; an invalidated observer is removed with its snapshot id',
    'SUB.7': 'Subscription is move-only, move = swap of all fields, isValid = non-null subject and the subject\'s own test',
    'SH.5': 'hasSubscriptions() is exactly !m_observers.empty()',
    'RE.1': 'the delivery loop iterates a snapshot that is local to this notify() call (not m_observers, not a member buffer shared by nested rounds)',
    'RE.2': 'the snapshot entry owns the observer (std::shared_ptr copy): the object whose member function is running, and on which isValid() is called afterwards, cannot be destroyed by a callback',
    'RE.5': 'entries of m_observers that the delivery loop reads through an address / iterator taken before the callbacks ran are not displaced by a callback that removes or adds another observer (node-based container, or the snapshot holds copies)',
    'RE.4': 'the snapshot is complete before the first callback: observers added during a round are first invoked in the next round',
}

_cache = {}


def analyse(facts, rep):
    key = id(facts)
    if key not in _cache:
        a = SubjectAnalysis(facts, rep); a.run()
        _cache.clear(); _cache[key] = a
    return _cache[key]


def _split_targs(s):
    """split a template argument list at top-level commas"""
    out = []; depth = 0; cur = ''
    for ch in s:
        if ch in '<([': depth += 1
        elif ch in '>)]': depth -= 1
        if ch == ',' and depth == 0: out.append(cur); cur = ''
        else: cur += ch
    if cur.strip(): out.append(cur)
    return out


def emit(facts, rep, rules, floors, text=RULE_TEXT, res=None):
    a = analyse(facts, rep) if res is None else None
    results = a.res if res is None else res
    for r in rules: rep.rule(r, text[r])
    for r in rules:
        seen = set()
        for ok, inst, site, why, key in results.get(r, []):
            if (ok, inst, why) in seen: continue
            seen.add((ok, inst, why))
            if ok is True: rep.ok(r, inst, site)
            elif ok is False: rep.violation(r, inst, site, why, key=(key or f'{r}|{site}') , fn='')
            else: rep.inconclusive(r, inst, site, why)
        if all(ok is True for ok, _, _ in seen): rep.floor(f'{r} instances', len(seen), floors.get(r, 1))
    if a is not None:
        full = len(a.subs) - len(getattr(a, 'partial', []))
        rep.count('subject_instantiations', full); rep.floor('fully instantiated Subject<...> classes', full, 7)
