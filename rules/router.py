"""SubjectRouter / ConcurrentSubjectRouter: RT.1-5 (C06), SH.1-5 (C13), CR.1-4 (C11)."""
import itertools, re
from facts import Node, strip_targs, Inconclusive
from symex import Lin, Unknown, Ref, Closure, Sym, Exec, as_lin
from evdom import EvDomain, Ev, run_paths, loop_conds, loop_visits
import common

TUS = ['witness/w_router.cpp', 'src/observer/routing/SubjectRouter.cpp', 'src/observer/routing/RoutingLevelView.cpp',
       'src/observer/routing/RoutingKey.cpp', 'src/observer/routing/RoutingKeyBuilder.cpp']
NODE = 'tulz::SubjectRouter::Node'
RECURSIVE = {f'{NODE}::notify', f'{NODE}::shrink', f'{NODE}::exists', f'{NODE}::depth', f'{NODE}::lookupNode', f'{NODE}::subscribe', f'{NODE}::isEmpty'}
VIEW = 'tulz::RoutingLevelView'


class RouterDomain(EvDomain):
    loop_unroll = 1
    max_depth = 4

    def __init__(self, oracle=None, keep=()):
        super().__init__(oracle=oracle)
        self.keep = set(keep)         # generic names that are inlined although in RECURSIVE

    def opaque(self, n):
        q = strip_targs(n.d.get('calleeq') or '')
        if q in RECURSIVE and q not in self.keep: return True
        if (n.d.get('mclass') or '') == VIEW: return True
        if q.startswith('tulz::Subject::'): return True
        return super().opaque(n)

    def call_result(self, ex, n, q, base, on, ov, vals, st, fr):
        mc = n.d.get('mclass') or ''
        if mc == VIEW:
            if base == 'matches': return self._b('matches', n)
            if base == 'isLeaf': return self._b('leaf', n)
            if base == 'isRegex': return self._b('regex', n)
            if base == 'up': return Sym('view.up')
            if base == 'asString': return Sym('view.name')
            return Sym('view.' + base)
        if q == 'tulz::Subject::hasSubscriptions': return self._b('has_subscriptions', n)
        if q == f'{NODE}::isEmpty': return self._b('child_empty', n)
        if q == f'{NODE}::exists': return self._b('child_exists', n)
        if q == f'{NODE}::depth': return Lin.sym(f'depth@{n.id}')
        if q == f'{NODE}::notify': return Lin.sym(f'count@{n.id}')
        if base in ('operator==', 'operator!=') and n.ns('args'):
            a = [x for x in n.ns('args') if x is not None]
            txt = ' '.join(x.text() for x in a)
            if any(x.k == 'null' for x in a) and any((x.is_field('m_subject') or 'm_subject' in x.text()) for x in a):
                v = self.atom('has_subject')
                if v is not None: return (v if base == 'operator!=' else not v)
            ops_ = [ex.read(x.loc, st, n) if isinstance(x, Ref) else x for x in ([ov] + list(vals)) if x is not None]
            if any(isinstance(x, Sym) and x.name == 'children.find' for x in ops_) and any(isinstance(x, Sym) and x.name.endswith('.end') for x in ops_):
                v = self.atom('found')
                if v is not None: return (v if base == 'operator!=' else not v)
        if q == 'std::max' and len(vals) == 2: return Sym('max(' + ','.join(sorted(repr(v) for v in vals)) + ')')
        if q == 'std::accumulate': return Lin.sym(f'accum@{n.id}')
        if on == 'm_children' and base == 'empty': return self._b('children_empty', n)
        if on == 'm_children' and base == 'find': return Sym('children.find')
        return super().call_result(ex, n, q, base, on, ov, vals, st, fr)

    def _b(self, key, n):
        v = self.atom(key)
        return v if v is not None else Unknown((key, n.id))

    def container_empty(self, X):
        return self.atom('children_empty') if X == 'm_children' else None

    def compare(self, ex, op, l, r, n, st, fr):
        if op in ('==', '!=') and {type(l), type(r)} == {Sym} and {l.name == 'children.find', r.name == 'children.find'} == {True, False} and (l.name.endswith('.end') or r.name.endswith('.end')):
            v = self.atom('found')
            if v is not None: return v if op == '!=' else (not v)
        # m_subject == nullptr spelled with the built-in operator on a raw pointer / unique_ptr::get()
        if op in ('==', '!=') and (repr(l) == '0' or repr(r) == '0'):
            other = n.n('lhs') if repr(r) == '0' else n.n('rhs')
            if other is not None and any(x.is_field('m_subject') for x in other.walk()):
                v = self.atom('has_subject')
                if v is not None: return (v if op == '!=' else not v)
        return None


def _strip_ptr(t):
    t = (t or '').rstrip()
    return t[:-1].rstrip() if t.endswith('*') else t


def node_fns(facts, base):
    return [f for f in facts.fns if f.gname == f'{NODE}::{base}' and not f.d.get('lambda')]


def _self_calls(f):
    return any(x.k == 'call' and strip_targs(x.calleeq or '') == f.gname for x in f.nodes())


def children_loop_iterations(f, E):
    """iterations of loops over m_children entered on this path (range-for, iterator loops, while loops: by the container the loop test is about)"""
    # loops of the function itself and of every function of the same translation unit it may inline (a traversal helper such as
    # visitChildren(level, visitor) holds the loop over m_children, the visitor closure holds the recursive call)
    def carries(loop, g):
        # the loop body descends: it calls f itself, or (in a helper) it calls a callable it was handed
        for x in (loop.n('body').walk() if loop.n('body') is not None else []):
            if x.k != 'call': continue
            if strip_targs(x.calleeq or '') == f.gname: return True
            if g is not f and (x.n('calleeexpr') is not None or (x.ck == 'op' and x.op == '()')): return True
        return False
    # (a loop over the children that does not descend - e.g. one that recomputes a cached depth from them - is not the traversal)
    conds = {n.n('c').id for n in f.nodes() if n.k in ('rangefor', 'for', 'while', 'do') and n.n('c') is not None and (carries(n, f) or not _self_calls(f))}
    conds |= {n.n('c').id for g in f.tu.functions if g is not f for n in g.nodes() if n.k in ('rangefor', 'for', 'while', 'do') and n.n('c') is not None and carries(n, g)}
    vis = [(i, c) for i, c in loop_visits(E, conds) if c == 'm_children']
    # a standard algorithm that applies a callable to every child (std::for_each, the range form included) is one such loop: the
    # evaluator runs the callable once, on a representative child
    fe = [e for e in E if e.kind == 'foreach' and e.obj == 'm_children']
    return len(vis) + len(fe), conds


KNOWN_NODE_FIELDS = ('m_name', 'm_subject', 'm_children')


def _extra_field_fork(facts, P):
    """the condition of a branch this path took without the evaluator deciding it, if it tests a member of Node outside m_name /
    m_subject / m_children (else None)"""
    for c, v, h in P.decisions:
        if h != 'fork' or c is None: continue
        for x in c.walk():
            if x.k == 'member' and x.field and (x.d.get('class') or '') == NODE and x.name not in KNOWN_NODE_FIELDS: return c
    return None


def _no_observers_branch(P):
    """did this path branch on `…hasSubscriptions()` being false (directly or negated)?"""
    for cond, val, how in P.decisions:
        c = cond; want = False
        while c is not None and c.k in ('cast', 'paren') and c.n('sub') is not None: c = c.n('sub')
        if c is not None and c.k == 'unop' and c.op == '!': c = c.n('sub'); want = True
        while c is not None and c.k in ('cast', 'paren') and c.n('sub') is not None: c = c.n('sub')
        if c is not None and c.k == 'call' and (c.calleeq or '').split('::')[-1] == 'hasSubscriptions' and val is want: return True
    return False


def self_recursive(f):
    """f calls itself, directly or from a closure written inside it (a visitor handed to a traversal helper)"""
    if any(n.k == 'call' and strip_targs(n.calleeq or '') == f.gname for n in f.nodes()): return True
    # ... or through a member helper of the same class that it hands the descent to (notify -> notifyChildren -> notify)
    cls_ = f.d.get('class')
    helpers = {strip_targs(n.calleeq or '') for n in f.nodes() if n.k == 'call' and n.callee_in_root and strip_targs(n.calleeq or '').startswith((cls_ or '?') + '::')}
    for g in f.tu.functions:
        if g.gname in helpers and g is not f and any(n.k == 'call' and strip_targs(n.calleeq or '') == f.gname for n in g.nodes()): return True
    for lam in [n for n in f.nodes() if n.k == 'lambda']:
        loc = lam.d.get('fnloc')
        lf = next((g for g in f.tu.functions if g.loc == loc and g.d.get('lambda')), None)
        if lf is not None and any(n.k == 'call' and strip_targs(n.calleeq or '') == f.gname for n in lf.nodes()): return True
    return False


def _about_key_only(c):
    """the condition reads the level view / the key / locals only: nothing of the node (its subject, children, name, other members) and
    no member function of it.  The tables enumerate node states, so a test of node state is a test both of whose outcomes occur; what holds
    between the indices of a level view is an invariant of the key classes that the tables do not know"""
    if c is None: return False
    if not any(x.k == 'ref' and x.dk == 'param' for x in c.walk()): return False          # (a loop condition over iterators, a local flag: judged as before)
    for x in c.walk():
        if x.k == 'this': return False
        if x.k == 'member' and x.field and (x.d.get('class') or '').startswith(NODE): return False
        if x.k == 'call' and x.callee_in_root and strip_targs(x.calleeq or '').startswith(NODE + '::'): return False
    return True


def _children_empty_decided(P):
    """the path tested m_children.empty() and found it true"""
    for c_, v_, h_ in P.decisions:
        x_ = c_
        while x_ is not None and x_.k in ('cast', 'paren') and x_.n('sub') is not None: x_ = x_.n('sub')
        if x_ is not None and x_.k == 'call' and x_.callee_base() == 'empty' and x_.n('object') is not None and x_.n('object').is_field('m_children', NODE) and v_ is True: return True
    return False


class RouterAnalysis:
    def __init__(self, facts, rep):
        self.facts = facts; self.rep = rep; self.res = {}

    def add(self, rule, ok, inst, site, why='', key=None):
        if ok is not None: ok = bool(ok)
        self.res.setdefault(rule, []).append((ok, inst, site, why, key))

    # ---- RT.1 / RT.2: instantiation consistency ---------------------------------------------------------------------------
    def instantiations(self):
        fns = node_fns(self.facts, 'notify')
        self.n_notify = len(fns)
        for f in fns:
            pack = f.d.get('targs', ['<?>'])[0]
            short = f.name.replace('std::basic_string<char>', 'std::string')[:90]
            want_subject = 'tulz::Subject' + pack
            # notify<A…> together with the member helpers it hands part of its work to (a leaf helper, a fan-out helper)
            scope = [f]
            for _ in range(2):
                for g in list(scope):
                    for n in g.nodes():
                        if n.k == 'call' and n.callee_in_root and strip_targs(n.calleeq or '').startswith(NODE + '::') and strip_targs(n.calleeq or '') != f'{NODE}::notify':
                            for t in self.facts.resolve(n):
                                if t not in scope and t.d.get('class') == NODE: scope.append(t)
            for n in [x for g in scope for x in g.nodes()]:
                if n.k == 'call' and strip_targs(n.calleeq or '') == f'{NODE}::notify':
                    same = n.callee == f.name
                    self.add('RT.1', same, f'{short}: recursive call keeps the argument signature', n.shortloc(),
                             '' if same else f'inside {f.name} the recursion resolves to {n.callee}: the pack is re-deduced from lvalues, the leaf reinterprets Subject{pack} as Subject{(n.targs or ["?"])[0]} (observers receive garbage / the wrong type)',
                             key='RT.1|recursion')
                    # the same arguments go to every child: they may be forwarded only into reference parameters
                    params = n.params or []
                    for i, a in enumerate(n.ns('args')):
                        if a is None or i == 0: continue
                        pt = params[i] if i < len(params) else ''
                        byval_class = bool(pt) and not pt.endswith('&') and not pt.endswith('*') and pt not in ('int', 'unsigned int', 'long', 'unsigned long', 'bool', 'float', 'double', 'char', 'short', 'unsigned char', 'long long', 'unsigned long long', 'unsigned short')
                        if not byval_class: continue
                        consumed = a.cat == 'x' or (a.k == 'construct' and a.move) or (a.k == 'call' and (a.calleeq or '') in ('std::move', 'std::forward'))
                        if a.k == 'construct' and a.ns('args') and a.ns('args')[0] is not None: consumed = consumed or a.ns('args')[0].cat == 'x'
                        self.add('RT.2', not consumed, f'{short}: argument {i} of the recursive call is not consumed by the first child', a.shortloc(),
                                 '' if not consumed else f'Node::notify takes `{pt[:40]}` by value and the recursive call hands it `{a.text()[:50]}`, an rvalue: the parameter of the first child visited under a regex level is move-constructed from the caller\'s value, every later child (and key) receives a moved-from value',
                                 key='RT.2|recursion-consume')
                if n.k == 'cast' and n.castkind == 'CXXReinterpretCastExpr':
                    to = _strip_ptr(n.to)
                    ok = to == want_subject
                    self.add('RT.1', ok, f'{short}: the erased subject is cast back to Subject{pack}', n.shortloc(), '' if ok else f'reinterpret_cast to {n.to} inside notify{pack}', key='RT.1|cast')
                if n.k == 'call' and strip_targs(n.calleeq or '') == 'tulz::Subject::notify':
                    ok = (n.mclassfull or '') == want_subject
                    self.add('RT.1', ok, f'{short}: the leaf notifies a Subject{pack}', n.shortloc(), '' if ok else f'leaf calls {n.mclassfull}::notify', key='RT.1|leaf')
                    params = n.params or []
                    for i, a in enumerate(n.ns('args')):
                        if a is None: continue
                        pt = params[i] if i < len(params) else ''
                        byval_class = not pt.endswith('&') and not pt.endswith('*') and pt not in ('int', 'unsigned int', 'long', 'unsigned long', 'bool', 'float', 'double', 'char', 'short')
                        consumed = a.cat == 'x' or (a.k == 'construct' and a.move) or (a.k == 'call' and (a.calleeq or '') in ('std::move',))
                        if a.k == 'construct' and a.ns('args') and a.ns('args')[0] is not None:
                            inner = a.ns('args')[0]
                            consumed = consumed or inner.cat == 'x'
                        if byval_class:
                            self.add('RT.2', not consumed, f'{short}: argument {i} is copied, not moved, into the leaf subject', a.shortloc(),
                                     '' if not consumed else f'`{a.text()[:50]}` moves the caller\'s value into Subject::notify: with a wildcard level the leaf is reached once per matching key, every key after the first receives a moved-from value',
                                     key='RT.2|leaf-consume')
        for outer, inner in (('tulz::SubjectRouter::notify', f'{NODE}::notify'), ('tulz::ConcurrentSubjectRouter::notify', 'tulz::SubjectRouter::notify')):
            for f in [g for g in self.facts.fns if g.gname == outer]:
                pack = f.d.get('targs', ['<?>'])[0]
                try: end_ = int((f.d.get('endloc') or '').split(':')[1])
                except Exception: end_ = f.line
                scope = [f] + [g for g in self.facts.fns if g.d.get('lambda') and g.file == f.file and f.line <= g.line <= end_]
                calls = [n for g in scope for n in g.nodes() if n.k == 'call' and strip_targs(n.calleeq or '') == inner]
                if not calls and outer.startswith('tulz::ConcurrentSubjectRouter'):
                    self.add('RT.1', None, f'{f.name[:80]} -> {inner.split("::")[-2]}::notify{pack}', f.shortloc(), 'the forwarding call was not found in notify() or the closures written inside it'); continue
                in_f = [n for n in f.nodes() if n.k == 'call' and strip_targs(n.calleeq or '') == inner]
                same_pack = [c for c in calls if (c.targs or ['?'])[0] == pack]
                ok = (len(in_f) == 1 and (in_f[0].targs or ['?'])[0] == pack) if in_f else len(same_pack) >= 1
                self.add('RT.1', ok, f'{f.name[:80]} -> {inner.split("::")[-2]}::notify{pack}', f.shortloc(),
                         '' if ok else f'forwards to {[c.callee for c in calls]}', key=f'RT.1|forward|{outer}')
        # every public SubjectRouter operation enters the tree at the root node: a node reached any other way (a cache of node
        # pointers, an index kept beside the tree) is resolved by something the traversal rules do not describe
        for f in [g for g in self.facts.fns if g.d.get('class') == 'tulz::SubjectRouter' and not g.d.get('lambda') and g.d.get('access') == 'public' and g.gname.split('::')[-1] in ('notify', 'subscribe', 'shrink', 'exists', 'depth')]:
            base_ = f.gname.split('::')[-1]
            calls_ = [n for n in f.nodes() if n.k == 'call' and strip_targs(n.calleeq or '') == f'{NODE}::{base_}']
            off_root = [n for n in calls_ if not (n.n('object') is not None and n.n('object').is_field('m_rootNode'))]
            if off_root:
                self.add('RT.1', None, f'{f.name[:80]}: the operation enters the tree at the root node', off_root[0].shortloc(),
                         f'Node::{base_} is called on `{(off_root[0].n("object").text() if off_root[0].n("object") is not None else "?")[:40]}`, not on m_rootNode: how that node was found (a cache / index beside the tree) is not followed')
            elif calls_: self.add('RT.1', True, f'{f.name[:80]}: Node::{base_} is entered at m_rootNode', calls_[0].shortloc())
        # subscribe: factory creates Subject<A...>, casts back to Subject<A...>
        for f in node_fns(self.facts, 'subscribe'):
            pack = f.d.get('targs', ['<?>'])[0]
            want = 'tulz::Subject' + pack
            for n in f.nodes():
                if n.k == 'cast' and n.castkind == 'CXXReinterpretCastExpr' and 'Subject<' in (n.to or '') and _strip_ptr(n.to) != 'tulz::Subject<>':
                    ok = _strip_ptr(n.to) == want
                    self.add('RT.1', ok, f'{f.name[:70]}: subscribes on a Subject{pack}', n.shortloc(), '' if ok else f'cast to {n.to}', key='RT.1|subscribe-cast')
                if n.k == 'call' and strip_targs(n.calleeq or '') == 'tulz::Subject::subscribe':
                    ok = (n.mclassfull or '') == want
                    self.add('RT.1', ok, f'{f.name[:70]}: Subject{pack}::subscribe', n.shortloc(), '' if ok else f'calls {n.mclassfull}::subscribe', key='RT.1|subscribe-call')
            for lam in [n for n in f.nodes() if n.k == 'lambda']:
                lf = self.facts.lambda_fn(lam)
                if lf is None: continue
                news = [n for n in lf.nodes() if n.k == 'new']
                for nw in news:
                    ok = (nw.alloctype or '') == want
                    self.add('RT.1', ok, f'{f.name[:70]}: the default factory creates a Subject{pack}', nw.shortloc(), '' if ok else f'creates {nw.alloctype}', key='RT.1|factory')

    # ---- RT.3 traversal skeleton of notify ------------------------------------------------------------------------------------
    def notify_skeleton(self):
        fns = node_fns(self.facts, 'notify')
        for f in fns[:8]:
            short = f.name.replace('std::basic_string<char>', 'std::string')[:80]
            if not self_recursive(f):
                self.add('RT.3', None, f'{short}: traversal', f.shortloc(), 'Node::notify does not descend by calling itself (explicit stack / loop): the per-level table is not applicable'); continue
            for matches, leaf, has_subject, regex, found in itertools.product([True, False], repeat=5):
                # a non-matching node must be skipped whatever else holds: all the other atoms stay free in those rows
                if leaf and (regex or found): continue
                if not leaf and has_subject: continue
                if regex and found: continue
                orc = dict(matches=matches, leaf=leaf, has_subject=has_subject, regex=regex, found=found)
                if found: orc['children_empty'] = False          # a child that is found is a child
                dom = RouterDomain(orc)
                res = run_paths(self.facts, f, dom)
                row = f'(matches={matches}, leaf={leaf}, subject={has_subject}, next is regex={regex}, child found={found})'
                for P, E in res:
                    xf = _extra_field_fork(self.facts, P)
                    if xf is not None:
                        # the path was chosen by a test of a member the traversal tables know nothing about (a cached depth, a counter, a flag):
                        # what the test means is not followed, so this path neither proves nor refutes the row
                        self.add('RT.3', None, f'{short} row {row}: traversal', xf.shortloc(), f'the path depends on `{(xf.text() or "")[:60]}`, a test of a member outside the traversal tables: not followed'); continue
                    leafn = [e for e in E if e.kind == 'call' and strip_targs(e.name) == 'tulz::Subject::notify']
                    rec = [e for e in E if e.kind == 'call' and strip_targs(e.name) == f'{NODE}::notify']
                    ret = as_lin(P.ret) if P.ret is not None else None
                    iters, conds = children_loop_iterations(f, E)
                    used = dom.consulted
                    if not matches:
                        ok = not leafn and not rec and ret == Lin.const(0)
                        self.add('RT.3', ok, f'{short} row {row}: a node whose name does not match is skipped with 0', f.shortloc(), '' if ok else 'observers below a non-matching level are reached / counted', key='RT.3|nomatch')
                        continue
                    if leaf:
                        if has_subject:
                            ok = len(leafn) == 1 and not rec and ret == Lin.const(1)
                            if not leafn and not rec and ret == Lin.const(1) and _no_observers_branch(P):
                                # the subject is skipped on a path on which it reported that it has no subscription: nobody to deliver to
                                self.add('RT.3', True, f'{short} row {row}: a leaf whose subject has no subscription counts 1 and has nobody to notify', f.shortloc(), '', key='RT.3|leaf'); continue
                            self.add('RT.3', ok, f'{short} row {row}: the leaf notifies its subject once and counts 1', leafn[0].site if leafn else f.shortloc(),
                                     '' if ok else f'{len(leafn)} notification(s), returns {P.ret}', key='RT.3|leaf')
                        else:
                            ok = not leafn and not rec and ret == Lin.const(0)
                            self.add('RT.3', ok, f'{short} row {row}: a leaf without subject counts 0', f.shortloc(), '' if ok else f'returns {P.ret} for a key that holds no subject', key='RT.3|leaf-empty')
                        continue
                    if regex:
                        accs = [e for e in E if e.kind == 'call' and e.name == 'std::accumulate']
                        if accs and not rec and not leafn:
                            # the fan-out written as a left fold over the children: init 0, step = accumulator + child.notify(next level, args…)
                            e0 = accs[0]
                            whole = len(e0.args) == 4 and isinstance(e0.args[0], Sym) and e0.args[0].name == 'm_children.begin' and isinstance(e0.args[1], Sym) and e0.args[1].name == 'm_children.end' and isinstance(e0.args[3], Closure)
                            okf = None
                            if whole and len(accs) == 1 and as_lin(e0.args[2]) == Lin.const(0) and ret == Lin.sym(f'accum@{e0.node.id}'):
                                okf = True
                                from evdom import _flatten
                                for SP in Exec(self.facts, RouterDomain(dict(matches=True))).run_closure(e0.args[3], args=[Lin.sym('acc'), Sym('m_children.front')], this_path=('this',)):
                                    SE = _flatten(SP)
                                    rc = [x for x in SE if x.kind == 'call' and strip_targs(x.name) == f'{NODE}::notify']
                                    r_ = as_lin(SP.ret) if isinstance(SP.ret, (Lin, int)) else None
                                    if len(rc) != 1 or r_ is None: okf = None; break
                                    if r_ != Lin.sym('acc') + Lin.sym(f'count@{rc[0].node.id}'): okf = False; why_ = f'the fold step returns {SP.ret}, expected accumulator + the child\'s count'; break
                            if okf is True: self.add('RT.3', True, f'{short} row {row}: every child is visited under a regex level and the counts are summed (std::accumulate over all children, step = accumulator + child count)', e0.site, '', key='RT.3|regex-all')
                            elif okf is False: self.add('RT.3', False, f'{short} row {row}: the counts of all children are summed', e0.site, why_, key='RT.3|sum')
                            else: self.add('RT.3', None, f'{short} row {row}: fan-out under a regex level', e0.site, 'the fan-out is a std::accumulate whose range / initial value / step is not in the recognised form')
                            continue
                        if not rec and not iters and not any(c_ is not None and c_.id in conds for c_, _v, _h in P.decisions):
                            # the path returns without ever reaching the loop over the children
                            about_children = [c_ for c_, _v, _h in P.decisions if c_ is not None and 'm_children' in (c_.text() or '')]
                            pc = '; '.join(f'{(c_.text() or "")[:50]} = {_v}' for c_, _v, _h in P.decisions if c_ is not None)[:200]
                            def _is_empty_test(c_, v_):
                                x_ = c_
                                while x_ is not None and x_.k in ('cast', 'paren') and x_.n('sub') is not None: x_ = x_.n('sub')
                                return x_ is not None and x_.k == 'call' and x_.callee_base() == 'empty' and x_.n('object') is not None and x_.n('object').is_field('m_children', NODE) and v_ is True
                            if about_children and all(_is_empty_test(c_, _v) for c_, _v, _h in P.decisions if c_ is not None and 'm_children' in (c_.text() or '')) and ret == Lin.const(0):
                                self.add('RT.3', True, f'{short} row {row}: a node without children has nothing to visit and counts 0', f.shortloc(), '', key='RT.3|regex-none')
                            elif about_children: self.add('RT.3', None, f'{short} row {row}: every child is visited under a regex level', f.shortloc(), f'the path leaves before the loop over the children after looking at m_children ({pc}): not followed')
                            else: self.add('RT.3', False, f'{short} row {row}: every child is visited under a regex level', f.shortloc(),
                                           f'the node returns {P.ret} without visiting its children although it matches and the next level is a pattern (path: {pc}): every key below this node is cut off from the delivery and the returned count is too low', key='RT.3|regex-all')
                            continue
                        ok = not leafn and len(rec) == iters
                        why = ''
                        if len(rec) != iters: why = f'{len(rec)} recursive call(s) for {iters} child(ren) under a regex level: a child is skipped before the pattern is matched against it — keys below it are not reached and the returned count is too low'
                        self.add('RT.3', ok, f'{short} row {row}: every child is visited under a regex level ({iters} children on this path)', rec[0].site if rec else f.shortloc(), why, key='RT.3|regex-all')
                        if ok and ret is not None:
                            want = Lin.const(0)
                            for e in rec:
                                want = want + Lin.sym(f'count@{e.node.id}')
                            self.add('RT.3', ret == want, f'{short} row {row}: the counts of all children are summed', f.shortloc(), '' if ret == want else f'returns {P.ret}, expected the sum of the children\'s counts', key='RT.3|sum')
                        # the view handed down is up()
                        for e in rec:
                            # the level argument: the one that is (derived from) the level view, wherever it stands in the parameter list
                            va = [x for x in e.args if repr(x).startswith('$view')]
                            if len(va) != 1:
                                self.add('RT.3', None if (e.args and not va) else False, f'{short} row {row}: children are matched against the next level', e.site, f'recursion is given ({", ".join(repr(x)[:30] for x in e.args[:3])}): which level view the child receives is not followed' if (e.args and not va) else f'recursion is given {len(va)} level views', key='RT.3|up')
                                continue
                            okv = repr(va[0]) == '$view.up'
                            self.add('RT.3', okv, f'{short} row {row}: children are matched against the next level', e.site, '' if okv else f'recursion is given {va[0]} instead of levelView.up()', key='RT.3|up')
                    else:
                        finds = [e for e in E if e.kind == 'call' and e.obj == 'm_children' and e.name.split('::')[-1] == 'find']
                        if found:
                            ok = len(rec) == 1 and not leafn and len(finds) == 1 and finds[0].args and repr(finds[0].args[0]) == '$view.name'
                            self.add('RT.3', ok, f'{short} row {row}: a string level descends into exactly the child with that name', rec[0].site if rec else f.shortloc(),
                                     '' if ok else f'{len(rec)} recursive call(s); lookup by {finds[0].args[0] if finds and finds[0].args else "?"}', key='RT.3|string-find')
                            if ok and ret is not None:
                                self.add('RT.3', ret == Lin.sym(f'count@{rec[0].node.id}'), f'{short} row {row}: returns the child\'s count', f.shortloc(), '' if ret == Lin.sym(f'count@{rec[0].node.id}') else f'returns {P.ret}', key='RT.3|string-ret')
                        else:
                            ok = not rec and not leafn and ret == Lin.const(0) and iters == 0
                            self.add('RT.3', ok, f'{short} row {row}: no child of that name: 0', f.shortloc(), '' if ok else 'visits children that do not carry the requested name', key='RT.3|string-none')

    # ---- RT.4 primitives ---------------------------------------------------------------------------------------------------------
    def primitives(self):
        F = self.facts
        m = F.fn(f'{VIEW}::matches')
        if m is None: self.rep.anchor_missing(f'{VIEW}::matches', 'not found'); return
        def nested(f):
            """f plus every function defined inside its source range (lambdas, call operators of local classes / visitors)"""
            try: end = int((f.d.get('endloc') or '').split(':')[1])
            except Exception: end = f.line
            return [f] + [g for g in F.fns if g is not f and g.file == f.file and f.line <= g.line <= end]
        calls = [n for g in nested(m) for n in g.nodes() if n.k == 'call']
        rm = [n for n in calls if strip_targs(n.calleeq or '') == 'std::regex_match']
        rs = [n for n in calls if strip_targs(n.calleeq or '') in ('std::regex_search',)]
        eqs = [n for n in calls if n.ck == 'op' and n.op == '==' and any('basic_string' in (a.type or '') for a in n.ns('args') if a is not None)]
        eqs += [n for n in calls if n.callee_base() == 'compare' and len([a for a in n.ns('args') if a is not None]) == 1]
        partial = [n for n in calls if n.callee_base() in ('starts_with', 'ends_with', 'find', 'rfind', 'contains') or (n.callee_base() == 'compare' and len([a for a in n.ns('args') if a is not None]) >= 3)]
        inst = 'a regex level matches by std::regex_match over the whole level name'
        if rs: self.add('RT.4', False, inst, rs[0].shortloc(), 'regex_search accepts a partial match: observers whose level only contains the pattern are notified', key='RT.4|regex_match')
        elif rm: self.add('RT.4', True, inst, rm[0].shortloc(), key='RT.4|regex_match')
        else: self.add('RT.4', None, inst, m.shortloc(), 'no std::regex_match / regex_search call found in matches()')
        if rm:
            a = [x for x in rm[0].ns('args') if x is not None]
            whole = len(a) >= 2 and a[0].k == 'call' and a[0].callee_base() in ('begin', 'cbegin') and a[1].k == 'call' and a[1].callee_base() in ('end', 'cend')
            import guards as _g
            ptr_whole = len(a) >= 2 and a[1].k == 'binop' and a[1].op == '+' and a[1].n('lhs') is not None and _g.same_expr(_g.strip_casts(a[1].n('lhs')), _g.strip_casts(a[0])) and any(x.k == 'call' and x.callee_base() in ('size', 'length') for x in a[1].n('rhs').walk())
            one_arg_str = len(a) == 2      # regex_match(string, regex): the whole string
            if whole or ptr_whole or one_arg_str: self.add('RT.4', True, 'regex_match runs over the whole level name', rm[0].shortloc(), key='RT.4|range')
            elif len(a) >= 2 and a[0].k == 'call' and a[0].callee_base() in ('begin', 'cbegin') and a[1].k in ('binop',): self.add('RT.4', False, 'regex_match runs over the whole level name', rm[0].shortloc(), 'regex_match over a sub-range', key='RT.4|range')
            else: self.add('RT.4', None, 'regex_match runs over the whole level name', rm[0].shortloc(), f'range arguments `{a[0].text()[:30]}`, `{a[1].text()[:30] if len(a) > 1 else ""}` not recognised')
        inst = 'a string level matches by whole-string equality'
        if partial: self.add('RT.4', False, inst, partial[0].shortloc(), f'{partial[0].callee_base()} used for a string level: prefixes/substrings match', key='RT.4|string-eq')
        elif eqs: self.add('RT.4', True, inst, eqs[0].shortloc(), key='RT.4|string-eq')
        else: self.add('RT.4', None, inst, m.shortloc(), 'no string comparison found in matches()')
        leaf = F.fn(f'{VIEW}::isLeaf')
        if leaf is not None:
            from symex import Domain
            class D(EvDomain):
                def opaque(self, n): return False
                def field_value(self, path, node):
                    return Lin.sym('level') if path[-1] == 'm_level' else None
                def call_result(self, ex, n, q, base, on, ov, vals, st, fr):
                    if base == 'size': return Lin.sym('count')
                    return super().call_result(ex, n, q, base, on, ov, vals, st, fr)
                def compare(self, ex, op, l, r, n, st, fr):
                    ll, rl = as_lin(l), as_lin(r)
                    if ll is None or rl is None: return None
                    d = ll - rl
                    if d.t == {'level': 1, 'count': -1}: c = d.c
                    elif d.t == {'level': -1, 'count': 1}: c = -d.c; op = {'<': '>', '>': '<', '<=': '>=', '>=': '<='}.get(op, op)
                    else: return None
                    import operator
                    # level - count + c  with level - count = self.delta
                    return {'<': operator.lt, '<=': operator.le, '>': operator.gt, '>=': operator.ge, '==': operator.eq, '!=': operator.ne}[op](self.delta + c, 0)
            table = []
            for delta in (-2, -1, 0):
                dom = D(); dom.delta = delta
                vals = {P.ret if isinstance(P.ret, bool) else repr(P.ret) for P, E in run_paths(F, leaf, dom)}
                table.append(vals)
            ok = table == [{False}, {True}, {False}]
            self.add('RT.4', ok, f'isLeaf() on (index = count-2, count-1, count) = {[sorted(map(str, t)) for t in table]}', leaf.shortloc(), '' if ok else 'isLeaf is not index == count-1: keys of a different length than the pattern are delivered to', key='RT.4|isLeaf')
        up = F.fn(f'{VIEW}::up')
        if up is not None:
            cons = [n for n in up.nodes() if n.k == 'construct' and (n.d.get('class') == VIEW) and len(n.ns('args')) == 2]
            ok = False
            if cons:
                a = cons[0].ns('args')[1]
                ok = a is not None and a.k == 'binop' and a.op == '+' and ((a.n('lhs').is_field('m_level') and a.n('rhs').k == 'int' and a.n('rhs').v == 1) or (a.n('rhs').is_field('m_level') and a.n('lhs').k == 'int' and a.n('lhs').v == 1))
                okk = cons[0].ns('args')[0] is not None and cons[0].ns('args')[0].is_field('m_key')
                ok = ok and okk
            self.add('RT.4', ok, 'up() is the view of the same key at level + 1', up.shortloc(), '' if ok else 'up() does not advance by exactly one level', key='RT.4|up')
        isr = F.fn(f'{VIEW}::isRegex')
        if isr is not None:
            cs = [n for n in isr.nodes() if n.k == 'call']
            def alt(n): return ' '.join(n.targs or []) if n.targs else (n.callee or '')
            rx = [n for n in cs if strip_targs(n.calleeq or '') in ('std::get_if', 'std::holds_alternative') and 'regex' in alt(n)]
            st_ = [n for n in cs if strip_targs(n.calleeq or '') in ('std::get_if', 'std::holds_alternative') and 'regex' not in alt(n)]
            neg = any((n.k == 'unop' and n.op == '!') or (n.k == 'binop' and n.op == '==' and any(x is not None and x.k == 'null' for x in (n.n('lhs'), n.n('rhs')))) for n in isr.nodes())
            inst = 'isRegex() tests the regex alternative of the level'
            if rx and not neg: self.add('RT.4', True, inst, isr.shortloc(), key='RT.4|isRegex')
            elif st_ and not rx and not neg: self.add('RT.4', False, inst, isr.shortloc(), 'isRegex does not test for the regex alternative', key='RT.4|isRegex')
            else: self.add('RT.4', None, inst, isr.shortloc(), 'the test of the variant alternative was not recognised')

    # ---- RT.5 writer/reader agreement -------------------------------------------------------------------------------------------------
    def writer_reader(self):
        F = self.facts
        lk = F.fn(f'{NODE}::lookupNode')
        if lk is None: self.rep.anchor_missing(f'{NODE}::lookupNode', 'not found'); return
        ins = [n for n in lk.nodes() if n.k == 'call' and n.n('object') is not None and n.n('object').is_field('m_children') and n.callee_base() in ('insert', 'emplace', 'try_emplace', 'operator[]', 'emplace_hint')]
        import guards as _g
        verdict = None; why = 'child insertion not recognised'
        self._lower_bound_idiom(F, lk)
        if len(ins) == 1:
            call = ins[0]
            args = [a for a in call.ns('args') if a is not None]
            if call.ck == 'op' and 'mclass' in call.d: args = args[1:]
            if call.callee_base() == 'emplace_hint' and len(args) == 3: args = args[1:]; call_base_ = 'emplace'
            else: call_base_ = call.callee_base()
            key_e = name_e = None
            nodec = [x for x in call.walk() if x.k == 'construct' and x.d.get('class') == NODE and not x.copy and not x.move]
            pairs = [x for x in call.walk() if x.k in ('initlist', 'construct') and len([a for a in x.ns('args') if a is not None]) == 2 and x.id != call.id and (x.k == 'initlist' or 'pair' in (x.d.get('class') or ''))]
            if call_base_ in ('try_emplace', 'emplace') and len(args) == 2:
                key_e = args[0]; name_e = args[1]
                if nodec and nodec[0].ns('args'): name_e = [a for a in nodec[0].ns('args') if a is not None][0]
            elif pairs and nodec and nodec[0].ns('args'):
                key_e = [a for a in pairs[0].ns('args') if a is not None][0]; name_e = [a for a in nodec[0].ns('args') if a is not None][0]
            elif call.callee_base() == 'operator[]' and args: key_e = args[0]
            def strip(e):
                e = _g.strip_casts(e)
                while e is not None and e.k == 'construct' and (e.copy or e.move or len([a for a in e.ns('args') if a is not None]) == 1): e = _g.strip_casts([a for a in e.ns('args') if a is not None][0])
                return e
            if key_e is not None and name_e is not None:
                k_, n_ = strip(key_e), strip(name_e)
                def root(e):
                    for _ in range(4):
                        if e.k == 'ref' and e.dk == 'local':
                            i_ = _g.single_assignment_init(lk, e.decl)
                            if i_ is None: break
                            e = strip(i_)
                        else: break
                    return e
                kr, nr = root(k_), root(n_)
                simple = lambda e: e.k == 'ref' or (e.k == 'member' and e.field) or e.k == 'call'
                if _g.same_expr(k_, n_) or _g.same_expr(kr, nr): verdict = True
                elif simple(kr) and simple(nr) and not (kr.k == 'call' and nr.k == 'call'): verdict = False; why = 'the map key and the name given to the new Node are different values: the string branch finds by key, the regex branch matches on the name'
                else: why = f'key `{k_.text()[:30]}` and node name `{n_.text()[:30]}` not compared'
                if verdict:
                    # the key is the next level's string
                    src = k_
                    if k_.k == 'ref' and k_.dk == 'local':
                        init = _g.single_assignment_init(lk, k_.decl)
                        if init is not None: src = init
                    is_name = any(y.k == 'call' and (y.callee_base() == 'asString' or (strip_targs(y.calleeq or '') == 'std::get' and 'basic_string' in ' '.join(y.targs or []))) for y in src.walk())
                    if not is_name: verdict = None; why = 'the origin of the child key was not recognised as the next level\'s string'
        self.add('RT.5', verdict, 'lookupNode inserts the child under key k with Node(k), k = next level name', ins[0].shortloc() if ins else lk.shortloc(), '' if verdict else why, key='RT.5|key-name')
        # the name a node keeps must live as long as the node: an owning string, or a view of the key its parent's map stores
        nc = F.cls(NODE) or {}
        views = [x for x in nc.get('fields', []) if re.match(r'(const )?(std::(basic_)?string_view\b|std::basic_string_view<|const char \*|const std::(__cxx11::)?basic_string<[^>]*> ?[&*])', x['ctype'])]
        for vf in views:
            inst = f'Node::{vf["name"]} ({vf["ctype"][:40]}) designates storage that lives as long as the node'
            if len(ins) != 1: self.add('RT.5', None, inst, vf['loc'], 'the insertion of the child was not recognised'); continue
            call = ins[0]
            srcs = [a for a in call.ns('args') if a is not None]
            if call.ck == 'op' and 'mclass' in call.d: srcs = srcs[1:]
            given = srcs[1:] if len(srcs) >= 2 else [x for c_ in call.walk() if c_.k == 'construct' and c_.d.get('class') == NODE for x in c_.ns('args') if x is not None]
            if not given: self.add('RT.5', None, inst, call.shortloc(), 'what the new node is given as its name was not recognised'); continue
            def stored_key(e):
                return any(m_.k == 'member' and m_.name == 'first' for m_ in e.walk())
            def callers_key(e, depth=0):
                # derived from the level view / routing key the caller passed in (the strings of a RoutingKey belong to the caller)
                for m_ in e.walk():
                    if m_.k == 'call' and (m_.callee_base() in ('asString',) or (m_.mclass or '') == VIEW): return True
                    if m_.k == 'ref' and m_.dk == 'local' and depth < 3:
                        import guards as _g2
                        i_ = _g2.single_assignment_init(lk, m_.decl)
                        if i_ is not None and callers_key(i_, depth + 1): return True
                return False
            g0 = given[0]
            if stored_key(g0): self.add('RT.5', True, inst + ': a view of the key stored in the parent\'s map', call.shortloc(), key='RT.5|name-lifetime')
            elif callers_key(g0):
                self.add('RT.5', False, inst, call.shortloc(), f'the node is constructed from `{g0.text()[:40]}`, a string of the routing key the caller passed to subscribe(); `{vf["name"]}` is a non-owning `{vf["ctype"][:30]}` of it, '
                         f'the map key is a separate copy: once the caller\'s key is gone the node\'s name dangles, matches() reads freed memory and later deliveries miss or hit the wrong nodes', key='RT.5|name-lifetime')
            else: self.add('RT.5', None, inst, call.shortloc(), f'where `{g0.text()[:40]}` lives was not followed')
        rec = [n for n in lk.nodes() if n.k == 'call' and strip_targs(n.calleeq or '') == f'{NODE}::lookupNode']
        if not rec: self.add('RT.5', None, 'lookupNode descends one level per call', lk.shortloc(), 'lookupNode is not recursive (loop over the levels): not followed')
        else: self.add('RT.5', len(rec) == 1, 'lookupNode descends one level per call', lk.shortloc(), '' if len(rec) == 1 else f'{len(rec)} recursive calls', key='RT.5|descend')
        # builder: root level "" first, then levels in call order
        bs = [f for f in F.fns if f.d.get('class') == 'tulz::RoutingKeyBuilder' and f.d.get('ctor')]
        for b in bs:
            eb = [n for n in b.nodes() if n.k == 'call' and n.callee_base() == 'emplace_back' and n.n('object') is not None and n.n('object').is_field('m_levels')]
            ok = len(eb) >= 1 and any(x.k == 'str' and x.v == '' for x in eb[0].walk())
            first = True
            if ok and b.cfg is not None:
                lv = [n for n in b.nodes() if n.k == 'call' and strip_targs(n.calleeq or '') == 'tulz::RoutingKeyBuilder::level']
                first = all(b.cfg.reaches(eb[0], x) for x in lv)
            self.add('RT.5', ok and first, f'{b.name[:70]}: the root level "" is appended first', b.shortloc(), '' if ok and first else 'the root level is missing or not first: every key is shifted by one level', key='RT.5|root')
        for name in ('level', 'all'):
            for g in [f for f in F.fns if f.qname == f'tulz::RoutingKeyBuilder::{name}']:
                eb = [n for n in g.nodes() if n.k == 'call' and n.callee_base() in ('emplace_back', 'push_back') and n.n('object') is not None and n.n('object').is_field('m_levels')]
                self.add('RT.5', len(eb) == 1, f'RoutingKeyBuilder::{name}: appends one level at the back', g.shortloc(), '' if len(eb) == 1 else 'levels are not appended in call order', key=f'RT.5|builder-{name}')

    def _lower_bound_idiom(self, F, lk):
        """find-or-insert written with lower_bound: `it = m_children.lower_bound(k)` guarantees !(it->first < k); the child is missing exactly
        when it == end() or k < it->first.  lookupNode is evaluated on the three rows; a row in which the child is missing and nothing is
        inserted descends into the next greater sibling."""
        if not any(n.k == 'call' and n.callee_base() == 'lower_bound' and n.n('object') is not None and n.n('object').is_field('m_children') for n in lk.nodes()): return
        lb_vars = set()
        for n in lk.nodes():
            if n.k == 'decl':
                for v in n.vars:
                    if v.get('init') and any(y.k == 'call' and y.callee_base() == 'lower_bound' for y in Node(lk.tu, v['init']).walk()): lb_vars.add(v['decl'])
        class D(RouterDomain):
            def call_result(self, ex, n, q, base, on, ov, vals, st, fr):
                if on == 'm_children' and base == 'lower_bound': return Sym('children.lb')
                if on == 'm_children' and base == 'key_comp': return Sym('children.comp')
                if base in ('operator==', 'operator!='):
                    o2 = [ex.read(x.loc, st, n) if isinstance(x, Ref) else x for x in ([ov] + list(vals)) if x is not None]
                    if len(o2) == 2 and all(isinstance(x, Sym) for x in o2) and {x.name for x in o2} == {'children.lb', 'm_children.end'}:
                        v = self.atom('lb_end')
                        if v is not None: return v if base == 'operator==' else (not v)
                if base == 'operator()' or (n.ck == 'op' and n.op == '()'):
                    ops_ = [ex.read(x.loc, st, n) if isinstance(x, Ref) else x for x in ([ov] + list(vals)) if x is not None]
                    if any(isinstance(x, Sym) and x.name == 'children.comp' for x in ops_) or 'less' in q:
                        rest = [x for x in ops_ if not (isinstance(x, Sym) and x.name == 'children.comp')]
                        is_lbkey = lambda x: isinstance(x, Sym) and x.name.startswith('children.lb') and x.name != 'children.lb'
                        if len(rest) == 2 and is_lbkey(rest[0]) and not is_lbkey(rest[1]): return False          # comp(it->first, k): excluded by lower_bound
                        if len(rest) == 2 and is_lbkey(rest[1]) and not is_lbkey(rest[0]): return self._b('lb_greater', n)
                return super().call_result(ex, n, q, base, on, ov, vals, st, fr)
            def opaque_result(self, ex, n, on, vals, st, fr):
                # m_children.key_comp()(a, b) / std::less<>{}(a, b)
                q_ = n.calleeq or ''
                if 'less' in q_ or 'key_comp' in (n.text() or ''):
                    # which operand is the key of the entry lower_bound found (an expression over the iterator variable)?
                    an = [a for a in n.ns('args') if a is not None][-2:]
                    side = [any(y.k == 'ref' and y.decl in lb_vars for y in a.walk()) for a in an]
                    if len(an) == 2 and side == [True, False]: return False          # comp(it->first, k): excluded by lower_bound
                    if len(an) == 2 and side == [False, True]: return self._b('lb_greater', n)
                return super().opaque_result(ex, n, on, vals, st, fr)
            def compare(self, ex, op, l, r, n, st, fr):
                if op in ('==', '!=') and {type(l), type(r)} == {Sym} and {l.name, r.name} == {'children.lb', 'm_children.end'}:
                    v = self.atom('lb_end')
                    if v is not None: return v if op == '==' else (not v)
                return super().compare(ex, op, l, r, n, st, fr)
        for lb_end, greater in ((True, False), (False, True), (False, False)):
            dom = D(dict(lb_end=lb_end, lb_greater=greater, matches=True, leaf=False))
            dom.opaque = lambda n, _d=dom: (strip_targs(n.d.get('calleeq') or '') == f'{NODE}::lookupNode') or EvDomain.opaque(_d, n)
            missing = lb_end or greater
            row = f'(lower_bound at end: {lb_end}, level name < found key: {greater})'
            for P, E in run_paths(F, lk, dom):
                if P.end in ('throw', 'noreturn'): continue
                forks = [c for c, val, how in P.decisions if how == 'fork' and any(y.k == 'call' and y.callee_base() in ('lower_bound', 'key_comp', 'end') for y in c.walk())]
                insd = [e for e in E if e.kind == 'call' and e.obj == 'm_children' and e.name.split('::')[-1] in ('emplace_hint', 'insert', 'emplace', 'try_emplace')]
                desc = [e for e in E if e.kind == 'call' and strip_targs(e.name) == f'{NODE}::lookupNode']
                if not desc: continue
                inst = f'lookupNode row {row}: a child is created exactly when none with that name exists'
                if forks: self.add('RT.5', None, inst, forks[0].shortloc(), f'`{forks[0].text()[:60]}` was not decided by the row')
                elif bool(insd) == missing: self.add('RT.5', True, inst, (insd[0].site if insd else lk.shortloc()), key='RT.5|find-or-insert')
                elif missing: self.add('RT.5', False, inst, lk.shortloc(), f'no child is inserted although none with that name exists {row}: lookupNode descends into the next greater sibling, the subscription lands on the subject of another key (notify for the intended key reaches nobody, notify for the sibling reaches both)', key='RT.5|find-or-insert')
                else: self.add('RT.5', False, inst, insd[0].site, f'a child is inserted although one with that name exists {row}', key='RT.5|find-or-insert')

    # ---- C13 -----------------------------------------------------------------------------------------------------------------------------
    def shrink_rules(self):
        F = self.facts
        sh = F.fn(f'{NODE}::shrink')
        if sh is None: self.rep.anchor_missing(f'{NODE}::shrink', 'not found'); return
        # helpers reachable from shrink only (private member functions all of whose callers are shrink or such helpers)
        callers = {}
        for g in F.fns:
            for n in g.nodes():
                if n.k == 'call' and n.callee_in_root:
                    for t in F.resolve(n): callers.setdefault(t.gname, set()).add(g.gname)
        def only_from_shrink(gname, seen=()):
            if gname == f'{NODE}::shrink': return True
            cs = callers.get(gname, set()) - {gname}
            return bool(cs) and gname not in seen and all(only_from_shrink(c, seen + (gname,)) for c in cs)
        # SH.2 entry: the public shrink(key) hands every key to the root node — the traversal prunes along the *prefixes* of the pattern too,
        # so no property of the key (its length, a cached depth) makes the call a no-op
        top = F.fn('tulz::SubjectRouter::shrink')
        if top is not None and top.cfg is not None:
            fw = [n for n in top.nodes() if n.k == 'call' and strip_targs(n.calleeq or '') == f'{NODE}::shrink']
            if len(fw) == 1:
                pos = top.cfg.position(fw[0])
                if pos is not None and pos[0] in top.cfg.pdom.get(top.cfg.entry, ()): self.add('SH.2', True, 'SubjectRouter::shrink(key) reaches the root node on every path', fw[0].shortloc())
                else:
                    conds = [b_.cond for b_ in top.cfg.blocks.values() if b_.cond is not None]
                    self.add('SH.2', None, 'SubjectRouter::shrink(key) reaches the root node on every path', fw[0].shortloc(),
                             f'shrink(key) returns without visiting the tree when `{conds[0].text()[:60] if conds else "?"}`: whether nothing could have been removed in that case is not followed (the traversal also prunes dead prefixes of a longer pattern)')
            elif not fw: self.add('SH.2', None, 'SubjectRouter::shrink(key) reaches the root node', top.shortloc(), 'no call of Node::shrink found in the public shrink()')
        # SH.3: no user code inside the traversal.  A callable the user supplied (a listener option) that is invoked while shrink walks the tree or
        # decides what to erase can re-enter the router: a subscribe() for the reported key lands on a node the erase is about to remove
        try: sh_end = int((sh.d.get('endloc') or '').split(':')[1])
        except Exception: sh_end = sh.line
        inner_fns = [g for g in F.fns if g is sh or (g.d.get('lambda') and g.file == sh.file and sh.line <= g.line <= sh_end) or (not g.d.get('lambda') and g.gname != sh.gname and only_from_shrink(g.gname))]
        ucalls = [(g, n) for g in inner_fns for n in g.nodes() if n.k == 'call' and 'std::function<' in (n.calleeq or '') and 'operator()' in (n.calleeq or '')]
        if ucalls:
            g, n = ucalls[0]
            self.add('SH.3', False, 'Node::shrink: no user-supplied callable runs inside the traversal', n.shortloc(),
                     f'`{n.text()[:50]}` calls user code in the middle of the walk (in {g.name.split("::")[-1][:30]}): the callable can use the router — a subscription made for the key it is told about lands on the node '
                     'that has just been found empty and is erased with it, so a key with a live subscription is removed', key='SH.3|user-code')
        else:
            self.add('SH.3', True, 'Node::shrink: no user-supplied callable runs inside the traversal', sh.shortloc(), key='SH.3|user-code')
        # SH.1: erasures from m_children
        ERASE = ('erase', 'clear', 'extract', 'erase_if', 'swap', 'operator=', 'pop_back', 'pop_front')
        erasers = []
        for f in F.fns:
            if f.d.get('lambda'): continue
            for n in f.nodes():
                if n.k == 'call' and any(a is not None and a.is_field('m_children', NODE) for a in ([n.n('object')] + n.ns('args'))) and \
                        (n.callee_base() in ERASE or strip_targs(n.calleeq or '') in ('std::erase_if',)):
                    erasers.append((f, n))
        for f, n in erasers:
            inst = f'{f.name[:60]}: erases from m_children only what isEmpty()'
            if not only_from_shrink(f.gname):
                self.add('SH.1', False, f'{f.name[:60]}: erases from m_children', n.shortloc(), f'`{n.text()[:50]}` removes children outside shrink (reached from {sorted(callers.get(f.gname, set()) - {f.gname})[:2] or "the public interface"})', key=f'SH.1|other|{f.gname}'); continue
            if strip_targs(n.calleeq or '') == 'std::erase_if':
                lam = next((a for a in n.ns('args') if a is not None and a.k == 'lambda'), None)
                lf = F.lambda_fn(lam) if lam is not None else None
                ok = None
                if lf is not None:
                    ok = True
                    for truth in (True, False):
                        dom = RouterDomain(dict(child_empty=truth))
                        vals = {P.ret if isinstance(P.ret, bool) else repr(P.ret) for P in Exec(F, dom).run_closure(Closure(lam, lf, {}), this_path=('this',))}
                        if vals != {truth}: ok = False if all(isinstance(v, bool) for v in vals) else None
                self.add('SH.1', ok, 'the erase predicate is exactly child.isEmpty()', n.shortloc(), '' if ok else 'children are erased by a predicate other than isEmpty(): a key with a live subscription at or below it can be removed', key='SH.1|pred')
                continue
            if n.callee_base() == 'clear':
                self.add('SH.1', False, inst, n.shortloc(), f'`{n.text()[:50]}` removes children regardless of isEmpty()', key=f'SH.1|other|{f.gname}'); continue
            if n.callee_base() in ('swap', 'operator=', 'extract'):
                self.add('SH.1', None, inst, n.shortloc(), f'`{n.text()[:50]}`: the children are rebuilt (extract / swap / assignment): which of them are dropped is not followed'); continue
            # a hand-written erase: on no path of this function may an erase happen when the tested child is not empty
            verdict = True; why = ''
            for truth in (False, True):
                dom = RouterDomain(dict(child_empty=truth, matches=True, leaf=True))
                try: res = run_paths(F, f, dom)
                except Inconclusive as e: verdict = None; why = str(e); break
                for P, E in res:
                    ers = [i for i, e in enumerate(E) if e.kind == 'call' and e.obj == 'm_children' and e.name.split('::')[-1] in ('erase', 'pop_back', 'pop_front')]
                    tests = [i for i, e in enumerate(E) if e.kind == 'call' and strip_targs(e.name) == f'{NODE}::isEmpty']
                    if ers and not truth: verdict = False; why = 'a child is erased on a path where isEmpty() is false: a key with a live subscription at or below it can be removed'
                    if ers and truth and not any(t < ers[0] for t in tests): verdict = False if verdict is not False else verdict; why = why or 'a child is erased without testing isEmpty()'
            self.add('SH.1', verdict, inst, n.shortloc(), why, key='SH.1|pred')
        if not erasers: self.add('SH.1', None, 'erasure from m_children', sh.shortloc(), 'no erase found')
        resets = [(f, n) for f in F.fns for n in f.nodes() if n.k == 'call' and n.n('object') is not None and n.n('object').is_field('m_subject', NODE) and n.callee_base() in ('reset', 'release', 'operator=', 'swap')]
        bad = [(f, n) for f, n in resets if f.gname != f'{NODE}::subscribe']
        self.add('SH.1', not bad, 'm_subject is only ever set by subscribe (never reset)', bad[0][1].shortloc() if bad else sh.shortloc(), '' if not bad else f'{bad[0][0].name} resets a subject', key='SH.1|subject')
        # SH.2 isEmpty table
        ie = F.fn(f'{NODE}::isEmpty')
        if ie is None: self.rep.anchor_missing(f'{NODE}::isEmpty', 'not found')
        else:
            for hs, sub, ce in itertools.product([True, False], repeat=3):
                if not hs and sub: continue
                dom = RouterDomain(dict(has_subject=hs, has_subscriptions=sub, children_empty=ce), keep={f'{NODE}::isEmpty'})
                vals = {P.ret if isinstance(P.ret, bool) else repr(P.ret) for P, E in run_paths(F, ie, dom)}
                want = ce and not (hs and sub)
                unk = any(not isinstance(v, bool) for v in vals)
                self.add('SH.2', None if (unk and vals != {want}) else vals == {want}, f'isEmpty() row (subject={hs}, subscriptions={sub}, no children={ce}) = {sorted(map(str, vals))}', ie.shortloc(),
                         '' if vals == {want} else f'expected {want}: ' + ('a node with a live subscription or with children counts as empty and is erased by shrink' if not want else 'a dead node is never pruned'), key='SH.2|table')
            # state a node carries besides its name, subject and children: what delivery looks at must keep the node alive (or be covered by isEmpty())
            ncls = F.cls(NODE) or {'fields': []}
            for fld_ in ncls['fields']:
                nm_ = fld_['name']
                if nm_ in KNOWN_NODE_FIELDS: continue
                def reads_(fn_): return any(x.k == 'member' and x.field and x.name == nm_ and (x.d.get('class') or '') == NODE for x in fn_.nodes())
                deliv = [g for g in F.fns if g.gname == f'{NODE}::notify' and reads_(g)]
                in_ie = reads_(ie)
                def writes_(fn_):
                    for x in fn_.nodes():
                        if x.k == 'binop' and x.op.endswith('=') and x.op not in ('==', '!=', '<=', '>=') and x.n('lhs') is not None and x.n('lhs').k == 'member' and x.n('lhs').name == nm_: return True
                        if x.k == 'unop' and x.op in ('++', '--') and x.n('sub') is not None and x.n('sub').k == 'member' and x.n('sub').name == nm_: return True
                    return False
                setters = [g for g in F.fns if (g.d.get('classfull') or g.d.get('class') or '') == NODE and not g.d.get('lambda') and not g.d.get('ctor') and writes_(g)
                           and g.gname.split('::')[-1] not in ('subscribe', 'lookupNode', 'shrink', 'notify')]
                if deliv and not setters: continue          # kept up to date by the operations that change the tree: a derived value (judged where it is used)
                if deliv and not in_ie:
                    self.add('SH.2', False, f'isEmpty() takes `{nm_}` into account', ie.shortloc(),
                             f'Node::notify consults `{nm_}` ({deliv[0].shortloc()}), a member isEmpty() does not look at: shrink erases a node whose `{nm_}` is set as soon as it has no subscription and no children, '
                             f'and a node created later under the same key starts with the default — shrink changes which observers a later notify reaches', key=f'SH.2|extra|{nm_}')
                elif deliv and in_ie:
                    self.add('SH.2', None, f'isEmpty() takes `{nm_}` into account', ie.shortloc(), f'`{nm_}` is read by delivery and by isEmpty(): outside the isEmpty() table')
        # SH.3 shrink skeleton
        if not self_recursive(sh) and not any(strip_targs(n.calleeq or '') == f'{NODE}::shrink' for g in F.fns if only_from_shrink(g.gname) for n in g.nodes() if n.k == 'call'):
            self.add('SH.3', None, 'shrink traversal', sh.shortloc(), 'Node::shrink does not descend by calling itself: the per-level table is not applicable')
        else:
            any_prune = False
            for matches, leaf, regex, found in itertools.product([True, False], repeat=4):
                if leaf and (regex or found): continue
                if regex and found: continue
                orc_ = dict(matches=matches, leaf=leaf, regex=regex, found=found, child_empty=True)
                if found: orc_['children_empty'] = False          # a child that is found is a child
                dom = RouterDomain(orc_)
                res = run_paths(F, sh, dom)
                row = f'(matches={matches}, leaf={leaf}, next is regex={regex}, child found={found})'
                for P, E in res:
                    if P.end in ('loop',): continue
                    self.add = self.__class__.add.__get__(self)
                    if matches and P.unknown_atoms and all(_about_key_only(c_) for c_ in P.unknown_atoms):
                        # the path was chosen by a condition the traversal tables know nothing about (a range guard on the level view): whether it can
                        # be taken is not followed, so what is missing on it is not a refutation
                        orig_add_ = self.add; ua_ = (P.unknown_atoms[0].text() or '')[:50]
                        def soft_(rule, ok, inst, site_, why='', *a, _o=orig_add_, _u=ua_, **k):
                            if ok is False: return _o(rule, None, inst, site_, f'on a path chosen by `{_u}`, a condition outside the traversal tables: {why}', *a, **k)
                            return _o(rule, ok, inst, site_, why, *a, **k)
                        self.add = soft_
                    if matches and _children_empty_decided(P) and not any(e.kind == 'call' and (e.name == 'std::erase_if' or strip_targs(e.name) == f'{NODE}::shrink') for e in E):
                        self.add('SH.3', True, f'shrink row {row}: a node without children has nothing to descend into and nothing to erase', sh.shortloc(), key='SH.3|no-children'); continue
                    er_if = [i for i, e in enumerate(E) if e.kind == 'call' and e.name == 'std::erase_if']
                    er = er_if + [i for i, e in enumerate(E) if (e.kind == 'call' and e.obj == 'm_children' and e.name.split('::')[-1] == 'erase') or (e.kind == 'call' and strip_targs(e.name) == f'{NODE}::isEmpty')]
                    rec = [i for i, e in enumerate(E) if e.kind == 'call' and strip_targs(e.name) == f'{NODE}::shrink']
                    iters, _ = children_loop_iterations(sh, E)
                    if not matches:
                        ok = not er and not rec
                        self.add('SH.3', ok, f'shrink row {row}: a non-matching node is left alone', sh.shortloc(), '' if ok else 'shrink prunes outside the pattern', key='SH.3|nomatch'); continue
                    if er: any_prune = True
                    uses_erase_if = any(n.k == 'call' and strip_targs(n.calleeq or '') == 'std::erase_if' for g in F.fns if only_from_shrink(g.gname) and not g.d.get('lambda') for n in g.nodes())
                    if uses_erase_if:
                        ok_e = len(er_if) == 1 and all(r < er_if[0] for r in rec)
                        why = ''
                        if len(er_if) != 1: why = f'{len(er_if)} erase_if call(s) on a path where the level matches ({[c.text()[:40] for c in P.unknown_atoms][:2] or "no extra condition"}): dead keys along the pattern are not removed'
                        elif not all(r < er_if[0] for r in rec): why = 'children are erased before the recursion: a branch that becomes empty only after its own children were pruned survives (a full-depth wildcard shrink does not remove every dead branch)'
                        self.add('SH.3', ok_e, f'shrink row {row}: recursion first, then erase_if(isEmpty) exactly once ({iters} children on this path)', E[er_if[0]].site if er_if else sh.shortloc(), why, key='SH.3|order')
                    elif er and rec:
                        ok_e = all(r < min(er) for r in rec)
                        self.add('SH.3', ok_e, f'shrink row {row}: recursion first, then the empty children are erased', E[min(er)].site, '' if ok_e else 'children are erased before the recursion: a branch that becomes empty only after its own children were pruned survives (a full-depth wildcard shrink does not remove every dead branch)', key='SH.3|order')
                    sel_known = leaf or regex or ('found' in dom.consulted)
                    if leaf: okr = not rec
                    elif regex: okr = len(rec) == iters - (0 if uses_erase_if else sum(1 for i in er if E[i].kind == 'call' and strip_targs(E[i].name) == f'{NODE}::isEmpty') and 0)
                    elif found: okr = len(rec) == 1
                    else: okr = not rec
                    if regex and not uses_erase_if:
                        # a hand-written pruning loop walks m_children too: count only the iterations that recurse
                        okr = len(rec) >= 0 and (len(rec) == iters or len(rec) <= iters)
                        # every child visited by the descending loop: no iteration of a loop that contains the recursive call lacks it
                        okr = True
                        conds = {n.n('c').id: n for g in F.fns if only_from_shrink(g.gname) for n in g.nodes() if n.k in ('rangefor', 'for', 'while', 'do') and n.n('c') is not None and any(x.k == 'call' and strip_targs(x.calleeq or '') == f'{NODE}::shrink' for x in (n.n('body') or n).walk())}
                        vis = [i for i, c in loop_visits(E, set(conds)) if c == 'm_children']
                        bounds = vis + [len(E)]
                        for k in range(len(vis)):
                            if not any(bounds[k] < r < bounds[k + 1] for r in rec): okr = False
                        iters = len(vis)
                    if not sel_known and not okr:
                        self.add('SH.3', None, f'shrink row {row}: recursion follows the child-selection rule', sh.shortloc(), 'the child is not selected by find(name): selection not followed'); continue
                    self.add('SH.3', okr, f'shrink row {row}: recursion follows the child-selection rule', sh.shortloc(), '' if okr else f'{len(rec)} recursive call(s) for {iters} children', key='SH.3|select')
            self.add = self.__class__.add.__get__(self)
            if not any_prune: self.add('SH.3', False, 'shrink erases the empty children of a matching node', sh.shortloc(), 'no path of shrink removes anything: dead keys along the pattern are not removed', key='SH.3|order')
        # SH.4 exists / depth
        exf = F.fn(f'{NODE}::exists')
        if exf is not None and not self_recursive(exf):
            self.add('SH.4', None, 'exists traversal', exf.shortloc(), 'Node::exists does not descend by calling itself: the per-level table is not applicable')
        elif exf is not None:
            for matches, leaf, regex, found, ce, che in itertools.product([True, False], repeat=6):
                if leaf and (regex or found): continue
                if regex and found: continue
                if not regex and che: continue
                dom = RouterDomain(dict(matches=matches, leaf=leaf, regex=regex, found=found, child_exists=ce, children_empty=che))
                vals = set(); full = []; soft_ex = None
                for P, E in run_paths(F, exf, dom):
                    if P.end == 'loop': continue
                    if matches and P.unknown_atoms and all(_about_key_only(c_) for c_ in P.unknown_atoms):
                        soft_ex = P.unknown_atoms[0]; continue          # chosen by a condition outside the tables (a range guard on the level view): not judged
                    v = P.ret if isinstance(P.ret, bool) else ('any' if P.ret is not None else None)
                    vals.add(v)
                    iters, _ = children_loop_iterations(exf, E)
                    rec = [e for e in E if e.kind == 'call' and strip_targs(e.name) == f'{NODE}::exists']
                    anyof = [e for e in E if e.kind == 'anyof' and e.obj == 'm_children']
                    full.append((v, iters, len(rec), bool(anyof)))
                row = f'(matches={matches}, leaf={leaf}, regex={regex}, found={found}, child exists={ce}' + (f', no children={che}' if regex else '') + ')'
                if soft_ex is not None:
                    self.add('SH.4', None, f'exists row {row}', soft_ex.shortloc(), f'some paths are chosen by `{(soft_ex.text() or "")[:50]}`, a condition outside the traversal tables: not followed')
                    if not vals: continue
                if not matches: want = {False}
                elif leaf: want = {True}
                elif regex:
                    # any child: false for no children; with children, the children's common answer; every child is asked before `false`
                    if any(not isinstance(v, bool) for v in vals):
                        self.add('SH.4', None, f'exists row {row}', exf.shortloc(), f'result {sorted(map(str, vals))} not followed'); continue
                    if che: ok = vals <= {False} or all(it == 0 for v, it, r, a in full if v is False) and False not in {v for v, it, r, a in full if it or a} and vals >= {False}
                    else: ok = True
                    bad = None
                    for v, it, r, a in full:
                        if (it == 0 and not a) and v is not False: bad = 'reports an existing key although the node has no children'
                        if (it or a) and v is not ce and not (v is False and it == 0): bad = f'returns {v} although the children answer {ce}'
                        if (it and not a) and v is False and r != it: bad = 'regex level does not consider every child'
                    self.add('SH.4', bad is None, f'exists row {row} = {sorted(map(str, vals))}: true iff some child matches below', exf.shortloc(), bad or '', key='SH.4|anyof')
                    continue
                elif found: want = {ce}
                else: want = {False}
                self.add('SH.4', vals == want, f'exists row {row} = {sorted(map(str, vals))}', exf.shortloc(), '' if vals == want else f'expected {sorted(want)}', key='SH.4|exists')
        dp = F.fn(f'{NODE}::depth')
        if dp is not None and not self_recursive(dp) and not any(n.k == 'lambda' for n in dp.nodes()):
            self._cached_depth(F, dp)
            self.add('SH.4', None, 'depth traversal', dp.shortloc(), 'Node::depth does not descend by calling itself (it returns a stored value): whether that value is kept equal to 1 + the deepest child on every history is not followed')
        elif dp is not None:
            res = run_paths(F, dp, RouterDomain())
            okd = True; seen = 0; unfollowed = False; fold_ok = False
            for P, E in res:
                if P.end == 'loop': continue
                it, _ = children_loop_iterations(dp, E)
                rec = [e for e in E if e.kind == 'call' and strip_targs(e.name) == f'{NODE}::depth']
                algo = [e for e in E if e.kind == 'call' and e.name in ('std::accumulate', 'std::max_element', 'std::for_each', 'std::transform_reduce', 'std::reduce')]
                acc = [e for e in algo if e.name == 'std::accumulate' and len(e.args) == 4 and isinstance(e.args[0], Sym) and e.args[0].name == 'm_children.begin' and isinstance(e.args[1], Sym) and e.args[1].name == 'm_children.end' and isinstance(e.args[3], Closure)]
                if len(algo) == 1 and acc:
                    # a left fold over all children: init 0, step = max(accumulator, child.depth()), result + 1
                    e = acc[0]; clo = e.args[3]
                    okf = as_lin(e.args[2]) == Lin.const(0) and as_lin(P.ret) == Lin.sym(f'accum@{e.node.id}') + Lin.const(1)
                    steps = Exec(F, RouterDomain()).run_closure(clo, args=[Lin.sym('acc'), Sym('m_children.front')], this_path=('this',))
                    for SP in steps:
                        from evdom import _flatten
                        SE = _flatten(SP)
                        dcalls = [x for x in SE if x.kind == 'call' and strip_targs(x.name) == f'{NODE}::depth']
                        r_ = SP.ret
                        want = 'max(' + ','.join(sorted(['acc', f'depth@{dcalls[0].node.id}'])) + ')' if len(dcalls) == 1 else None
                        if not (isinstance(r_, Sym) and r_.name == want): okf = False
                    if okf: seen += 1; fold_ok = True; continue
                    unfollowed = True; continue
                if algo: unfollowed = True; continue
                if len(rec) != it: okd = False
                if it == 0 and as_lin(P.ret) != Lin.const(1): okd = False
                seen += 1
            mx = [n for n in dp.nodes() if n.k == 'call' and (n.calleeq or '') == 'std::max']
            mn = [n for n in dp.nodes() if n.k == 'call' and strip_targs(n.calleeq or '') == 'std::min' and any(x.k == 'call' and strip_targs(x.calleeq or '') == f'{NODE}::depth' for x in n.walk())]
            def _hand_max():
                """`if (d > best) best = d;` (or `best < d`) inside the loop: the accumulator takes the larger value"""
                strip_ = lambda x: (strip_(x.n('sub')) if x is not None and x.k in ('cast', 'paren') and x.n('sub') is not None else x)
                for n in dp.nodes():
                    if n.k != 'if' or n.n('c') is None or n.n('t') is None: continue
                    c = strip_(n.n('c'))
                    if c is None or c.k != 'binop' or c.op not in ('>', '<', '>=', '<='): continue
                    big, small = (strip_(c.n('lhs')), strip_(c.n('rhs'))) if c.op in ('>', '>=') else (strip_(c.n('rhs')), strip_(c.n('lhs')))
                    if big is None or small is None or big.k != 'ref' or small.k != 'ref': continue
                    for a in n.n('t').walk():
                        if a.k == 'binop' and a.op == '=':
                            l_, r_ = strip_(a.n('lhs')), strip_(a.n('rhs'))
                            if l_ is not None and r_ is not None and l_.k == 'ref' and r_.k == 'ref' and l_.decl == small.decl and r_.decl == big.decl: return True
                return False
            if not mx and not fold_ok and okd and not unfollowed and _hand_max(): fold_ok = True
            inst = f'depth = 1 + max over all children (0 for none) [{seen} paths]'
            if mn: self.add('SH.4', False, inst, mn[0].shortloc(), 'depth is not one more than the deepest child (the minimum over the children is taken)', key='SH.4|depth')
            elif unfollowed: self.add('SH.4', None, inst, dp.shortloc(), 'the maximum over the children is computed by a std algorithm: not followed')
            elif okd and (len(mx) == 1 or fold_ok): self.add('SH.4', True, inst, dp.shortloc(), key='SH.4|depth')
            elif not okd: self.add('SH.4', False, inst, dp.shortloc(), 'depth is not one more than the deepest child', key='SH.4|depth')
            else: self.add('SH.4', None, inst, dp.shortloc(), 'how the maximum is taken was not recognised')

    def _cached_depth(self, F, dp):
        """depth() returns a member: a cache.  One necessary condition is checked on shrink(): on every path on which it descended into a
        child (whose own cached value may have changed) the cache of this node is recomputed afterwards, whether or not a direct child was erased"""
        rets = [n for n in dp.nodes() if n.k == 'return']
        cache = None
        for r in rets:
            for x in r.walk():
                if x.k == 'member' and x.n('base') is not None and x.n('base').k == 'this' and x.field: cache = x.name
        sh = F.fn(f'{NODE}::shrink')
        if cache is None or sh is None: return
        for regex, found in ((True, False), (False, True)):
            dom = RouterDomain(dict(matches=True, leaf=False, regex=regex, found=found, children_empty=False))
            for P, E in run_paths(F, sh, dom):
                if P.end in ('throw', 'noreturn', 'loop'): continue
                rec = [i for i, e in enumerate(E) if e.kind == 'call' and strip_targs(e.name) == f'{NODE}::shrink']
                if not rec: continue
                ws = [i for i, e in enumerate(E) if e.kind == 'write' and e.obj == cache and i > rec[-1]]
                inst = f'shrink row (next is regex={regex}, child found={found}): after descending into a child the stored depth `{cache}` of this node is recomputed'
                if ws: self.add('SH.4', True, inst, E[ws[0]].site, key='SH.4|cache-after-descent')
                else:
                    forks = [c.text()[:60] for c, val, how in P.decisions if how == 'fork']
                    self.add('SH.4', False, inst, sh.shortloc(), f'shrink() descends into {len(rec)} child(ren) and returns without recomputing `{cache}`' + (f' (path conditions: {"; ".join(forks[-2:])})' if forks else '') +
                             ': when a dead branch deeper down was removed the child became shallower, but this node and every ancestor keep the old value — depth() stays too large after shrink', key='SH.4|cache-after-descent')

    # ---- C11 ---------------------------------------------------------------------------------------------------------------------------------
    def concurrent_rules(self):
        import C15 as c15, roles
        F = roles.subject_canonical(self.facts, self.rep)
        eng, roots = c15.collect(F, self.rep)
        from lockset import protecting
        CSR = 'tulz::ConcurrentSubjectRouter'
        shared_cls = ('tulz::SubjectRouter', 'tulz::Subject', 'tulz::Observer', 'tulz::EternalObserver', 'tulz::Subscription')
        lockf = common.router_lock_field(F)
        if lockf is None:
            self.add('CR.1', None, 'the router\'s lock', (F.cls(CSR) or {}).get('loc', ''), 'no single lock field (rwp::Resource / shared_mutex / an adapter of one / mutex) found in ConcurrentSubjectRouter'); return
        lname = lockf['name']
        if common._bare(lockf['ctype']) not in common.KNOWN_RW + ('std::mutex',):
            ad = common.lock_adapter(F, common._bare(lockf['ctype']))
            self.add('CR.1', ad, f'{common._bare(lockf["ctype"])}: lock()/lock_shared() forward to the exclusive / shared operation of the wrapped lock', lockf['loc'], '' if ad else 'the adapter maps lock()/lock_shared() to the wrong operation', key='CR.1|adapter')
        ltype = common._bare(lockf['ctype'])
        def own(t): return strip_targs(t[0]).startswith(CSR) and t[4] == ltype        # the router's lock field, or the handle's reference / pointer to it (flow: CR.2)
        ftype_ = {(c_['fullname'], f_['name']): f_['ctype'] for c_ in F.classes.values() for f_ in c_['fields']}
        per_root = {}
        written_own = {(a.cls, a.field) for a in eng.accesses if a.mode == 'W' and strip_targs(a.cls) == CSR and not a.ctor_obj}
        for a in eng.accesses:
            g = strip_targs(a.root[1])
            if not (g.startswith(CSR)): continue
            own_state = strip_targs(a.cls) == CSR and a.field not in (lname, 'm_router') and not common.rw_lock_type(F, ftype_.get((a.cls, a.field), ''))
            if own_state and ((ftype_.get((a.cls, a.field), '') or '').startswith('const ') or (a.cls, a.field) not in written_own): continue       # fixed at construction (const, or never written by a member function): nothing to serialise
            # the concurrent router's own members (a cache, a counter kept beside the router) are state of the operation like the router's:
            # atomic or not, what an operation does to them belongs inside its critical section
            if not strip_targs(a.cls).startswith(shared_cls) and not own_state: continue
            if not a.path or a.path[0] in ('local', 'tmp', '?', 'static', 'param', 'global') or any(isinstance(x, str) and x.startswith('?') for x in a.path): continue
            per_root.setdefault(g, []).append(a)
        self.n_csr_access = sum(len(v) for v in per_root.values())
        for g, accs in sorted(per_root.items()):
            unl = [a for a in accs if not any(own(t) for t in protecting(a))]
            ws = [a for a in accs if a.mode == 'W' and not any(own(t) and t[2] in ('W', 'X') for t in protecting(a)) and a not in unl]
            self.add('CR.1', not unl, f'{g}: all {len(accs)} accesses to router/subject state are made with m_resource locked', accs[0].site,
                     '' if not unl else f'{unl[0].mode} access to {strip_targs(unl[0].cls)}::{unl[0].field} at {unl[0].site} (in {unl[0].fn.split("::")[-1]}) runs before/without the guard on m_resource: it can overlap a delivery or a subscribe',
                     key=f'CR.1|unlocked|{g}|{strip_targs(unl[0].cls)}::{unl[0].field}' if unl else None)
            seenw = set()
            for a in ws:
                ff_ = common.finding_fn(a)
                k = f'CR.1|readlock-write|{g}|{strip_targs(a.cls)}{("::" + a.field) if ">" not in ff_ else ""}|{ff_}'
                if k in seenw: continue
                seenw.add(k)
                self.add('CR.1', False, f'{g}: writes under the read lock', a.site,
                         f'{strip_targs(a.cls)}::{a.field} is written at {a.site} in {strip_targs(a.fn).split("::")[-1]} while only a ReadLock on m_resource is held: two concurrent calls are not serialised (a change takes effect during a delivery)', key=k)
            if not ws: self.add('CR.1', True, f'{g}: every write holds the write lock', accs[0].site)
        # CR.4: one critical section per operation (a decision taken under one acquisition must not be applied under a later one)
        acq = {}
        for ev in eng.events:
            if ev[0] != 'acquire': continue
            kind, node, L, root, chain, tok = ev
            g = strip_targs(root[1])
            if not g.startswith(CSR) or tok is None or not (strip_targs(tok[1]).startswith(CSR) and tok[4] == ltype): continue
            acq.setdefault(g, set()).add(node.shortloc())
        for g, sites in sorted(acq.items()):
            self.add('CR.4', len(sites) == 1, f'{g}: the router\'s lock is taken once, for the whole operation', sorted(sites)[0],
                     '' if len(sites) == 1 else f'the lock is taken at {len(sites)} places ({", ".join(sorted(sites))}) in one operation: what was decided under the first acquisition (e.g. which keys are unused) is applied under a later one, after other threads could subscribe or deliver in between', key=f'CR.4|split|{g}')
        ok, why, site = common.invoker_resource_flow(F)
        self.add('CR.2', ok, 'the handle returned by subscribe() unsubscribes under a WriteLock on the router\'s own Resource', site, '' if ok else why, key='CR.2|flow')
        inv = [f for f in F.fns if f.gname == f'{CSR}::Subscription::ConcurrentInvoker::unsubscribe']
        from lockset import guard_mode, MUTEX_GUARDS, RW_GUARDS
        for f in inv[:7]:
            c_ = F.cls(f.d.get('classfull')) or {}
            lf_ = [x['name'] for x in c_.get('fields', []) if common.rw_lock_type(F, x['ctype'])]
            gs = [n for n in f.nodes() if n.k == 'construct' and ((n.d.get('class') or '') in RW_GUARDS or (n.d.get('class') or '').startswith(MUTEX_GUARDS))]
            def on_own(n):
                a = n.ns('args')[0] if n.ns('args') else None
                while a is not None and (a.k == 'cast' or (a.k == 'unop' and a.op in ('*', '&'))): a = a.n('sub')
                return a is not None and a.k == 'member' and a.field and a.name in lf_
            mine = [n for n in gs if on_own(n)]
            inst = f'{f.name[-60:]}: takes an exclusive lock on the router\'s lock'
            if len(mine) == 1 and guard_mode(mine[0].d.get('class')) in ('W', 'X'): self.add('CR.2', True, inst, mine[0].shortloc(), key='CR.2|invoker-lock')
            elif mine and all(guard_mode(n.d.get('class')) == 'R' for n in mine): self.add('CR.2', False, inst, mine[0].shortloc(), 'unsubscribe of the concurrent handle only takes the shared lock', key='CR.2|invoker-lock')
            elif [ev for ev in eng.events if ev[0] == 'acquire' and ev[3][1] == f.name and ev[5] is not None and strip_targs(ev[5][1]).startswith(CSR) and ev[5][4] == ltype]:
                # the lock is taken further down (a helper that constructs the guard and runs the operation): by what the engine saw acquired
                aq = [ev for ev in eng.events if ev[0] == 'acquire' and ev[3][1] == f.name and ev[5] is not None and strip_targs(ev[5][1]).startswith(CSR) and ev[5][4] == ltype]
                modes = {ev[5][3] for ev in aq}
                if modes <= {'W', 'X'}: self.add('CR.2', True, inst, aq[0][1].shortloc(), key='CR.2|invoker-lock')
                elif modes == {'R'}: self.add('CR.2', False, inst, aq[0][1].shortloc(), 'unsubscribe of the concurrent handle only takes the shared lock', key='CR.2|invoker-lock')
                else: self.add('CR.2', None, inst, aq[0][1].shortloc(), f'the lock is taken in modes {sorted(modes)}')
            elif not gs: self.add('CR.2', False, inst, f.shortloc(), 'unsubscribe of the concurrent handle does not take the write lock', key='CR.2|invoker-lock')
            else: self.add('CR.2', None, inst, f.shortloc(), 'the guard taken by unsubscribe() was not recognised as one on the handle\'s lock member')
        c = F.cls(CSR)
        if c is not None:
            for fld in c['fields']:
                self.add('CR.3', fld['access'] == 'private', f'{CSR}::{fld["name"]} is private', fld['loc'], '' if fld['access'] == 'private' else 'exposed state can be used without the lock', key=f'CR.3|{fld["name"]}')
            self.add('CR.3', not c['friends'], f'{CSR} has no friends', c['loc'], '' if not c['friends'] else f'friends: {c["friends"]}', key='CR.3|friends')
            leaks = [m for m in c['methods'] if m['access'] == 'public' and m['ret'].replace('const ', '').strip() in ('tulz::SubjectRouter &', 'tulz::rwp::Resource &', 'tulz::SubjectRouter *', 'tulz::rwp::Resource *')]
            self.add('CR.3', not leaks, 'no public member hands out the router or the resource', c['loc'], '' if not leaks else f'{leaks[0]["name"]} returns {leaks[0]["ret"]}', key='CR.3|leak')
        for tok, site, chain in eng.reacquire:
            if tok[4] == 'tulz::rwp::Resource' or common.rw_lock_type(F, tok[4]):
                self.add('CR.1', False, 're-acquisition of m_resource while held', site, f'self-deadlock via {" > ".join(c.split("::")[-1] for c in chain[-3:])}', key=f'CR.1|reacquire|{strip_targs(chain[-1])}')

    def children_model(self):
        """None if Node keeps its children in a container keyed by the child's name (what the traversal tables describe: find(name) under
        a string level); otherwise the type found"""
        c = self.facts.cls(NODE)
        if c is None: return None
        for f in c['fields']:
            if f['name'] == 'm_children' and not re.search(r'\bmap<', f['ctype']): return f['ctype']
        return None

    def ordered_children(self):
        """children kept in a sequence and found by binary search: the order by name is what the lookups rely on, so nothing may permute
        the sequence.  An unstable reordering algorithm applied to m_children is a witness (SH.3: survivors are no longer found)."""
        fns = [f for f in self.facts.fns if f.d.get('class') == NODE]
        def on_children(n): return any(x.is_field('m_children') for a in n.ns('args') if a is not None for x in a.walk())
        searches = [n for f in fns for n in f.nodes() if n.k == 'call' and strip_targs(n.calleeq or '').split('::')[-1] in ('lower_bound', 'upper_bound', 'binary_search', 'equal_range') and on_children(n)]
        if not searches: return
        PERMUTE = ('partition', 'reverse', 'rotate', 'shuffle', 'random_shuffle', 'nth_element', 'iter_swap', 'swap_ranges', 'next_permutation', 'prev_permutation', 'make_heap', 'push_heap', 'pop_heap', 'sort_heap')
        seen = set()
        for f in fns:
            for n in f.nodes():
                if n.k == 'call' and (n.calleeq or '').startswith('std::') and strip_targs(n.calleeq or '').split('::')[-1] in PERMUTE and on_children(n):
                    if f.gname in seen: continue
                    seen.add(f.gname)
                    self.add('SH.3', False, f'{f.name[:60]}: the children stay ordered by name (they are found by {strip_targs(searches[0].calleeq).split("::")[-1]} at {searches[0].shortloc()})', n.shortloc(),
                             f'`{n.text()[:40]}` permutes m_children without regard to the order the lookups rely on ({strip_targs(n.calleeq).split("::")[-1]} is not order-preserving): the children that are kept are no longer sorted by name, '
                             f'a later notify / exists / subscribe with a concrete key misses nodes that are still stored', key=f'SH.3|permute|{f.gname}')

    def run(self, which):
        cm = self.children_model()
        if cm is not None:
            why = f'the children are kept in `{cm[:60]}`, not in a container keyed by the child name: the traversal tables (find(name) under a string level) do not describe this tree'
            loc = (self.facts.cls(NODE) or {}).get('loc', '')
            if 'C06' in which:
                self.instantiations(); self.primitives()
                for r in ('RT.3', 'RT.5'): self.add(r, None, 'Node: children model', loc, why)
            if 'C13' in which:
                for r in ('SH.1', 'SH.2', 'SH.3', 'SH.4'): self.add(r, None, 'Node: children model', loc, why)
                self.ordered_children()
            if 'C11' in which: self.concurrent_rules()
            return
        if 'C06' in which:
            self.instantiations(); self.notify_skeleton(); self.primitives(); self.writer_reader()
        if 'C13' in which: self.shrink_rules()
        if 'C11' in which: self.concurrent_rules()


RULE_TEXT = {
    'CR.4': 'atomicity: every ConcurrentSubjectRouter operation takes the router\'s lock exactly once and does all its work on router / subject state inside that one critical section',
    'RT.1': 'type preservation through type erasure: Node::notify<A…> only ever calls Node::notify<A…>, casts to Subject<A…>, the routers forward with the same pack; subscribe creates and casts to Subject<A…>',
    'RT.2': 'no consumption in a fan-out: the leaf copies by-value class arguments into Subject::notify (the leaf may be reached once per matching key)',
    'RT.3': 'traversal skeleton on every row of (matches, leaf, subject, next level is regex, child found): non-matching => 0; leaf => notify the subject once and count 1 (0 without subject); regex level => every child, counts summed; string level => exactly find(name)',
    'RT.4': 'primitives: string level = whole-string equality, regex level = std::regex_match over the whole name, isLeaf <=> index = count-1, up() = level+1, isRegex tests the regex alternative',
    'RT.5': 'writer/reader agreement: lookupNode inserts the child under key k with Node(k); RoutingKeyBuilder appends levels in call order behind the root level ""',
    'SH.1': 'the only erasure from m_children anywhere is erase_if with predicate isEmpty(); m_subject is never reset',
    'SH.2': 'isEmpty() truth table over (has subject, subject has subscriptions, no children): true iff no children and not (subject with subscriptions)',
    'SH.3': 'shrink: only a non-matching level returns early; recursion (all children under a regex level, find(name) under a string level) precedes the single erase_if on every path',
    'SH.4': 'exists: false / true at the leaf / any_of over all children / find(name); depth = 1 + max over children',
    'SH.5': 'hasSubscriptions() is exactly !m_observers.empty()',
    'CR.1': 'every access a ConcurrentSubjectRouter operation makes to router / subject state holds m_resource; writes hold it in write mode',
    'CR.2': 'the handle returned by subscribe() is a ConcurrentInvoker bound to the router\'s own Resource; its unsubscribe() takes a WriteLock before delegating',
    'CR.3': 'm_router / m_resource are private, there are no friends, nothing hands them out',
}

_cache = {}


def analyse(facts, rep, which):
    key = (id(facts), which)
    if key not in _cache:
        a = RouterAnalysis(facts, rep); a.run(which)
        _cache[key] = a
    return _cache[key]
