"""C13 — SubjectRouter::shrink is invisible to delivery; exists/depth stay consistent."""
import router, observer
TUS = router.TUS + ['witness/w_observer.cpp']
def run(facts, rep, tier):
    a = router.analyse(facts, rep, 'C13')
    observer.emit(facts, rep, ['SH.1', 'SH.2', 'SH.3', 'SH.4'], {'SH.1': 2, 'SH.2': 6, 'SH.3': 5, 'SH.4': 6}, text=router.RULE_TEXT, res=a.res)
    # SH.5 reads emptiness of m_observers as "no live subscription": that needs the list and the id set to change together (SUB.6)
    observer.emit(facts, rep, ['SH.5', 'SUB.6'], {'SH.5': 7, 'SUB.6': 14})
    rep.assume('SH.1+SH.2: only nodes with no live subscription at or below are removed, so deliveries are unchanged (argument in DESIGN §4 C13)')
