"""C19 — LocaleInfo::get is total, memory-safe and consistent with its tables (LO.1-LO.4)."""
from facts import Node, strip_targs
import common, guards

TUS = ['src/LocaleInfo.cpp']
LI = 'tulz::LocaleInfo'
ITER_WRITERS = {'copy': (2, 0, 1), 'fill': (0, 0, 1), 'move': (2, 0, 1)}
WRITERS = {'copy_n': (2, 1), 'fill_n': (0, 1), 'memcpy': (0, 2), 'memmove': (0, 2), 'memset': (0, 2), 'strncpy': (0, 2), 'strncat': (0, 2), 'snprintf': (0, 1)}
UNBOUNDED = {'strcpy', 'strcat', 'sprintf', 'gets', 'vsprintf'}
SIGNED = ('int', 'long', 'long long', 'short', 'char', 'signed char', 'ptrdiff_t')


def base_array(n):
    """the local array a destination pointer expression designates, with constant element offset (or None)"""
    n = guards.strip_casts(n)
    off = 0
    while n is not None and n.k == 'binop' and n.op == '+':
        c = guards.const_of(n.n('rhs'))
        if c is None: return None, None
        off += c; n = guards.strip_casts(n.n('lhs'))
    if n is not None and n.k == 'unop' and n.op == '&' and n.n('sub') is not None and n.n('sub').k == 'subscript':
        s = n.n('sub'); c = guards.const_of(s.n('idx'))
        if c is None: return None, None
        off += c; n = guards.strip_casts(s.n('base'))
    if n is not None and n.k == 'call' and strip_targs(n.calleeq or '') in ('std::begin', 'std::data', 'std::cbegin') and n.ns('args') and n.ns('args')[0] is not None:
        n = guards.strip_casts(n.ns('args')[0])
    if n is not None and n.k == 'ref' and n.dk in ('local', 'param') and '[' in (n.d.get('decltype') or n.type or ''):
        return n, off
    return None, None


def _ptr_param(n, g):
    n = guards.strip_casts(n)
    while n is not None and n.k == 'binop' and n.op == '+': n = guards.strip_casts(n.n('lhs'))
    return n is not None and n.k == 'ref' and n.dk == 'param' and '[' not in (n.type or '')


def array_len(ref):
    t = ref.d.get('decltype') or ref.type or ''
    try:
        return int(t[t.index('[') + 1:t.index(']')])
    except Exception:
        return None


def run(facts, rep, tier):
    rep.rule('LO.1', 'every write into the fixed-size local buffer (memcpy/memset/strncpy/…/subscript store) has a length bounded by a dominating comparison of the same value with a '
                     'constant that keeps it inside the array (memcpy of string data: <= size-1, the terminator the later strcmp needs), the comparison being unsigned or paired with a lower bound; '
                     'no unbounded writer (strcpy/sprintf) targets it; the values involved are not modified between guard and use')
    rep.rule('LO.2', 'at every return that is not the fallback, languageCode, country and countryCode are definitely assigned from a table entry and a language was matched (witness: the languages list '
                     'is non-empty, it is appended to exactly where languageCode is set); no field is read before it is assigned; the fallback assigns all five fields including error')
    rep.rule('LO.3', 'provenance: every pointer stored in the result is .code/.value of a table entry under the loop variable, or a fallback literal that itself occurs in the tables (English/en, United Kingdom/GB)')
    rep.rule('LO.5', 'selection: a table entry is chosen only by whole-string equality with the part (strcmp == 0, std::string / string_view ==, or strncmp / memcmp over n bytes together with a test that the entry '
                     'ends there); a bare strncmp(entry, part, n) == 0 also accepts every proper prefix of an entry and the empty part')
    rep.rule('LO.7', 'get() keeps nothing that refers to the caller\'s string: no object with static or thread storage duration is given a pointer or a view (const char*, std::string_view) derived from the parameter')
    rep.rule('LO.4', 'tables: the counts are the array sizes; no null members')
    rep.assume('strstr/strlen/strcmp/memcpy contracts of libc; the input is a NUL-terminated string')
    f = facts.fn(f'{LI}::get')
    if f is None:
        rep.anchor_missing(f'{LI}::get', 'not found'); return
    cfg = f.cfg
    pm = common.parent_map(f)
    # ---- LO.1 ----------------------------------------------------------------------------------------------------------
    # get() and every helper of LocaleInfo.cpp it reaches are scanned alike: local character arrays and parameters of type
    # reference-to-array (`char (&)[N]`) are the buffers; a raw writer whose destination is a plain pointer parameter is not followed
    scope = {}; work = [f]
    while work:
        g = work.pop()
        if g.name in scope or len(scope) > 40: continue
        scope[g.name] = g
        for n in g.nodes():
            if n.k == 'call' and n.callee_in_root:
                for t in facts.resolve(n):
                    if t.file.endswith('LocaleInfo.cpp') and t.cfg is not None: work.append(t)
    is_chararr = lambda ct: '[' in ct and ct.split('[')[0].replace('(&)', '').strip() in ('char', 'unsigned char', 'signed char')
    arrays = {}          # decl id -> function (get() and helpers)
    for g in scope.values():
        for n in g.nodes():
            if n.k == 'decl':
                for v in n.vars:
                    if is_chararr(v['ctype']): arrays[v['decl']] = g
        for p_ in g.d['params']:
            if is_chararr(p_['ctype']): arrays[p_['decl']] = g
    nw = 0
    if not arrays:
        raw = [(g, n) for g in scope.values() for n in g.nodes() if n.k == 'call' and (n.calleeq or '').split('::')[-1] in set(WRITERS) | UNBOUNDED]
        if not raw:
            rep.ok('LO.1', f'no fixed-size character buffer is declared and no raw byte writer (memcpy / strcpy / …) is called in get() or the {len(scope) - 1} helper(s) it reaches: nothing can be overrun', f.shortloc())
        else:
            rep.inconclusive('LO.1', 'raw writer', raw[0][1].shortloc(), f'{raw[0][0].name} writes raw bytes through a pointer whose extent is not a fixed-size array: the guard analysis does not apply')
    for g in scope.values():
        for n in g.nodes():
            if n.k != 'call': continue
            base = (n.calleeq or '').split('::')[-1]
            args = n.ns('args')
            if base in UNBOUNDED and args:
                arr, off = base_array(args[0])
                if arr is not None:
                    nw += 1
                    rep.violation('LO.1', f'{base}() into {arr.name}', n.shortloc(), f'{base} writes an unbounded number of bytes into {arr.name}[{array_len(arr)}]', key=f'LO.1|unbounded|{base}', fn=g.name)
                elif args[0] is not None and _ptr_param(args[0], g): rep.inconclusive('LO.1', f'{base}() in {g.name}', n.shortloc(), 'unbounded writer through a pointer parameter: what it points to is not followed')
                continue
            if base in ITER_WRITERS and (n.calleeq or '').startswith('std::') and len(args) >= 3 and all(a is not None for a in args[:3]):
                # std::copy(first, last, dest) / std::fill(first, last, value): last - first elements are written
                di, fi, la_ = ITER_WRITERS[base]
                arr, off = base_array(args[di])
                if arr is None:
                    if _ptr_param(args[di], g) and arrays: rep.inconclusive('LO.1', f'{base}() in {g.name}', n.shortloc(), 'the destination is a pointer parameter: which buffer it designates, and how large it is, is not followed into the helper')
                    continue
                nw += 1
                size = array_len(arr)
                is_fill_ = base == 'fill'
                limit = size - off - (0 if is_fill_ else 1)
                label = f'std::{base}({args[fi].text()[:20]}, {args[la_].text()[:20]}, …) into {arr.name}'
                e_arr, _ = (base_array(args[la_].ns('args')[0]) if (args[la_].k == 'call' and strip_targs(args[la_].calleeq or '') in ('std::end', 'std::cend') and args[la_].ns('args') and args[la_].ns('args')[0] is not None) else (None, None))
                if is_fill_ and e_arr is not None and e_arr.decl == arr.decl and off == 0:
                    rep.ok('LO.1', f'{label}: the whole array, {size} element(s)', n.shortloc()); continue
                ok, why = bounded(g, n, (args[la_], args[fi]), limit)
                rep.check(ok, 'LO.1', f'{label}: last - first is bounded by a dominating guard (<= {limit}, non-negative)', n.shortloc(), why, key=f'LO.1|guard|{base}|{args[la_].text()[:20]}-{args[fi].text()[:20]}', fn=g.name)
                continue
            if base not in WRITERS: continue
            di, li = WRITERS[base]
            if len(args) <= max(di, li) or args[di] is None: continue
            arr, off = base_array(args[di])
            if arr is None:
                if _ptr_param(args[di], g) and arrays: rep.inconclusive('LO.1', f'{base}() in {g.name}', n.shortloc(), 'the destination is a pointer parameter: which buffer it designates, and how large it is, is not followed into the helper')
                continue
            nw += 1
            size = array_len(arr)
            L = args[li]
            need_term = base in ('memcpy', 'memmove', 'strncpy') and not _is_fill(n)
            limit = size - off - (1 if need_term else 0)
            label = f'{base}({arr.name}{"+" + str(off) if off else ""}, …, {L.text()[:40]})' + ('' if g is f else f' in {g.name.split("::")[-1][:30]}')
            c = guards.const_of(L)
            if c is not None:
                rep.check(0 <= c <= limit, 'LO.1', f'{label}: constant length {c} <= {limit}', n.shortloc(), f'writes {c} bytes into {arr.name}[{size}] (at most {limit} allowed here)', key=f'LO.1|const|{base}|{n.line - g.line}', fn=g.name)
                continue
            ok, why = bounded(g, n, L, limit)
            if not ok and g is not f:
                # a helper: the bound may be established by its callers (every call site must do so, with the arguments it passes)
                sites = [(h, c) for h in scope.values() for c in h.nodes() if c.k == 'call' and c.callee_in_root and any(t is g for t in facts.resolve(c))]
                if sites:
                    res_ = []
                    for h, c in sites:
                        cargs = c.ns('args')
                        if c.ck == 'op' and len(cargs) == len(g.d['params']) + 1: cargs = cargs[1:]
                        subst = {p_['decl']: (cargs[i], h) for i, p_ in enumerate(g.d['params']) if i < len(cargs) and cargs[i] is not None}
                        res_.append((h, c) + bounded(h, c, L, limit, subst=subst, lfn=g))
                    bad = [r_ for r_ in res_ if not r_[2]]
                    if not bad: ok, why = True, ''; label += f' (bounded at its {len(sites)} call site(s))'
                    else: why = f'at the call at {bad[0][1].shortloc()}: ' + bad[0][3]
            rep.check(ok, 'LO.1', f'{label}: length is bounded by a dominating guard (<= {limit}, non-negative)', n.shortloc(), why, key=f'LO.1|guard|{base}|{guards.strip_casts(L).text()[:40]}', fn=g.name)
        for n in g.nodes():
            if n.k == 'binop' and n.op == '=' and n.n('lhs') is not None and n.n('lhs').k == 'subscript':
                b = guards.strip_casts(n.n('lhs').n('base'))
                if b is not None and b.k == 'ref' and b.decl in arrays:
                    nw += 1
                    idx = n.n('lhs').n('idx'); c = guards.const_of(idx); size = array_len(b)
                    if c is not None: rep.check(0 <= c < size, 'LO.1', f'{b.name}[{c}] = …', n.shortloc(), f'index {c} outside {b.name}[{size}]', key=f'LO.1|idx|{c}', fn=g.name)
                    else:
                        ok, why = bounded(g, n, idx, size - 1)
                        rep.check(ok, 'LO.1', f'{b.name}[{idx.text()[:30]}] = …: index bounded', n.shortloc(), why, key=f'LO.1|idxguard|{idx.text()[:30]}', fn=g.name)
    if arrays and len(scope) == 1: rep.floor('writes into the local buffer', nw, 3)
    elif arrays: rep.floor('writes into the buffer (get() and helpers)', nw, 1)
    # ---- LO.2 / LO.3 ---------------------------------------------------------------------------------------------------------
    infos = [v for n in f.nodes() if n.k == 'decl' for v in n.vars if v['ctype'].endswith('LocaleInfo::Info')]
    if len(infos) != 1:
        rep.anchor_missing('result variable', f'{len(infos)} local Info objects'); return
    R = infos[0]['decl']
    cls = facts.cls('tulz::LocaleInfo::Info')
    ptr_fields = [x['name'] for x in cls['fields'] if x['isptr']]
    has_init = {x['name'] for x in cls['fields'] if x.get('init')}
    ri = Node(f.tu, infos[0]['init']) if infos[0].get('init') else None
    if ri is not None and (ri.k == 'initlist' or (ri.k == 'construct' and ri.d.get('listinit'))):
        has_init = {x['name'] for x in cls['fields']}          # `Info result {};` value-initialises every member
    required = [x for x in ('languageCode', 'country', 'countryCode') if x in ptr_fields]
    if len(required) != 3: rep.anchor_missing('Info fields', 'languageCode/country/countryCode not all present')

    def res_field(n):
        return n.name if (n.k == 'member' and n.field and n.n('base') is not None and guards.strip_casts(n.n('base')).k == 'ref' and guards.strip_casts(n.n('base')).decl == R) else None

    # the result object handed to a helper by reference: the helper may assign any field (the must-assigned analysis stops being exact)
    escapes = [n for n in f.nodes() if n.k == 'call' and n.callee_in_root and n.ck != 'op' and any(a is not None and guards.strip_casts(a).k == 'ref' and guards.strip_casts(a).decl == R for a in n.ns('args'))]
    # ... or captured by reference in a local closure that is called (`auto fallback = [&result, …] { … return result; }`)
    def _closure_of_call(n):
        if not (n.k == 'call' and n.ck == 'op' and n.op == '()' and n.callee_in_root): return None
        for g in facts.resolve(n):
            if g.d.get('lambda') and g.file.endswith('LocaleInfo.cpp') and any(x.k == 'ref' and x.decl == R for x in g.nodes()): return g
        return None
    closure_calls = [n for n in f.nodes() if _closure_of_call(n) is not None]
    escapes += closure_calls

    def fallback_by_ref(call):
        """helper(result, …) that turns the object it receives by reference into the documented fallback unconditionally: every pointer
        field and `error` assigned a literal, one literal language appended, the literals being table entries.
        Returns (helper, resets_first) or None"""
        for g in facts.resolve(call):
            if not g.file.endswith('LocaleInfo.cpp') or g.cfg is None: continue
            if g.d.get('lambda') and _closure_of_call(call) is g:
                R2 = R          # the closure works on the captured result object itself
            else:
                ai = next((i for i, a in enumerate(call.ns('args')) if a is not None and guards.strip_casts(a).k == 'ref' and guards.strip_casts(a).decl == R), None)
                if ai is None or ai >= len(g.d['params']): continue
                prm = g.d['params'][ai]
                if not prm.get('isref') or prm['ctype'].startswith('const') or 'LocaleInfo::Info' not in prm['ctype']: continue
                R2 = prm['decl']
            on_param = lambda m: m is not None and m.k == 'member' and m.n('base') is not None and guards.strip_casts(m.n('base')).k == 'ref' and guards.strip_casts(m.n('base')).decl == R2
            asg = {}
            for n in g.nodes():
                if n.k == 'binop' and n.op == '=' and on_param(n.n('lhs')):
                    v = guards.strip_casts(n.n('rhs')); pos = g.cfg.position(n)
                    if pos is None or pos[0] not in g.cfg.pdom.get(g.cfg.entry, ()): continue
                    if v is not None and v.k == 'str': asg[n.n('lhs').name] = v.v
                    elif n.n('lhs').name == 'error': asg['error'] = '<expr>'
            app = [n for n in g.nodes() if n.k == 'call' and n.callee_base() in ('emplace_back', 'push_back') and on_param(n.n('object')) and n.n('object').name == 'languages']
            lname = None
            if len(app) == 1 and app[0].ns('args') and app[0].ns('args')[0] is not None:
                x = guards.strip_casts(app[0].ns('args')[0]); lname = x.v if x.k == 'str' else None
            if not (set(required) | {'error'} <= set(asg) and table_has(facts, 'languageInfo', lname, asg.get('languageCode')) and table_has(facts, 'countryInfo', asg.get('country'), asg.get('countryCode'))): continue
            resets = [n for n in g.nodes() if (n.k == 'call' and n.ck == 'op' and n.op == '=' and n.ns('args') and n.ns('args')[0] is not None and guards.strip_casts(n.ns('args')[0]).k == 'ref' and guards.strip_casts(n.ns('args')[0]).decl == R2)
                      or (n.k == 'call' and n.callee_base() == 'clear' and on_param(n.n('object')) and n.n('object').name == 'languages')]
            first = bool(resets) and all(g.cfg.dominates(resets[0], a_) for a_ in app)
            return g, first
        return None

    # escapes into a by-reference fallback helper are followed: the helper assigns every field; what matters is whether the object is clean
    BYREF = {}
    for c_ in list(escapes):
        fb = fallback_by_ref(c_)
        if fb is not None: BYREF[c_.id] = (c_,) + fb; escapes.remove(c_)
    # per CFG element: gen sets
    def gen_of(node):
        if node.k == 'binop' and node.op == '=':
            fl = res_field(node.n('lhs'))
            if fl: return {fl}
        if node.k == 'call' and node.ck == 'op' and node.op == '=' and node.ns('args') and node.ns('args')[0] is not None:
            a0 = guards.strip_casts(node.ns('args')[0])
            if a0.k == 'ref' and a0.decl == R: return set(ptr_fields) | {'@reset'}       # result = {} : value-initialises every member
        if node.k == 'call' and node.id in BYREF: return set(ptr_fields) | ({'@reset'} if BYREF[node.id][2] else set()) | {'@fallback'}
        return set()
    # must-assigned forward dataflow
    order = cfg.rpo()
    IN = {}; OUT = {}
    allf = set(ptr_fields)
    changed = True
    while changed:
        changed = False
        for b in order:
            if b == cfg.entry: inn = set(has_init)
            else:
                ps = [OUT[p] for p in cfg.preds[b] if p in OUT]
                if not ps: continue
                inn = set.intersection(*ps)
            cur = set(inn)
            for e in cfg.blocks[b].elems:
                if e.node is not None: cur |= gen_of(e.node) - {'@reset', '@fallback'}
            if IN.get(b) != inn or OUT.get(b) != cur:
                IN[b] = inn; OUT[b] = cur; changed = True

    def assigned_at(node):
        pos = cfg.position(node)
        if pos is None: return set()
        cur = set(IN.get(pos[0], set()))
        for e in cfg.blocks[pos[0]].elems[:pos[1]]:
            if e.node is not None: cur |= gen_of(e.node) - {'@reset', '@fallback'}
        return cur
    def _via_closure(ret):
        # `return fallback();` where the by-reference fallback closure returns the result object it filled in
        for x in ret.n('sub').walk():
            if x.k == 'call' and x.id in BYREF:
                g = BYREF[x.id][1]
                rs = [y for y in g.nodes() if y.k == 'return' and y.n('sub') is not None]
                if g.d.get('lambda') and rs and all(any(z.k == 'ref' and z.decl == R for z in y.n('sub').walk()) for y in rs): return True
        return False
    foreign_returns = [n for n in f.nodes() if n.k == 'return' and n.n('sub') is not None and not any(x.k == 'ref' and x.decl == R for x in n.n('sub').walk()) and not _via_closure(n)]

    def fallback_helper(ret):
        """`return helper(...)` where helper builds the documented fallback unconditionally: a fresh Info, every pointer field and
        `error` assigned a literal, the literals being table entries"""
        calls = [x for x in ret.n('sub').walk() if x.k == 'call' and x.callee_in_root]
        for c in calls:
            for g in facts.resolve(c):
                if not g.file.endswith('LocaleInfo.cpp') or g.cfg is None: continue
                loc = [v for n in g.nodes() if n.k == 'decl' for v in n.vars if v['ctype'].endswith('LocaleInfo::Info')]
                if len(loc) != 1: continue
                R2 = loc[0]['decl']
                asg = {}
                for n in g.nodes():
                    if n.k == 'binop' and n.op == '=' and n.n('lhs') is not None and n.n('lhs').k == 'member' and n.n('lhs').n('base') is not None and guards.strip_casts(n.n('lhs').n('base')).k == 'ref' and guards.strip_casts(n.n('lhs').n('base')).decl == R2:
                        v = guards.strip_casts(n.n('rhs'))
                        pos = g.cfg.position(n)
                        if v is not None and v.k == 'str' and pos is not None and pos[0] in g.cfg.pdom.get(g.cfg.entry, ()): asg[n.n('lhs').name] = v.v
                app = [n for n in g.nodes() if n.k == 'call' and n.callee_base() in ('emplace_back', 'push_back') and n.n('object') is not None and n.n('object').k == 'member' and n.n('object').name == 'languages']
                lname = None
                if len(app) == 1 and app[0].ns('args') and app[0].ns('args')[0] is not None:
                    x = guards.strip_casts(app[0].ns('args')[0]); lname = x.v if x.k == 'str' else None
                if set(required) | {'error'} <= set(asg) and table_has(facts, 'languageInfo', lname, asg.get('languageCode')) and table_has(facts, 'countryInfo', asg.get('country'), asg.get('countryCode')):
                    return g
        return None
    fb_helpers = [(r_, fallback_helper(r_)) for r_ in foreign_returns]
    for r_, g_ in fb_helpers:
        if g_ is not None:
            rep.ok('LO.2', f'return at line {r_.line} delivers {g_.name.split("::")[-1]}(): a fresh Info with languageCode, country, countryCode and error set to literals that are table entries (the fallback)', r_.shortloc())
    n_helper_fallbacks = sum(1 for r_, g_ in fb_helpers if g_ is not None)
    foreign_returns = [r_ for r_, g_ in fb_helpers if g_ is None]
    exact = not escapes and not foreign_returns
    if not exact:
        rep.inconclusive('LO.2', 'result object', (escapes or foreign_returns)[0].shortloc(), ('the result is filled in by a helper that receives it by reference' if escapes else 'some returns deliver the result of a helper instead of the local result object') + ': definite assignment is not followed through helpers')
    # witness: `languages` is appended exactly where languageCode is set
    appends = [n for n in f.nodes() if n.k == 'call' and n.callee_base() in ('emplace_back', 'push_back', 'emplace_front', 'push_front') and n.n('object') is not None and res_field(n.n('object')) == 'languages']
    lc_sets = [n for n in f.nodes() if n.k == 'binop' and n.op == '=' and res_field(n.n('lhs')) == 'languageCode']
    paired = bool(appends)
    for a in appends:
        pa = cfg.position(a)
        same_block = [s for s in lc_sets if cfg.position(s.n('lhs')) is not None and cfg.position(s.n('lhs'))[0] == pa[0]] if pa else []
        if not same_block: paired = False
    if appends or exact:
        rep.check(paired, 'LO.2', f'languages is appended to only together with an assignment of languageCode ({len(appends)} sites)', appends[0].shortloc() if appends else f.shortloc(),
                  'the languages list is not a witness of languageCode any more', key='LO.2|witness-pairing', fn=f.name)
    def has_witness(at):
        """a dominating guard says the languages list is not empty, evaluated after the last append that can reach `at`: a language was
        matched, so languageCode was assigned with it (witness pairing)"""
        for atom, pol in guards.known_at(f, at):
            a = guards.strip_casts(atom)
            if a.k == 'call' and a.callee_base() == 'empty' and a.n('object') is not None and res_field(a.n('object')) == 'languages' and pol is False:
                if all(not (cfg.reaches(a, ap) and cfg.reaches(ap, at)) for ap in appends) and not any('@reset' in gen_of(x) and cfg.reaches(a, x) and cfg.reaches(x, at) for x in f.nodes()): return True
            if a.k == 'ref' and a.dk == 'local' and pol is True:
                # `const bool languageFound = !result.languages.empty();`
                i_ = guards.single_assignment_init(f, a.decl)
                if i_ is not None:
                    for a2, p2 in guards.expand(f, i_, True):
                        a2 = guards.strip_casts(a2)
                        if a2.k == 'call' and a2.callee_base() == 'empty' and a2.n('object') is not None and res_field(a2.n('object')) == 'languages' and p2 is False:
                            if all(not (cfg.reaches(a2, ap) and cfg.reaches(ap, at)) for ap in appends): return True
        return False
    # reads of result fields before assignment
    for n in f.nodes():
        fl = res_field(n) if n.k == 'member' else None
        if fl in ptr_fields:
            par = pm.get(n.id)
            is_write = par is not None and par.k == 'binop' and par.op == '=' and par.n('lhs') is not None and par.n('lhs').id == n.id
            if is_write: continue
            if fl not in assigned_at(n):
                if fl == 'languageCode' and paired and has_witness(n): continue          # assigned together with the (non-empty) languages list
                rep.violation('LO.2', f'result.{fl} is read before it is assigned', n.shortloc(),
                              f'`{(par or n).text()[:60]}` reads {fl}, which has no default initialiser and is not assigned on every path to this point: the value is indeterminate (whatever the caller\'s storage held), so the test decides nothing',
                              key=f'LO.2|uninit-read|{fl}', fn=f.name)
    rets = [n for n in f.nodes() if n.k == 'return' and n.n('sub') is not None and (any(x.k == 'ref' and x.decl == R for x in n.n('sub').walk()) or _via_closure(n))]
    if exact: rep.floor('return statements', len(rets) + n_helper_fallbacks, 2)
    nfall = 0
    for r in rets:
        asg = assigned_at(r)
        known = guards.known_at(f, r)
        # fallback = dominated by a reset of the whole object
        inside = {x.id for x in r.n('sub').walk()}
        via = [v_ for v_ in BYREF.values() if v_[0].id in inside] or [v_ for v_ in BYREF.values() if cfg.dominates(v_[0], r)]
        if via:
            c_, g_, helper_resets = via[-1]
            nfall += 1
            own_resets = [n for n in f.nodes() if '@reset' in gen_of(n) and n.id not in BYREF and cfg.dominates(n, c_)]
            dirty = [ap for ap in appends if cfg.reaches(ap, c_) and not any(cfg.reaches(ap, x) and cfg.reaches(x, c_) and cfg.dominates(x, c_) for x in own_resets)]
            # a guard that says the list is (still) empty at this exit: nothing was left behind on the paths that get here
            def _says_empty(a, pol):
                a = guards.strip_casts(a)
                return pol and a is not None and a.k == 'call' and a.callee_base() == 'empty' and a.n('object') is not None and res_field(guards.strip_casts(a.n('object'))) == 'languages'
            if dirty and any(_says_empty(a, pol) for a, pol in guards.known_at(f, r)): dirty = []
            clean = helper_resets or not dirty
            rep.check(clean, 'LO.2', f'fallback return through {g_.name.split("::")[-1]}(result, …): the helper assigns languageCode, country, countryCode and error from table literals, on an object that holds nothing from the failed lookup', r.shortloc(),
                      f'{g_.name.split("::")[-1]}() appends the fallback language to whatever the failed lookup left behind: neither it nor get() resets the result after the append at {dirty[0].shortloc() if dirty else "?"} (a known language with an unknown country returns that language\'s names *and* "English" under the code "en")',
                      key='LO.2|fallback-dirty', fn=f.name)
            continue
        resets = [n for n in f.nodes() if '@reset' in gen_of(n) and cfg.dominates(n, r)]
        if resets:
            nfall += 1
            after = {fl for n in f.nodes() if n.k == 'binop' and n.op == '=' and (fl := res_field(n.n('lhs'))) and cfg.dominates(resets[-1], n) and cfg.dominates(n, r)}
            ok = set(required) <= after and 'error' in after
            rep.check(ok, 'LO.2', f'fallback return: all of {required + ["error"]} are assigned after the reset', r.shortloc(), f'only {sorted(after)} assigned on the fallback path', key='LO.2|fallback', fn=f.name)
            lits = {}
            for n in f.nodes():
                if n.k == 'binop' and n.op == '=' and res_field(n.n('lhs')) in required and cfg.dominates(resets[-1], n):
                    v = guards.strip_casts(n.n('rhs'))
                    if v is not None and v.k == 'str': lits[res_field(n.n('lhs'))] = v.v
            lang_lit = [a for a in appends if cfg.dominates(resets[-1], a)]
            lname = None
            if lang_lit and lang_lit[0].ns('args') and lang_lit[0].ns('args')[0] is not None:
                x = guards.strip_casts(lang_lit[0].ns('args')[0]); lname = x.v if x.k == 'str' else None
            ok3 = table_has(facts, 'languageInfo', lname, lits.get('languageCode')) and table_has(facts, 'countryInfo', lits.get('country'), lits.get('countryCode'))
            rep.check(ok3, 'LO.3', f'fallback literals ({lname}/{lits.get("languageCode")}, {lits.get("country")}/{lits.get("countryCode")}) occur in the tables', r.shortloc(),
                      'the fallback returns strings that are not table entries', key='LO.3|fallback-literals', fn=f.name)
            continue
        missing = [x for x in required if x not in asg]
        if 'error' in ptr_fields and 'error' not in asg:
            rep.violation('LO.2', f'return at line {r.line}: `error` has a determinate value (null unless the fallback was taken)', r.shortloc(),
                          'the Info member `error` has no default member initialiser and is not assigned on the way to this return: callers test it to tell a resolved locale from the fallback and read an indeterminate pointer', key='LO.2|error-uninit', fn=f.name)
        elif 'error' in ptr_fields: rep.ok('LO.2', f'return at line {r.line}: `error` has a determinate value', r.shortloc())
        witness = False
        if 'languageCode' in missing and paired:
            for atom, pol in known:
                a = guards.strip_casts(atom)
                if a.k == 'call' and a.callee_base() == 'empty' and a.n('object') is not None and res_field(a.n('object')) == 'languages' and pol is False:
                    # evaluated after the last append that can reach this return
                    if all(not (cfg.reaches(a, ap) and cfg.reaches(ap, r)) for ap in appends) and not any('@reset' in gen_of(x) and cfg.reaches(a, x) and cfg.reaches(x, r) for x in f.nodes()): witness = True
            if witness: missing.remove('languageCode')
        if missing and not exact:
            rep.inconclusive('LO.2', f'return at line {r.line}', r.shortloc(), f'{missing} not assigned in get() itself (a helper may assign them)'); continue
        rep.check(not missing, 'LO.2', f'return at line {r.line}: languageCode/country/countryCode assigned (languageCode via the non-empty languages witness: {witness})', r.shortloc(),
                  f'{missing} may be unassigned at this return: for an unknown language with a known country the caller receives an indeterminate pointer and no error', key=f'LO.2|return|{",".join(missing)}', fn=f.name)
    nfall += n_helper_fallbacks
    if nfall >= 1 or exact: rep.check(nfall >= 1, 'LO.2', 'a fallback return exists', f.shortloc(), 'no fallback path', key='LO.2|nofallback', fn=f.name)
    _selection_rules(facts, rep, f)
    rep.rule('LO.8', 'a binary search over languageInfo / countryInfo is applied only to a column in which the table is ordered byte-wise (the order strcmp and std::string_view use), read off the table\'s initialiser')
    _sorted_search_rules(facts, rep, f)
    _terminator_rules(facts, rep, f)
    _retention_rules(facts, rep, f)
    # LO.3: table provenance of the non-fallback assignments
    loops = [n for n in f.nodes() if n.k == 'rangefor']
    loopvars = {l.var['decl']: (l.n('range').qname or l.n('range').name if l.n('range') is not None and l.n('range').k == 'ref' else None) for l in loops}
    # `const LanguageInfo &inf = languageInfo[i];` (an index loop): a reference local bound to an element of a table
    for n in f.nodes():
        if n.k != 'decl': continue
        for v_ in n.vars:
            if not v_.get('isref') or not v_.get('init'): continue
            i0 = guards.strip_casts(Node(f.tu, v_['init']))
            if i0 is not None and i0.k == 'subscript':
                b0 = guards.strip_casts(i0.n('base'))
                if b0 is not None and b0.k == 'ref' and (b0.qname or b0.name or '').split('::')[-1] in ('languageInfo', 'countryInfo'): loopvars[v_['decl']] = (b0.qname or b0.name)
    for n in f.nodes():
        if n.k == 'binop' and n.op == '=' and res_field(n.n('lhs')) in required:
            v = guards.strip_casts(n.n('rhs'))
            if v is not None and v.k == 'str': continue
            if v is not None and v.k == 'ref' and v.dk == 'binding' and v.binding and v.binding in v.tu.ex:
                v = guards.strip_casts(Node(v.tu, v.binding))          # a structured binding over a table entry names one of its members
            ok = v is not None and v.k == 'member' and v.name in ('code', 'value') and v.n('base') is not None and v.n('base').k == 'ref' and loopvars.get(v.n('base').decl)
            fl = res_field(n.n('lhs'))
            want_tbl = 'languageInfo' if fl == 'languageCode' else 'countryInfo'
            want_mem = 'value' if fl == 'country' else 'code'
            if not ok and v is not None and v.k == 'member' and v.name == want_mem and v.n('base') is not None:
                # an iterator / pointer obtained by searching the table itself: std::find_if(std::begin(T), std::end(T), ...)
                b_ = guards.strip_casts(v.n('base'))
                while b_ is not None and b_.k == 'call' and b_.ck == 'op' and b_.op in ('*', '->') and b_.ns('args'): b_ = guards.strip_casts(b_.ns('args')[0])
                init_ = guards.single_assignment_init(f, b_.decl) if (b_ is not None and b_.k == 'ref' and b_.dk == 'local') else None
                tbl_ok = False
                if init_ is not None:
                    for c_ in init_.walk():
                        if c_.k == 'call' and strip_targs(c_.calleeq or '') in ('std::find_if', 'std::find', 'std::lower_bound', 'std::find_if_not') and c_.ns('args') and c_.ns('args')[0] is not None:
                            refs_ = [x for x in c_.ns('args')[0].walk() if x.k == 'ref' and (x.qname or x.name or '').endswith(want_tbl)]
                            if refs_: tbl_ok = True
                if tbl_ok:
                    rep.ok('LO.3', f'result.{fl} = {v.text()[:30]} is the {want_mem} of the {want_tbl} entry found by a search over that table', n.shortloc()); continue
            if not ok and v is not None and v.k == 'member' and v.name == want_mem:
                rep.inconclusive('LO.3', f'result.{fl} = {v.text()[:30]}', n.shortloc(), f'`{v.text()[:30]}` is not a member of a range-for variable over a table: its origin is not followed'); continue
            if not ok and v is not None:
                # not an entry member: refuted when it is (a pointer into) storage of this call - the scratch buffer, a local, the parameter -,
                # otherwise (a member of some other object: a memo, a static) its origin is not followed
                root_ = v
                while root_ is not None and root_.k in ('member', 'subscript', 'unop', 'cast') and (root_.n('base') is not None or root_.n('sub') is not None):
                    root_ = guards.strip_casts(root_.n('base') if root_.n('base') is not None else root_.n('sub'))
                local_storage = root_ is not None and root_.k == 'ref' and root_.dk in ('local', 'param') and not (root_.d.get('storage') in ('static', 'thread_local') or 'static' in (root_.d.get('sc') or ''))
                is_static = root_ is not None and root_.k == 'ref' and (root_.dk in ('global', 'static') or root_.d.get('storage') in ('static', 'thread_local'))
                if True:
                    if not (root_ is not None and root_.k == 'ref' and root_.dk in ('local', 'param') and v.k in ('ref', 'subscript', 'unop')):
                        rep.inconclusive('LO.3', f'result.{fl} = {v.text()[:30]}', n.shortloc(), f'`{v.text()[:30]}` is neither a member of a table entry nor storage of this call: its origin is not followed'); continue
            ok = bool(ok) and loopvars[v.n('base').decl].endswith(want_tbl) and v.name == want_mem
            rep.check(ok, 'LO.3', f'result.{fl} = {v.text()[:30] if v is not None else "?"} is the {want_mem} of a {want_tbl} entry', n.shortloc(), f'{fl} is taken from {v.text()[:40] if v is not None else "?"}', key=f'LO.3|prov|{fl}', fn=f.name)
    for a in appends:
        x = guards.strip_casts(a.ns('args')[0]) if a.ns('args') and a.ns('args')[0] is not None else None
        if x is not None and x.k == 'str': continue
        if x is not None and x.k == 'ref' and x.dk == 'binding' and x.binding and x.binding in x.tu.ex: x = guards.strip_casts(Node(x.tu, x.binding))
        ok = x is not None and x.k == 'member' and x.name == 'value' and x.n('base') is not None and x.n('base').k == 'ref' and (loopvars.get(x.n('base').decl) or '').endswith('languageInfo')
        if not ok and x is not None and x.k == 'member' and x.name == 'value':
            rep.inconclusive('LO.3', 'languages entries are names of languageInfo entries', a.shortloc(), f'`{x.text()[:30]}` is not a member of a range-for variable over the table: its origin is not followed'); continue
        rep.check(ok, 'LO.3', 'languages entries are names of languageInfo entries', a.shortloc(), f'appends {x.text()[:40] if x is not None else "?"}', key='LO.3|prov|languages', fn=f.name)
    # ---- LO.4 ----------------------------------------------------------------------------------------------------------------
    for tbl, cnt in (('languageInfo', 'languagesCount'), ('countryInfo', 'countiesCount')):
        g = facts.globals.get(f'{LI}::{tbl}'); c = facts.globals.get(f'{LI}::{cnt}')
        if g is None or c is None:
            rep.anchor_missing(f'{LI}::{tbl}', 'table / count not found'); continue
        size = g.get('array_size')
        cv = Node(c['_tu'], c['init']).d.get('const') if c.get('init') else None
        rep.check(cv == size and size, 'LO.4', f'{cnt} == number of {tbl} entries ({size})', g['loc'], f'{cnt} is {cv}, the table has {size} entries', key=f'LO.4|count|{tbl}')
        init = Node(g['_tu'], g['init'])
        entries = [e for e in init.ns('args') if e is not None]
        nulls = [e for e in entries if not all(x is not None and guards.strip_casts(x).k == 'str' for x in e.ns('args'))] if entries else [1]
        rep.check(not nulls and len(entries) == size, 'LO.4', f'{tbl}: {len(entries)} entries, every member a string literal', g['loc'], 'a table entry has a null / non-literal member (strcmp on it crashes)', key=f'LO.4|nulls|{tbl}')


def _is_fill(n): return False


def _sorted_search_rules(facts, rep, f):
    """LO.8: a binary search (lower_bound / upper_bound / equal_range / binary_search) over one of the constant tables presupposes
    that the table is ordered by what the comparator compares, in the comparator's own order.  The tables are constants of the
    source: their order is read off the initialiser (byte-wise, as strcmp / std::string_view compare)."""
    scope = [f] + [g for g in facts.fns if g.file.endswith('LocaleInfo.cpp') and g is not f]
    n_ = 0
    for g in scope:
        for c in g.nodes():
            if c.k != 'call' or strip_targs(c.calleeq or '').split('::')[-1].replace('__', '').replace('_fn', '') not in ('lower_bound', 'upper_bound', 'equal_range', 'binary_search') or not (c.calleeq or '').startswith('std::'): continue
            args = [a for a in c.ns('args') if a is not None]
            tbls = {(x.qname or x.name or '').split('::')[-1] for a in args[:3] for x in a.walk() if x.k == 'ref' and (x.qname or x.name or '').split('::')[-1] in ('languageInfo', 'countryInfo')}
            # iterators kept in locals: `first = std::begin(countryInfo)`
            for a in args[:2]:
                a0 = guards.strip_casts(a)
                if a0 is not None and a0.k == 'ref' and a0.dk == 'local':
                    i_ = guards.single_assignment_init(g, a0.decl)
                    if i_ is not None: tbls |= {(x.qname or x.name or '').split('::')[-1] for x in i_.walk() if x.k == 'ref' and (x.qname or x.name or '').split('::')[-1] in ('languageInfo', 'countryInfo')}
            if len(tbls) != 1: continue
            tbl = next(iter(tbls)); n_ += 1
            inst = f'{g.name.split("::")[-1]}: {strip_targs(c.calleeq).split("::")[-1]} over {tbl} searches a column that is sorted'
            # which member does the comparator order by?
            lam = next((a for a in args if a.k == 'lambda'), None)
            lf = facts.lambda_fn(lam) if lam is not None else None
            members = sorted({x.name for x in lf.nodes() if x.k == 'member' and x.field and x.name in ('code', 'value')}) if lf is not None else []
            if len(members) != 1:
                rep.inconclusive('LO.8', inst, c.shortloc(), 'the comparator (which column it orders by) was not recognised'); continue
            col = members[0]
            gl = facts.globals.get(f'{LI}::{tbl}')
            if gl is None: rep.inconclusive('LO.8', inst, c.shortloc(), f'table {tbl} not found'); continue
            rows = []
            for e in Node(gl['_tu'], gl['init']).ns('args'):
                if e is None: continue
                vals = [guards.strip_casts(x).v for x in e.ns('args') if x is not None and guards.strip_casts(x).k == 'str']
                if len(vals) == 2: rows.append(vals)
            fields = [x['name'] for x in (facts.cls(strip_targs(gl.get('elemtype') or '')) or {}).get('fields', [])] or ['value', 'code']
            ci = fields.index(col) if col in fields else (0 if col == 'value' else 1)
            keys = [r[ci].encode('utf-8', 'surrogateescape') if isinstance(r[ci], str) else bytes(r[ci]) for r in rows]
            bad = next((i for i in range(len(keys) - 1) if keys[i] > keys[i + 1]), None)
            if bad is None: rep.ok('LO.8', inst + f' ({len(rows)} entries, ordered by `{col}` byte-wise)', c.shortloc())
            else:
                rep.violation('LO.8', inst, c.shortloc(), f'{tbl} is not ordered by `{col}` under strcmp: entry {bad} "{rows[bad][ci]}" is followed by "{rows[bad + 1][ci]}" (bytes above 0x7F and upper / lower case sort differently from the alphabetical order a reader sees); '
                              f'the bisection skips entries that are present: a locale that names them gets the fallback instead of its table entry', key=f'LO.8|unsorted|{tbl}|{col}', fn=g.name)
    return n_


def table_has(facts, tbl, value, code):
    g = facts.globals.get(f'{LI}::{tbl}')
    if g is None or value is None or code is None: return False
    init = Node(g['_tu'], g['init'])
    for e in init.ns('args'):
        if e is None: continue
        vals = [guards.strip_casts(x).v for x in e.ns('args') if x is not None and guards.strip_casts(x).k == 'str']
        if vals == [value, code]: return True
    return False


def _linform(n, fn, subst=None, depth=0):
    """linear form of an integer / pointer expression over leaf variables: ({key: coefficient}, constant) or None.
    Casts are dropped, single-assignment locals are expanded to their initialiser, parameters in `subst` are replaced by the
    argument expression of the call site (evaluated in the caller)."""
    n = guards.strip_casts(n)
    while n is not None and n.k == 'paren' and n.n('sub') is not None: n = guards.strip_casts(n.n('sub'))
    if n is None or depth > 8: return None
    c = guards.const_of(n)
    if c is not None and n.k != 'ref': return ({}, c)
    if n.k == 'ref':
        if subst and n.decl in subst:
            a, afn = subst[n.decl]
            return _linform(a, afn, None, depth + 1)
        if n.dk == 'local':
            init = guards.single_assignment_init(fn, n.decl)
            if init is not None:
                r = _linform(init, fn, subst, depth + 1)
                if r is not None: return r
        if c is not None: return ({}, c)
        return ({('v', fn.tu.name, n.decl): 1}, 0)
    if n.k == 'binop' and n.op in ('+', '-'):
        l, r = _linform(n.n('lhs'), fn, subst, depth + 1), _linform(n.n('rhs'), fn, subst, depth + 1)
        if l is None or r is None: return None
        sg = 1 if n.op == '+' else -1
        t = dict(l[0])
        for k, v in r[0].items():
            t[k] = t.get(k, 0) + sg * v
            if t[k] == 0: del t[k]
        return (t, l[1] + sg * r[1])
    if n.k == 'unop' and n.op == '-':
        r = _linform(n.n('sub'), fn, subst, depth + 1)
        return None if r is None else ({k: -v for k, v in r[0].items()}, -r[1])
    return ({('e', n.text()[:60]): 1}, 0)            # an opaque leaf (strlen(x), a member, …)


def bounded(f, use, L, limit, subst=None, lfn=None):
    """is `L` (length / index expression) proven to lie in [0, limit] by the guards that dominate `use` in `f`?
    `L` is written in function `lfn` (default f); with `subst` (parameter decl -> (argument, caller)) the guards are those of the caller
    at the call site `use`.  Guards and length are compared as linear forms, so `dotDelim - (delim + 1)` meets `dotDelim - delim - 1`."""
    lfn = lfn or f
    if isinstance(L, tuple):
        # an iterator pair: the length is last - first
        l1, l0 = _linform(L[0], lfn, subst), _linform(L[1], lfn, subst)
        class _Txt:
            def __init__(s_, t): s_._t = t; s_.type = 'ptrdiff_t'
            def text(s_): return s_._t
        Ls = _Txt(f'{guards.strip_casts(L[0]).text()[:24]} - {guards.strip_casts(L[1]).text()[:24]}')
        if l1 is None or l0 is None: return False, f'`{Ls.text()[:50]}` is not a linear expression the guard analysis follows'
        D_ = dict(l1[0])
        for k_, v_ in l0[0].items():
            D_[k_] = D_.get(k_, 0) - v_
            if D_[k_] == 0: del D_[k_]
        target = (D_, l1[1] - l0[1]); L = Ls
    else:
        Ls = guards.strip_casts(L)
        target = _linform(L, lfn, subst)
    if target is None: return False, f'`{Ls.text()[:50]}` is not a linear expression the guard analysis follows'
    norm = lambda t: (t or '').replace('const ', '').replace('volatile ', '').strip()
    signed_len = norm(L.type) in SIGNED or norm(Ls.type) in SIGNED
    upper = None; lower = False; why = []
    if not target[0]:
        return (0 <= target[1] <= limit), f'constant length {target[1]} (at most {limit} allowed)'
    FLIP_ = {'<': '>', '>': '<', '<=': '>=', '>=': '<=', '==': '==', '!=': '!='}
    for atom, pol in guards.known_at(f, use):
        a = guards.strip_casts(atom)
        if a.k != 'binop' or a.op not in ('<', '<=', '>', '>=', '==', '!='): continue
        op = a.op
        if not pol: op = {'<': '>=', '<=': '>', '>': '<=', '>=': '<', '==': '!=', '!=': '=='}[op]
        la, lb = _linform(a.n('lhs'), f), _linform(a.n('rhs'), f)
        if la is None or lb is None: continue
        D = dict(la[0])
        for k, v in lb[0].items():
            D[k] = D.get(k, 0) - v
            if D[k] == 0: del D[k]
        dc = la[1] - lb[1]
        # D + dc  op  0 ;  is D == +target or D == -target (up to the constant)?
        for sgn in (1, -1):
            if D != {k: sgn * v for k, v in target[0].items()}: continue
            # sgn*t' + dc op 0 where t' = target - target_const  =>  sgn*target + (dc - sgn*target_const) op 0
            k0 = dc - sgn * target[1]
            o = op if sgn == 1 else FLIP_[op]
            kk = k0 if sgn == 1 else -k0            # target + kk  o  0   (after dividing by sgn)
            unsigned_cmp = not (a.d.get('lhs_signed') and a.d.get('rhs_signed')) and not (a.d.get('lhs_signed') is True and lb[0] == {}) if ('lhs_signed' in a.d or 'rhs_signed' in a.d) else False
            if o in ('<', '<='):
                ub = -kk - 1 if o == '<' else -kk
                if not _unchanged(f, atom, use, a): why.append('a value of the guard is modified between the guard and the write'); continue
                if upper is None or ub < upper: upper = ub
                if unsigned_cmp and not lb[0] and sgn == 1: lower = True          # (size_t)x < C with x the length itself
                if not (a.d.get('lhs_signed')) and not lb[0] and sgn == 1: lower = True
            if o in ('>', '>='):
                lbv = -kk + 1 if o == '>' else -kk
                if lbv >= 0: lower = True
            if o == '==' and -kk >= 0:
                if upper is None or -kk < upper: upper = -kk
                lower = True
    if not signed_len: lower = True
    if upper is None:
        return False, f'no dominating guard compares `{Ls.text()[:50]}` with a constant: the length is unbounded (and may be negative, i.e. huge as size_t)' + (f' [{"; ".join(why)}]' if why else '')
    if upper > limit:
        return False, f'the guard only ensures `{Ls.text()[:40]}` <= {upper}, but at most {limit} bytes fit here (the buffer must keep its terminating NUL for the following strcmp)'
    if not lower:
        return False, f'`{Ls.text()[:40]}` is a signed quantity compared as signed with no lower bound: a negative difference (e.g. the "." before the "_") passes the guard and becomes a huge size_t in the write'
    return True, ''


def _difference(n):
    """n = hi - lo [- k]: returns (hi, lo, k)"""
    k = 0
    while n.k == 'binop' and n.op == '-' and guards.const_of(n.n('rhs')) is not None:
        k += guards.const_of(n.n('rhs')); n = guards.strip_casts(n.n('lhs'))
    if n.k == 'binop' and n.op == '-':
        return guards.strip_casts(n.n('lhs')), guards.strip_casts(n.n('rhs')), k
    return None, None, 0


def _unchanged(f, guard, use, expr):
    """no variable of expr is assigned on a path from the guard to the use"""
    vs = guards.vars_in(expr)
    for n in f.nodes():
        tgt = None
        if n.k == 'binop' and n.op in ('=', '+=', '-=') and n.n('lhs') is not None and n.n('lhs').k == 'ref': tgt = n.n('lhs')
        if n.k == 'unop' and n.op in ('++', '--') and n.n('sub') is not None and n.n('sub').k == 'ref': tgt = n.n('sub')
        if tgt is not None and tgt.decl in vs:
            if f.cfg.reaches(guard, n) and f.cfg.reaches(n, use): return False
    return True


def _selection_rules(facts, rep, f):
    """LO.5: classify every branch condition of get() that looks at a table entry (`x.code` / `x.value` of a loop variable over the tables)"""
    sc = guards.strip_casts
    loopvars = {l.var['decl'] for l in f.nodes() if l.k == 'rangefor' and l.var}
    for l in f.nodes():
        if l.k == 'for' and l.n('init') is not None and l.n('init').k == 'decl':
            for v in l.n('init').vars: loopvars.add(v['decl'])

    def strip(x):
        while x is not None and x.k in ('cast', 'paren', 'materialize', 'bindtemp') and x.n('sub') is not None: x = x.n('sub')
        return x

    def mentions_entry(x, entryp, fn=None, depth=0):
        for y in x.walk():
            if entryp(y): return True
            if fn is not None and depth < 3 and y.k == 'ref' and y.dk == 'local' and (y.type or '').replace('const ', '') == 'bool':
                init = guards.single_assignment_init(fn, y.decl)
                if init is not None and mentions_entry(init, entryp, fn, depth + 1): return True
        return False

    def is_zero(x):
        x = strip(x)
        return x is not None and x.k in ('int', 'char') and x.v == 0

    def classify(e, fn, entryp, depth=0, neg=False):
        """what the condition `e` (or, with neg, its negation) says about a table entry:
        ('eq',) | ('prefix', x, n, site) | ('term', x, n) | ('other',) | ('unknown', why)"""
        e = strip(e)
        if e is None or depth > 6: return ('unknown', 'expression too deep')
        if not mentions_entry(e, entryp, fn) and not (e.k == 'call' and e.callee_in_root): return ('other',)
        CMP = ('strcmp', 'strncmp', 'memcmp', 'strcoll')
        if e.k == 'binop' and e.op in ('&&', '||'):
            eff = e.op if not neg else ('||' if e.op == '&&' else '&&')          # De Morgan
            parts = []
            def flat(x):
                x = strip(x)
                if x is not None and x.k == 'binop' and x.op == e.op: flat(x.n('lhs')); flat(x.n('rhs'))
                else: parts.append(classify(x, fn, entryp, depth + 1, neg))
            flat(e)
            rel = [p_ for p_ in parts if p_[0] != 'other']
            if not rel: return ('other',)
            if eff == '||':
                for p_ in rel:
                    if p_[0] == 'prefix': return p_
                if any(p_[0] in ('unknown', 'term') for p_ in rel): return ('unknown', 'a disjunct is not a recognised comparison')
                return ('eq',)
            if any(p_[0] == 'eq' for p_ in rel): return ('eq',)
            pre = [p_ for p_ in rel if p_[0] == 'prefix']; terms = [p_ for p_ in rel if p_[0] == 'term']
            if pre:
                if all(any(guards.same_expr(t_[1], p_[1]) and guards.same_expr(t_[2], p_[2]) for t_ in terms) for p_ in pre): return ('eq',)
                if any(p_[0] == 'unknown' for p_ in rel) or terms: return ('unknown', 'strncmp next to a test that is not recognised as the end-of-entry test')
                return pre[0]
            return ('unknown', 'no comparison recognised in the conjunction')
        if e.k == 'unop' and e.op == '!':
            sub = strip(e.n('sub'))
            if sub is not None and sub.k == 'call' and (sub.calleeq or '').split('::')[-1] in CMP:
                return cmp_call(sub, fn) if not neg else ('unknown', 'an inequality')
            if sub is not None and sub.k == 'subscript': return ('term', sub.n('base'), sub.n('idx')) if not neg else ('unknown', 'an inequality')
            return classify(sub, fn, entryp, depth + 1, not neg)
        if e.k == 'binop' and e.op in ('==', '!='):
            positive = (e.op == '==') != neg          # does this atom, in the polarity asked for, state an equality?
            l, r = strip(e.n('lhs')), strip(e.n('rhs'))
            if is_zero(l): l, r = r, l
            if is_zero(r) and l is not None:
                if l.k == 'call' and (l.calleeq or '').split('::')[-1] in CMP: return cmp_call(l, fn) if positive else ('unknown', 'an inequality')
                if l.k == 'subscript': return ('term', l.n('base'), l.n('idx')) if positive else ('unknown', 'an inequality')
                if l.k == 'call' and l.callee_base() == 'compare' and (l.mclass or '').startswith(('std::basic_string', 'std::basic_string_view')): return ('eq',) if positive else ('unknown', 'an inequality')
            for a_, b_ in ((l, r), (r, l)):
                if a_ is not None and a_.k == 'call' and (a_.calleeq or '').split('::')[-1] == 'strlen' and a_.ns('args'): return ('term', a_.ns('args')[0], b_) if positive else ('unknown', 'an inequality')
            # `it != std::end(table)` with it = std::find_if(begin, end, pred): the entry was selected by pred
            for a_, b_ in ((l, r), (r, l)):
                if a_ is None or b_ is None or not (a_.k == 'ref' and a_.dk == 'local'): continue
                init = guards.single_assignment_init(fn, a_.decl)
                if init is None: continue
                srch = next((x for x in init.walk() if x.k == 'call' and strip_targs(x.calleeq or '').split('::')[-1].replace('__', '').replace('_fn', '') in ('find_if', 'find_if_not', 'operator()') and 'find_if' in (x.calleeq or '')), None)
                is_end = b_.k == 'call' and (strip_targs(b_.calleeq or '') in ('std::end', 'std::cend') or b_.callee_base() in ('end', 'cend'))
                if srch is None or not is_end: continue
                lam = next((x for x in srch.ns('args') if x is not None and strip(x).k == 'lambda'), None)
                lf = facts.lambda_fn(strip(lam)) if lam is not None else None
                if lf is None or not lf.d['params']: return ('unknown', 'the predicate of the search is not a lambda written here')
                rets = [n for n in lf.nodes() if n.k == 'return']
                if len(rets) != 1: return ('unknown', 'the predicate of the search has several returns')
                val = rets[0].n('value') if rets[0].n('value') is not None else rets[0].n('sub')
                pd = lf.d['params'][0]['decl']
                found = (e.op == '!=') != neg
                if 'find_if_not' in (srch.calleeq or ''): found = not found
                return classify(val, lf, lambda y, _pd=pd: (y.k == 'ref' and y.decl == _pd) or (y.k == 'member' and y.name in ('code', 'value') and y.n('base') is not None and strip(y.n('base')) is not None and strip(y.n('base')).k == 'ref' and strip(y.n('base')).decl == _pd), depth + 1, not found)
            return ('unknown', f'`{e.text()[:50]}`')
        if e.k == 'call':
            q = e.calleeq or ''
            if e.ck == 'op' and e.op in ('==', '!=') and ('basic_string' in q or 'basic_string_view' in q or any('basic_string' in (a.d.get('type') or '') for a in e.ns('args') if a is not None)):
                return ('eq',) if ((e.op == '==') != neg) else ('unknown', 'an inequality')
            if q.startswith('std::operator=='): return ('eq',) if not neg else ('unknown', 'an inequality')
            if q.startswith('std::operator!='): return ('eq',) if neg else ('unknown', 'an inequality')
            if e.callee_in_root:
                ts = [t for t in facts.resolve(e) if t.cfg is not None]
                if len(ts) == 1:
                    g = ts[0]
                    rets = [n for n in g.nodes() if n.k == 'return']
                    if len(rets) == 1:
                        val = rets[0].n('value') if rets[0].n('value') is not None else rets[0].n('sub')
                        # which parameters receive a table entry?
                        args = e.ns('args')
                        prm = g.d['params']
                        if e.ck == 'op' and len(args) == len(prm) + 1: args = args[1:]        # operator()(closure, args…)
                        ent = {prm[i]['decl'] for i, a in enumerate(args) if a is not None and i < len(prm) and mentions_entry(a, entryp, fn)}
                        if e.n('object') is not None and e.ck != 'op' and mentions_entry(e.n('object'), entryp, fn): return ('unknown', 'member function of the entry')
                        if not ent: return ('other',)
                        for i, a in enumerate(args):
                            if a is not None and i < len(prm): ENV[prm[i]['decl']] = (a, fn)
                        return classify(val, g, lambda y: y.k == 'ref' and y.decl in ent, depth + 1, neg)
                return ('unknown', f'{q.split("::")[-1]}() has several returns / is not resolved')
            return ('unknown', f'{q}()')
        if e.k == 'ref' and e.dk == 'local':
            init = guards.single_assignment_init(fn, e.decl)
            if init is not None: return classify(init, fn, entryp, depth + 1, neg)
        return ('unknown', f'`{e.text()[:50]}`')

    def classify_site(c, fn, entryp):
        """the condition selects an entry either when it holds (`if (equal) take`) or when it fails (`if (different) continue`)"""
        v = classify(c, fn, entryp)
        if v[0] in ('eq', 'prefix', 'other'): return v
        v2 = classify(c, fn, entryp, neg=True)
        return v2 if v2[0] in ('eq', 'prefix') else v

    ENV = {}          # parameter decl of a followed helper -> (argument expression, function it is written in)

    def resolve_len(x, fn, depth=0):
        """follow a length operand through helper parameters and single-assignment locals to the expression that computes it"""
        x = strip(x)
        while x is not None and depth < 8:
            depth += 1
            if x.k == 'ref' and x.decl in ENV: x, fn = ENV[x.decl]; x = strip(x); continue
            if x.k == 'ref' and x.dk == 'local':
                init = guards.single_assignment_init(fn, x.decl)
                if init is None: break
                x = strip(init); continue
            break
        return x

    def cmp_call(c, fn):
        b = (c.calleeq or '').split('::')[-1]
        if b in ('strcmp', 'strcoll'): return ('eq',)
        a = c.ns('args')
        if len(a) != 3: return ('unknown', b)
        ln = resolve_len(a[2], fn)
        # the bare comparison is a prefix test only when the length is the length of the part (a pointer difference / strlen / size());
        # a constant (sizeof of a zero-terminated buffer) or length + 1 compares the terminator too
        is_len = ln is not None and ((ln.k == 'binop' and ln.op == '-' and all('*' in ((strip(o).d.get('type') or '')) for o in (ln.n('lhs'), ln.n('rhs')) if o is not None))
                                     or (ln.k == 'call' and (ln.calleeq or '').split('::')[-1] in ('strlen', 'size', 'length')))
        if not is_len: return ('unknown', f'{b}() over `{a[2].text()[:30]}` bytes: whether that covers the terminator is not followed')
        return ('prefix', a[0], a[2], c.shortloc())

    ENTRY_T = ('LanguageInfo', 'CountryInfo', 'LocaleInfo::_info')
    def entryp(y):
        if not (y.k == 'member' and y.name in ('code', 'value') and y.n('base') is not None): return False
        b = strip(y.n('base'))
        if b is None: return False
        if b.k == 'ref' and (b.decl in loopvars or any(t_ in ((b.d.get('decltype') or '') + ' ' + (b.type or '')) for t_ in ENTRY_T)): return True
        return b.k in ('subscript', 'unop') and any(t_ in (b.type or '') for t_ in ENTRY_T)        # languageInfo[i].code, it->code
    _entryp_member = entryp
    def entryp(y):
        # a whole table entry handed on (`matches(inf, buffer)`) counts as well: the helper looks at its members
        if _entryp_member(y): return True
        return y.k == 'ref' and y.dk in ('local', 'param') and (y.decl in loopvars or any(t_ in ((y.d.get('decltype') or '') + ' ' + (y.type or '')) for t_ in ENTRY_T)) and '[' not in (y.type or '')
    n5 = 0; allok = True
    # get() and the helpers of this file it reaches
    scope = {}; work = [f]
    while work:
        g_ = work.pop()
        if g_.name in scope or len(scope) > 40: continue
        scope[g_.name] = g_
        for n in g_.nodes():
            if n.k == 'call' and n.callee_in_root:
                for t_ in facts.resolve(n):
                    if t_.file == f.file and t_.cfg is not None and not t_.d.get('lambda'): work.append(t_)
    for fn_, n in [(g_, n) for g_ in scope.values() for n in g_.nodes()]:
        if n.k not in ('if', 'while') or n.n('c') is None: continue
        c = n.n('c')
        if not mentions_entry(c, entryp, fn_): continue
        v = classify_site(c, fn_, entryp)
        if v[0] == 'other': continue
        n5 += 1
        inst = (f'line {n.line - f.line:+d} of get()' if fn_ is f else f'{fn_.name.split("::")[-1]}() line {n.line}') + f': `{c.text()[:70]}` selects by whole-string equality'
        if v[0] == 'eq': rep.ok('LO.5', inst, n.shortloc())
        elif v[0] == 'prefix':
            allok = False
            rep.violation('LO.5', inst, v[3], f'the entry is compared over the first `{v[2].text()[:30]}` bytes only, and nothing tests that it ends there: every part that is a proper prefix of a table string is accepted '
                          '(`Eng_GB`, `e_GB`), the empty part matches every entry, and a name that is a prefix of an earlier one is mapped to it (`Malay` -> `Malayalam`) instead of the fallback / its own code', key='LO.5|prefix', fn=f.name)
        else:
            allok = False
            rep.inconclusive('LO.5', inst, n.shortloc(), f'the comparison is not in a recognised form: {v[1] if len(v) > 1 else v[0]}')
    # predicates handed to std::find_if & co.: closures of get() that receive a table entry
    try: f_end = int((f.d.get('endloc') or '').split(':')[1])
    except Exception: f_end = f.line + 400
    def _within(g):
        for h in scope.values():
            try: h_end = int((h.d.get('endloc') or '').split(':')[1])
            except Exception: h_end = h.line + 400
            if h.line <= g.line <= h_end: return True
        return False
    for g in facts.fns:
        if not g.d.get('lambda') or g.file != f.file or not _within(g): continue
        ent = {p_['decl'] for p_ in g.d['params'] if any(t_ in (p_['ctype'] + ' ' + p_.get('type', '')) for t_ in ('LanguageInfo', 'CountryInfo', 'LocaleInfo::_info'))}
        if not ent: continue
        ep = lambda y, ent=ent: y.k == 'member' and y.name in ('code', 'value') and y.n('base') is not None and strip(y.n('base')) is not None and strip(y.n('base')).k == 'ref' and strip(y.n('base')).decl in ent
        for r_ in g.nodes():
            if r_.k != 'return': continue
            val = r_.n('value') if r_.n('value') is not None else r_.n('sub')
            if val is None or not mentions_entry(val, ep): continue
            v = classify_site(val, g, ep)
            if v[0] == 'other': continue
            n5 += 1
            inst = f'predicate at line {r_.line - f.line:+d} of get(): `{val.text()[:70]}` selects by whole-string equality'
            if v[0] == 'eq': rep.ok('LO.5', inst, r_.shortloc())
            elif v[0] == 'prefix':
                allok = False
                rep.violation('LO.5', inst, v[3], f'the entry is compared over the first `{v[2].text()[:30]}` bytes only, and nothing tests that it ends there: every part that is a proper prefix of a table string is accepted, the empty part matches every entry', key='LO.5|prefix', fn=f.name)
            else:
                allok = False
                rep.inconclusive('LO.5', inst, r_.shortloc(), f'the comparison is not in a recognised form: {v[1] if len(v) > 1 else v[0]}')
    if allok: rep.floor('selection conditions', n5, 3)


# ---- LO.6: what the string functions read from the buffer --------------------------------------------------------------------
READERS = {'strcmp', 'strcoll', 'strlen', 'strstr', 'strchr', 'strrchr', 'strcasecmp', 'strdup', 'atoi', 'strtol', 'puts', 'fputs', 'printf', 'fprintf'}


def _join(a, b):
    if a == b: return a
    if a is None: return b
    if b is None: return a
    if {a, b} <= {'Z', 'S'}: return 'S'
    if 'U' in (a, b): return 'U'
    return 'D'


def _buffer_flow(facts, g, bufdecl, entry, size, memo, reads, depth=0):
    """forward dataflow over g's CFG for one character buffer (a local array, or an array / pointer parameter of a helper).
    States: Z every byte zero | S one string on a zeroed background (terminated) | ('C', L) L bytes copied over earlier contents, no terminator
    stored yet | D possibly unterminated / stale tail | U handed to code that is not followed.  Returns the join of the states at g's exits;
    `reads` collects (node, state, function) for every string read of the buffer."""
    cfg = g.cfg
    is_buf = lambda a: a is not None and (lambda r: r[0] is not None and r[0].decl == bufdecl and r[1] == 0)(base_array(a) if _arrayish(a) else (_as_ref(a), 0))

    def transfer(node, st):
        if node is None: return st
        if node.k == 'decl':
            for v in node.vars:
                if v['decl'] == bufdecl:
                    init = Node(g.tu, v['init']) if v.get('init') else None
                    if init is None: return 'D'
                    i0 = guards.strip_casts(init)
                    if i0.k == 'str': return 'S' if i0.v else 'Z'
                    vals = [guards.const_of(x) for x in i0.ns('args')] if i0.k in ('initlist', 'construct') else [None]
                    return 'Z' if all(c == 0 for c in vals) else 'D'
            return st
        if node.k == 'binop' and node.op == '=' and node.n('lhs') is not None and node.n('lhs').k == 'subscript':
            b = guards.strip_casts(node.n('lhs').n('base'))
            if b is not None and b.k == 'ref' and b.decl == bufdecl:
                zero = guards.const_of(node.n('rhs')) == 0
                if isinstance(st, tuple) and zero and guards.same_expr(node.n('lhs').n('idx'), st[1]): return 'S'
                if zero and st in ('Z', 'S'): return st
                return st if st in ('D', 'U') or isinstance(st, tuple) else 'D'
            return st
        if node.k != 'call': return st
        base = (node.calleeq or '').split('::')[-1]
        args = node.ns('args')
        if base == 'memset' and len(args) == 3 and is_buf(args[0]):
            c = guards.const_of(args[2]); z = guards.const_of(args[1])
            if z == 0 and c is not None and size is not None and c >= size: return 'Z'
            return st if st == 'Z' and z == 0 else ('D' if st != 'U' else 'U')
        if base in ('memcpy', 'memmove', 'strncpy') and len(args) == 3 and is_buf(args[0]):
            return 'S' if st == 'Z' else (('C', args[2]) if st != 'U' else 'U')
        if (node.calleeq or '').startswith('std::') and base in ('fill', 'fill_n', 'copy', 'copy_n', 'move') and len(args) >= 3 and all(a is not None for a in args[:3]):
            # std::fill(begin(buf), end(buf), 0) zeroes the whole array; std::copy(first, last, buf) / copy_n(first, n, buf) copy bytes, no terminator
            if base == 'fill' and is_buf(args[0]):
                whole = args[1].k == 'call' and strip_targs(args[1].calleeq or '') in ('std::end', 'std::cend') and args[1].ns('args') and is_buf(args[1].ns('args')[0])
                z = guards.const_of(args[2])
                if whole and z == 0: return 'Z'
                return st if st == 'Z' and z == 0 else ('D' if st != 'U' else 'U')
            if base == 'fill_n' and is_buf(args[0]):
                c = guards.const_of(args[1]); z = guards.const_of(args[2])
                if z == 0 and c is not None and size is not None and c >= size: return 'Z'
                return st if st == 'Z' and z == 0 else ('D' if st != 'U' else 'U')
            if base in ('copy', 'copy_n', 'move') and is_buf(args[2]):
                return 'S' if st == 'Z' else (('C', args[1]) if st != 'U' else 'U')
        if base == 'snprintf' and args and is_buf(args[0]): return 'S'
        if base in ('strcpy',) and args and is_buf(args[0]): return 'S'
        if base in ('strncat', 'strcat') and args and is_buf(args[0]): return st if st in ('S', 'Z') else st
        hit = [i for i, a in enumerate(args) if is_buf(a)]
        if not hit:
            # a local closure that captured the buffer by reference (`auto matches = [&buffer](const char *s) { return strcmp(s, buffer) == 0; }`):
            # its string reads of the buffer happen here, in the state the buffer is in at the call
            if node.callee_in_root and depth < 4:
                for t in facts.resolve(node):
                    if t.d.get('lambda'):
                        for x in t.nodes():
                            if x.k == 'call' and ((x.calleeq or '').split('::')[-1] in READERS) and any(is_buf(a) for a in x.ns('args')): reads.append((x, st, t))
            return st
        if base in READERS or (node.calleeq or '').startswith('std::basic_string'):
            reads.append((node, st, g)); return st
        if node.callee_in_root and depth < 4:
            ts = [t for t in facts.resolve(node) if t.cfg is not None]
            if len(ts) == 1 and hit[0] < len(ts[0].d['params']):
                h = ts[0]; pd = ts[0].d['params'][hit[0]]
                key = (h.name, pd['decl'], st if not isinstance(st, tuple) else 'D')
                if key not in memo:
                    memo[key] = None          # recursion guard
                    memo[key] = _buffer_flow(facts, h, pd['decl'], key[2], size, memo, reads, depth + 1)
                return memo[key] if memo[key] is not None else 'U'
        prm = (node.params or [])
        pt = prm[hit[0]] if hit[0] < len(prm) else ''
        if pt.startswith('const '):
            reads.append((node, st, g)); return st       # a function that only reads the characters
        return 'U'

    IN = {cfg.entry: entry}; OUT = {}
    order = cfg.rpo()
    changed = True; rounds = 0
    while changed and rounds < 50:
        changed = False; rounds += 1
        for b in order:
            if b != cfg.entry:
                inn = None
                for p_ in cfg.preds[b]:
                    if p_ in OUT: inn = _join(inn, OUT[p_])
                if inn is None: continue
            else: inn = entry
            cur = inn
            for e in cfg.blocks[b].elems:
                cur = transfer(e.node, cur)
            if IN.get(b) != inn or OUT.get(b) != cur:
                IN[b] = inn; OUT[b] = cur; changed = True
    # final pass to collect the reads with the fixpoint states only
    del reads[:]
    for b in order:
        if b not in IN: continue
        cur = IN[b]
        for e in cfg.blocks[b].elems: cur = transfer(e.node, cur)
    out = None
    for b in order:
        if b in OUT and (b == cfg.exit or cfg.exit in [s for s in cfg.blocks[b].succs if s is not None]): out = _join(out, OUT[b])
    return out if out is not None else entry


def _arrayish(a):
    a = guards.strip_casts(a)
    while a is not None and a.k == 'binop' and a.op == '+': a = guards.strip_casts(a.n('lhs'))
    if a is not None and a.k == 'unop' and a.op == '&': return True
    return a is not None and a.k == 'ref' and '[' in (a.d.get('decltype') or a.type or '')


def _as_ref(a):
    a = guards.strip_casts(a)
    return a if a is not None and a.k == 'ref' else None


def _terminator_rules(facts, rep, f):
    rep.rule('LO.6', 'what the string functions read: on every path, when strcmp / strlen / … (in get() or a helper) reads the local buffer it holds one NUL-terminated string on a zeroed background: '
                     'a copy into the buffer is preceded by a zero-fill of the whole array (initialiser or memset) since the previous copy, or followed by a terminator store at the copied length')
    bufs = [(v, n) for n in f.nodes() if n.k == 'decl' for v in n.vars if '[' in v['ctype'] and v['ctype'].split('[')[0].strip() in ('char', 'unsigned char', 'signed char')]
    for v, dn in bufs:
        try: size = int(v['ctype'][v['ctype'].index('[') + 1:v['ctype'].index(']')])
        except Exception: size = None
        reads = []; memo = {}
        _buffer_flow(facts, f, v['decl'], 'D', size, memo, reads)
        seen = set(); nread = 0
        for node, st, g in reads:
            k = (node.id, g.name, st if not isinstance(st, tuple) else 'C')
            if k in seen: continue
            seen.add(k); nread += 1
            inst = f'{(node.calleeq or "").split("::")[-1]}() at line {node.line} reads {v["name"]}'
            if st in ('Z', 'S'): rep.ok('LO.6', inst + ': one terminated string on a zeroed background', node.shortloc())
            elif st == 'U': rep.inconclusive('LO.6', inst, node.shortloc(), 'the buffer was handed to code that is not followed before this read')
            else:
                why = (f'the last copy (`{st[1].text()[:40]}` bytes) went over earlier contents and no terminator was stored at that length' if isinstance(st, tuple) else 'on some path the last copy into the buffer went over earlier contents (no zero-fill of the whole array in between, no terminator stored at the copied length), or the buffer was never initialised')
                rep.violation('LO.6', inst, node.shortloc(), why + ': a part that is shorter than what the buffer held before keeps the tail of the old contents (`eng_GB`: the country is compared as `GBg`), so a valid locale falls through to the fallback / an entry is matched by accident; with no zero behind the copy the read can also run off the end', key='LO.6|stale', fn=f.name)
        if bufs and nread == 0: rep.inconclusive('LO.6', f'buffer {v["name"]}', dn.shortloc(), 'no string read of the buffer found')


def _retention_rules(facts, rep, f):
    """LO.7: writes to objects with static / thread storage duration in get() and the helpers it reaches must not store a non-owning
    reference (const char*, string_view) to the parameter's characters"""
    scope = {}; work = [f]
    while work:
        g = work.pop()
        if g.name in scope or len(scope) > 40: continue
        scope[g.name] = g
        for n in g.nodes():
            if n.k == 'call' and n.callee_in_root:
                for t in facts.resolve(n):
                    if t.file == f.file and t.cfg is not None: work.append(t)
    NONOWN = ('std::basic_string_view', 'const char *', 'char *')
    def derived_from_param(x, fn, depth=0):
        """does expression x (non-owning type) refer to storage reachable from a pointer / view parameter of fn?"""
        for y in x.walk():
            if y.k != 'ref': continue
            ty = (y.d.get('decltype') or y.type or '').replace('const ', '', 1) if False else (y.d.get('decltype') or y.type or '')
            if not any(t_ in ty for t_ in NONOWN): continue
            if y.dk == 'param': return y
            if y.dk == 'local' and depth < 4:
                init = guards.single_assignment_init(fn, y.decl)
                if init is not None:
                    r = derived_from_param(init, fn, depth + 1)
                    if r is not None: return r
        return None
    n7 = 0
    for g in scope.values():
        for n in g.nodes():
            tgt = None; rhs = None
            if n.k == 'binop' and n.op == '=' and n.n('lhs') is not None: tgt, rhs = n.n('lhs'), n.n('rhs')
            elif n.k == 'call' and n.ck == 'op' and n.op == '=' and len([a for a in n.ns('args') if a is not None]) == 2: tgt, rhs = [a for a in n.ns('args') if a is not None]
            if tgt is None or rhs is None: continue
            roots = [y for y in tgt.walk() if y.k == 'ref' and y.dk == 'global' and not (y.d.get('decltype') or y.type or '').startswith('const ')]
            if not roots: continue
            n7 += 1
            src = derived_from_param(rhs, g)
            inst = f'{g.name.split("::")[-1]}(): what is stored in `{roots[0].name}` (static / thread storage) owns its characters'
            if src is not None:
                rep.violation('LO.7', inst, n.shortloc(), f'`{roots[0].name}` outlives the call and is given a pointer / view derived from the parameter `{src.name}`: when the caller reuses or frees that buffer the stored key changes with it '
                              '(a later lookup of a different locale of the same length is answered from the stale entry, a freed buffer is read)', key='LO.7|retained-view', fn=g.name)
            else: rep.ok('LO.7', inst, n.shortloc())
    if n7 == 0: rep.ok('LO.7', 'get() and its helpers write no object with static or thread storage duration', f.shortloc())
