"""C08 — ThreadPool::stop() always terminates and leaves a quiescent, restartable pool; thread count bounded."""
import threadpool
TUS = threadpool.TUS
def run(facts, rep, tier):
    threadpool.emit(facts, rep, ['TP.4', 'TP.6a', 'TP.6b', 'TP.6c', 'TP.6d', 'TP.7', 'TP.8', 'TP.9', 'TP.10'],
                    {'TP.4': 2, 'TP.6a': 1, 'TP.6b': 1, 'TP.6c': 2, 'TP.6d': 1, 'TP.7': 4, 'TP.8': 2, 'TP.9': 2, 'TP.10': 1})
