"""C01 — rwp::Resource: a writer never shares the lock (mutual exclusion)."""
import resource
TUS = resource.TUS
def run(facts, rep, tier):
    resource.emit(facts, rep, 'C01', ['RES.1', 'RES.2a', 'RES.3', 'RES.4', 'RES.5', 'RES.6', 'RES.8x', 'RES.9', 'RES.11', 'RES.13', 'RES.15a', 'RES.16'],
                  {'RES.1': 5, 'RES.2a': 3, 'RES.3': 8, 'RES.4': 4, 'RES.5': 6, 'RES.6': 4, 'RES.8x': 8, 'RES.9': 1, 'RES.11': 8, 'RES.13': 8, 'RES.15a': 2})
