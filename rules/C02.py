"""C02 — rwp::Resource: every request is eventually granted (no lost wake-up), idle state restored."""
import resource
TUS = resource.TUS
def run(facts, rep, tier):
    resource.emit(facts, rep, 'C02', ['RES.1', 'RES.3', 'RES.4', 'RES.5', 'RES.6', 'RES.8', 'RES.9', 'RES.10', 'RES.11', 'RES.12', 'RES.13', 'RES.15a', 'RES.15b', 'RES.16'],
                  {'RES.1': 5, 'RES.3': 8, 'RES.4': 4, 'RES.5': 6, 'RES.6': 4, 'RES.8': 8, 'RES.9': 1, 'RES.10': 2, 'RES.11': 8, 'RES.12': 1, 'RES.13': 8, 'RES.15a': 2, 'RES.15b': 2})
