"""C10 — Subject tolerates callbacks that change it during notify."""
import observer
TUS = observer.TUS
def run(facts, rep, tier):
    observer.emit(facts, rep, ['RE.1', 'RE.2', 'RE.4', 'RE.5', 'SUB.2', 'SUB.6'],
                  {'RE.1': 7, 'RE.2': 7, 'RE.4': 7, 'RE.5': 7, 'SUB.2': 14, 'SUB.6': 14})
    rep.assume('the user callback may call any public member of the same Subject (subscribe, unsubscribe, notify, mute, invalidate)')
