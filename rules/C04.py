"""C04 — RingBuffer behaves as a bounded double-ended queue (index / size bookkeeping: RB.1-RB.5)."""
import containers, observer
TUS = containers.TUS
def run(facts, rep, tier):
    if tier == 'thorough':
        containers.MODEL_BOUND.update(ring=8, sizes=5)          # deeper bounded decisions: every buffer state with capacity <= 8, sizes <= 5
        rep.note('small-model bounds raised for the thorough tier: ring capacity <= 8, sizes <= 5')
    res = containers.ring_analyse(facts, rep)
    def add(rule, ok, inst, site, why='', key=None): res.setdefault(rule, []).append((bool(ok) if ok is not None else None, inst, site, why, key))
    n_it = containers.iterator_rules(containers.with_roles(facts, rep), add)
    observer.emit(facts, rep, ['RB.1', 'RB.2', 'RB.3', 'RB.4', 'RB.5', 'RB.7', 'RB.9'], {'RB.1': 40, 'RB.2': 70, 'RB.3': 28, 'RB.4': 28, 'RB.5': 20, 'RB.7': 40, 'RB.9': 14}, text=containers.RB_TEXT, res=res)
    rep.count('ring_functions', res.get('_nfn', 0)); rep.count('iterator_functions', n_it)
    rep.floor('RingBuffer instantiations', res.get('_nclasses', 0), 6)
    rep.assume('element values / special members of T are trusted; asserts (-UNDEBUG) supply the documented preconditions (non-empty for pops, size < capacity unless overwriting); exception paths and capacity 0 are not modelled; '
               'RingBuffer(initializer_list, capacity < list size) is outside the domain')
