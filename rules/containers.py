"""Array / RingBuffer rules over the affine-mod container domain (C14: AR.1-5, C09: RB.6-9, C04: RB.1-5)."""
import itertools
from facts import Node, strip_targs, Inconclusive
from symex import Exec, Lin, Unknown, Ref, Sym, as_lin, Closure
from contdom import ContDomain, ModVal, ModPlus, Ptr, ElemRef, Bytes, MinVal, Rem, nonneg, feasible_sign, concrete

import re, common
_UNK = re.compile(r'\?[^\s]|\$')        # repr of an Unknown (`?tag`) or of an opaque symbol (`$name`) inside a value
TUS = ['witness/w_containers.cpp']
TRIVIAL = {'int', 'unsigned char', 'char', 'float', 'double', 'long', 'unsigned int', 'unsigned long'}


def elem_type(classfull):
    inner = classfull[classfull.index('<') + 1:classfull.rindex('>')]
    depth = 0; out = ''
    for ch in inner:
        if ch == '<': depth += 1
        if ch == '>': depth -= 1
        if ch == ',' and depth == 0: break
        out += ch
    return out.strip()


def explore(facts, f, T, is_class, base_rows=None, max_rows=600, ctor=None, self_alias=False):
    """run f under every combination of the order relations it turns out to branch on (row discovery); returns
    [(rows, domain, [Path])]"""
    results = []
    lin_of = {}; ord_of = {}
    pending = [dict(base_rows or {})]
    seen = set()
    while pending:
        rows = pending.pop()
        key = tuple(sorted((str(k), str(v)) for k, v in rows.items()))
        if key in seen: continue
        seen.add(key)
        if len(seen) > max_rows: raise Inconclusive(f'more than {max_rows} order-relation rows for {f.name}', f.shortloc())
        dom = ContDomain(T, is_class, rows=rows)
        dom.ctor = bool(f.d.get('ctor')) if ctor is None else ctor
        dom.self_alias = self_alias
        c_ = facts.cls(f.d.get('classfull') or '') or {}
        dom.no_default_init = {x['name'] for x in c_.get('fields', []) if not x.get('init')}      # members without a default member initialiser start indeterminate in a constructor
        dom.ord_vals = ord_of          # shared over the runs: an atom decided by the row is not consulted again
        ex = Exec(facts, dom)
        paths = ex.run(f)
        unk = [(k, d) for k, n, d in dom.unknown_cmp]
        if unk:
            k0, d0 = unk[0]
            vals = ['<', '=', '>']
            if d0 is not None: vals = [v for v in vals if feasible_sign(d0, v)]
            for v in vals:
                r2 = dict(rows); r2[('sign', k0) if d0 is not None else ('ord', k0)] = v
                lin_of[k0] = d0
                pending.append(r2)
            continue
        dom.lin_of = lin_of
        results.append((rows, dom, paths))
    return results


def _parse_single(key):
    """+1 if key is a single symbol with positive coefficient and no constant ('S', 'p:size', 'il.size'), else None"""
    if any(c in key for c in '+-*?') : return None
    return 1


def row_str(rows):
    out = []
    for k, v in sorted(rows.items(), key=str):
        if isinstance(k, tuple): out.append(f'{k[1]} {v} 0' if k[0] == 'sign' else f'{k[1]} : {v}')
        else: out.append(f'{k}={v}')
    return '(' + ', '.join(out) + ')' if out else '(no branch on sizes)'


def field(P, obj, name, dom):
    path = (obj, name) if obj != 'this' else ('this', name)
    key = ('f', path)
    if key in P.store: return P.store[key]
    return dom.init_field(path, None)


MODEL_BOUND = {'ring': 5, 'sizes': 3}        # small-model bounds (capacity of the enumerated buffers / sizes of the arrays); the thorough tier raises them


def size_models(rows, dom, extra=(), bound=None):
    """valuations of the size symbols (all >= 0, small) that satisfy every sign atom of the row; raises LookupError on other atoms"""
    import itertools as it
    if bound is None: bound = MODEL_BOUND['sizes']
    syms = set(extra)
    for k, v in rows.items():
        if isinstance(k, tuple) and k[0] == 'sign':
            d = dom.lin_of.get(k[1])
            if d is None: raise LookupError(str(k))
            syms |= set(d.t)
        elif isinstance(k, tuple): raise LookupError(str(k))
    syms = sorted(syms)
    if len(syms) > 4: raise LookupError('too many symbols')
    for vals in it.product(range(0, bound + 1), repeat=len(syms)):
        env = dict(zip(syms, vals))
        ok = True
        for k, v in rows.items():
            if isinstance(k, tuple) and k[0] == 'sign':
                x = concrete(dom.lin_of[k[1]], env)
                if {'<': x < 0, '=': x == 0, '>': x > 0}[v] is False: ok = False; break
        if ok: yield env


class Ghost:
    """live-prefix / allocation bookkeeping of the element storage blocks along one path"""
    def __init__(self, dom, is_class):
        self.dom = dom; self.is_class = is_class
        self.live = {}; self.alloc = {}; self.freed = set(); self.problems = []

    def witness_ne(self, rows, a, b, also_pos=None):
        """small sizes consistent with the row for which a != b (and also_pos > 0), or None"""
        la, lb = self.lin(a), self.lin(b)
        if la is None or lb is None: return None
        try:
            for env in size_models(rows, self.dom, extra=set(la.t) | set(lb.t) | (set(also_pos.t) if also_pos is not None else set())):
                x, y = concrete(la, env), concrete(lb, env)
                if x is None or y is None: return None
                if x != y and (also_pos is None or (concrete(also_pos, env) or 0) > 0): return env
        except LookupError: return None
        return None

    def lin(self, v):
        return as_lin(v) if not isinstance(v, (ModVal, MinVal, Bytes, Ptr, Rem)) else None

    def le(self, a, b):
        """a <= b under the row facts (True / False / None)"""
        d = self.lin(b) - self.lin(a)
        if nonneg(d): return True
        s = self.dom.sign_of(d)
        return None if s is None else s >= 0

    def eq(self, a, b):
        la, lb = self.lin(a), self.lin(b)
        if la is None or lb is None: return None
        d = la - lb
        if d.is_const(): return d.c == 0
        s = self.dom.sign_of(d)
        return None if s is None else s == 0

    def nbytes(self, v, node, what):
        if isinstance(v, Bytes): return v.n
        self.problems.append(('AR.5', node, f'{what} size `{v}` is not count * sizeof(T)'))
        return None


_roles_cache = {}


def with_roles(facts, rep):
    """facts with the container fields under their canonical names (rename-only refactorings leave every verdict unchanged)"""
    key = id(facts)
    if key not in _roles_cache:
        import roles
        maps = roles.infer_containers(facts)
        ren = {g: {k: v for k, v in m.items() if k != v} for g, m in maps.items()}
        ren = {g: m for g, m in ren.items() if m}
        f2 = facts
        if ren:
            f2 = roles.renamed_fields(facts, maps)
            rep.assume('fields recognised by role (type and use), reported under their canonical names: ' + '; '.join(f'{g}: ' + ', '.join(f'{k} = {v}' for k, v in sorted(m.items())) for g, m in sorted(ren.items())))
        _roles_cache.clear(); _roles_cache[key] = f2
    return _roles_cache[key]


def array_rules(facts, rep):
    facts = with_roles(facts, rep)
    rep.rule('AR.1', 'count agreement on every constructor path: allocation count == number of elements constructed / copied == final m_size; source index == destination index')
    rep.rule('AR.2', 'resize / assignment: elements [new, old) are destroyed exactly once, storage is resized, [old, new) initialised, and on every path that returns m_size equals the number of live elements')
    rep.rule('AR.3', 'deep copy: the copy constructor allocates fresh storage and never stores the source pointer; move is a swap of all fields')
    rep.rule('AR.4', 'elements are copied with memcpy only when T is trivially copyable (std::is_trivially_copyable_v<T> of the instantiation, computed by the compiler); the destructor destroys [0, m_size) and frees')
    rep.rule('AR.5', 'allocation and memcpy sizes are count * sizeof(T)')
    rep.assume('element constructors / destructors of T are trusted; Array(ptr, size, copy=false) adopts foreign storage (not decided); exception paths are not modelled')
    classes = sorted(c for c in facts.classes if strip_targs(c) == 'tulz::Array')
    st_ = raw_storage(facts, 'tulz::Array')
    if st_ is not None:
        rep.inconclusive('AR.1', 'tulz::Array: storage model', 'include/tulz/container/Array.h', f'the elements are kept behind `{st_[:60]}`, not a raw pointer: the block model of the rules does not describe this array')
        return
    rep.floor('Array instantiations', len(classes), 4)
    nfn = 0
    for C in classes:
        T = elem_type(C); tc, td = elem_traits(facts, C, T); is_class = not (tc and td)
        copy_only = td and not tc          # no destructor to account for, but copying must go through T's copy constructor: only the copy rule is applied
        short = C.replace('std::basic_string<char>', 'std::string')
        fns = [f for f in facts.fns if f.d.get('classfull') == C and not f.d.get('lambda')]
        for f in fns:
            base = f.qname.split('::')[-1]
            if base in ('operator[]', 'array', 'size', 'empty', 'begin', 'end', 'cbegin', 'cend', 'front', 'back', 'initialize', 'destroy'): continue
            if f.d.get('access') in ('private', 'protected'): continue       # helpers are evaluated inlined into the public operations
            nfn += 1
            label = f'{short}::{f.name.split("::")[-1][:40]}({", ".join(p["type"][:24] for p in f.d["params"])})'
            try:
                res = explore(facts, f, T, is_class)
            except Inconclusive as e:
                rep.inconclusive('AR.2', label, f.shortloc(), str(e)); continue
            for rows, dom, paths in res:
                for P in paths:
                    if P.end == 'noreturn': continue
                    check_array_path(rep, f, label, rows, dom, P, is_class, base, tc, copy_only)
            if (f.d.get('moveassign') or f.d.get('copyassign')) and not copy_only:
                # a = a / a = std::move(a): the same operation with the parameter aliasing *this (every field shared); the object must
                # come out as it went in or at least destructible: elements alive == m_size, storage not released
                try: res2 = explore(facts, f, T, is_class, self_alias=True)
                except Inconclusive as e:
                    rep.inconclusive('AR.3', label + ' (self-assignment)', f.shortloc(), str(e)); res2 = []
                for rows, dom, paths in res2:
                    for P in paths:
                        if P.end in ('noreturn', 'throw'): continue
                        check_self_assign(rep, f, label, rows, dom, P, is_class)
    rep.count('array_functions', nfn)
    rep.floor('Array member functions analysed', nfn, 40)


_cls_fields = {}


def facts_cls_fields(f):
    """fields of the class the member function f belongs to (from the function's own translation unit)"""
    cf = f.d.get('classfull') or f.d.get('class')
    key = (id(f.tu), cf)
    if key not in _cls_fields:
        _cls_fields[key] = next((c['fields'] for c in f.tu.classes if c.get('fullname') == cf), None)
    return _cls_fields[key]


def check_self_assign(rep, f, label, rows, dom, P, is_class):
    rs = row_str(rows)
    g = Ghost(dom, is_class)
    g.live['data0'] = Lin.sym('S'); g.alloc['data0'] = None
    for k, node, p in P.events:
        if k != 'c': continue
        if p[0] == 'free':
            b = p[1].base if isinstance(p[1], Ptr) else None
            if b: g.freed.add(b)
        elif p[0] == 'realloc' and isinstance(p[1], Ptr): g.freed.add(p[1].base)
        elif p[0] == 'range' and p[1] == 'destroy' and p[2][0] == 'raw' and p[2][1] in g.live: g.live[p[2][1]] = p[3]
        elif p[0] == 'elem' and p[1] == 'destroy' and isinstance(p[2], Ptr) and p[2].base in g.live and isinstance(p[2].off, Lin): g.live[p[2].base] = p[2].off
        elif p[0] == 'alloc': g.live[p[2].base] = Lin.const(0)
        elif p[0] == 'range' and p[1] == 'construct' and p[2][0] == 'raw' and p[2][1] in g.live: g.live[p[2][1]] = p[4]
    arr = field(P, 'this', 'm_array', dom); size = field(P, 'this', 'm_size', dom)
    inst = f'{label} applied to the object itself (x = x / x = std::move(x)) {rs}: the object stays destructible'
    site = f.shortloc()
    if not isinstance(arr, Ptr):
        rep.inconclusive('AR.3', inst, site, f'm_array becomes {arr}'); return
    b = arr.base
    try: ms = list(size_models(rows, dom, extra={'S'}))
    except LookupError: ms = []
    nonempty = bool(ms) and any(m_.get('S', 0) > 0 for m_ in ms)
    if b in g.freed and b != 'null' and nonempty:
        rep.violation('AR.3', inst, site, f'after assigning the array to itself m_array points to the block {b}, which this very call released, with m_size = {size}: every later access and the destructor use freed storage (the elements were destroyed before they were "taken over")',
                      key=f'AR.3|self-assign|{strip_targs(f.qname)}', fn=f.name)
    elif is_class and b in g.live and b != 'null' and nonempty and g.eq(g.live[b], size) is False:
        rep.violation('AR.3', inst, site, f'after assigning the array to itself m_size is {size} but {g.live[b]} element(s) are alive', key=f'AR.3|self-assign|{strip_targs(f.qname)}', fn=f.name)
    else: rep.ok('AR.3', inst, site)


COPY_MEMCPY = 'elements of a type that is not trivially copyable are copied with memcpy: no copy constructor runs, so the copy shares whatever the source elements own or refer to (and both arrays later destroy it)'


def check_array_path(rep, f, label, rows, dom, P, is_class, base, tc=None, copy_only=False):
    rs = row_str(rows)
    if tc is None: tc = not is_class
    if copy_only:
        # T is trivially destructible but has its own copy constructor: lifetimes need no accounting, copies must still be made by T
        for k, node, p in P.events:
            if k == 'c' and p[0] == 'memcpy':
                src = p[2]
                own = isinstance(src, Ptr) and src.base == 'data0'
                if own: rep.ok('AR.4', f'{label} {rs}: memcpy relocates the array\'s own elements', node.shortloc())
                else: rep.violation('AR.4', f'{label} {rs}', node.shortloc(), COPY_MEMCPY, key=f'AR.4|memcpy-copy|{strip_targs(f.qname)}', fn=f.name)
        return
    g = Ghost(dom, is_class)
    ctor = bool(f.d.get('ctor'))
    # a capacity member kept beside the size (a cached allocation size): the entry block holds that many slots, and so does every
    # other array's block hold its own capacity
    has_cap = any(x['name'] == 'm_capacity' for x in (facts_cls_fields(f) or []))
    if not ctor:
        g.live['data0'] = Lin.sym('S'); g.alloc['data0'] = Lin.sym('C') if has_cap else None
    for nm in ('src', 'rhs', 'other'):
        g.live[f'{nm}.data0'] = Lin.sym(f'{nm}.S')
        if has_cap: g.alloc[f'{nm}.data0'] = Lin.sym(f'{nm}.C')
    adopted = False
    memcpy_class = None
    viol = []
    holes = {}
    events = P.events
    for k, node, p in events:
        if k != 'c': continue
        kind = p[0]
        if kind == 'alloc':
            n = g.nbytes(p[1], node, 'malloc')
            g.alloc[p[2].base] = n; g.live[p[2].base] = Lin.const(0)
        elif kind == 'realloc':
            n = g.nbytes(p[2], node, 'realloc')
            old = p[1].base if isinstance(p[1], Ptr) else None
            lv = g.live.get(old, Lin.const(0))
            if is_class and n is not None and old in g.live:
                fits = g.le(lv, n)
                if fits is False: viol.append(('AR.2', node, f'realloc to {n} elements while {lv} elements are still alive: the elements beyond the new size are cut off without being destroyed'))
            g.alloc[p[3].base] = n; g.live[p[3].base] = lv
            if old is not None: g.freed.add(old)
        elif kind == 'free':
            b = p[1].base if isinstance(p[1], Ptr) else None
            if b is not None and b != 'null':
                lv = g.live.get(b)
                if is_class and lv is not None and g.eq(lv, Lin.const(0)) is False: viol.append(('AR.4', node, f'free() of a block that still holds {lv} live element(s): they are never destroyed'))
                elif is_class and lv is not None and g.eq(lv, Lin.const(0)) is None:
                    w_ = g.witness_ne(rows, lv, Lin.const(0))
                    if w_ is not None: viol.append(('AR.4', node, f'free() of a block that still holds {lv} live element(s) (e.g. {", ".join(f"{k}={v}" for k, v in sorted(w_.items()))}): they are never destroyed'))
                if b in g.freed: viol.append(('AR.2', node, f'block {b} freed twice'))
                g.freed.add(b)
        elif kind == 'range':
            _, rk, tgt, lo, hi, src = p[:6]
            if tgt[0] != 'raw': continue
            b = tgt[1]
            if g.eq(lo, hi) is True: continue
            empty = g.le(hi, lo)
            if empty is True and len(p) > 6 and p[6] == 'iterpair':
                viol.append(('AR.2', node, f'an iterator-pair algorithm is given the reversed range [{lo}, {hi}) ({rs}): it walks `first != last` upwards from element {lo} and never meets `last`: storage that holds no element is {"destroyed" if rk == "destroy" else "written"} (an `i < end` loop would simply not run)'))
                continue
            if empty is True: continue
            if rk == 'construct':
                if b in g.live:
                    e_ = g.eq(g.live[b], lo)
                    w_ = g.witness_ne(rows, g.live[b], lo, also_pos=(g.lin(hi) - g.lin(lo)) if (g.lin(hi) is not None and g.lin(lo) is not None) else None) if (is_class and e_ is None) else None
                    if is_class and (e_ is False or w_ is not None):
                        viol.append(('AR.2', node, f'constructs elements [{lo}, {hi}) but {g.live[b]} elements are alive' + (f' (e.g. {", ".join(f"{k}={v}" for k, v in sorted(w_.items()))})' if w_ else '') + ': ' + ('elements are constructed over live ones' if (g.le(lo, g.live[b]) is not False) else 'a gap of raw storage is left inside the array')))
                    g.live[b] = hi
                if has_cap and g.alloc.get(b) is not None and g.le(hi, g.alloc[b]) is False:
                    viol.append(('AR.2', node, f'constructs elements [{lo}, {hi}) in a block of {g.alloc[b]} slot(s): the write runs past the storage'))
                if src and src[0] == 'raw' and (src[2] != lo or src[3] != hi):
                    viol.append(('AR.1', node, f'copies source elements [{src[2]}, {src[3]}) into destination [{lo}, {hi}): source and destination index differ'))
            elif rk == 'destroy':
                if b in g.live:
                    if is_class and g.eq(g.live[b], hi) is not True and g.le(hi, g.live[b]) is not False and b not in holes and g.lin(lo) is not None and g.lin(hi) is not None:
                        # elements in the middle are destroyed (an erase): a hole, to be closed by moving the tail down before anything else looks
                        holes[b] = (lo, hi, node); continue
                    if is_class and g.eq(g.live[b], hi) is False: viol.append(('AR.2', node, f'destroys [{lo}, {hi}) but the live elements are [0, {g.live[b]}): ' + ('storage holding no element is destroyed' if g.le(g.live[b], hi) else 'elements beyond the range stay alive')))
                    g.live[b] = lo
        elif kind == 'elem':
            _, ek, tgt, src = p
            if isinstance(tgt, Ptr) and tgt.base in g.live and isinstance(tgt.off, Lin):
                if ek == 'construct':
                    if is_class and g.eq(g.live[tgt.base], tgt.off) is False: viol.append(('AR.2', node, f'constructs element {tgt.off} while {g.live[tgt.base]} are alive'))
                    g.live[tgt.base] = tgt.off + Lin.const(1)
                elif ek == 'destroy':
                    g.live[tgt.base] = tgt.off
        elif kind == 'memcpy':
            dst, src, nb = p[1], p[2], p[3]
            n = g.nbytes(nb, node, 'memcpy')
            if not tc and not (isinstance(src, Ptr) and src.base == 'data0'): memcpy_class = node          # moving the array's own elements to a new block is relocation, which the element types in scope allow
            if isinstance(dst, Ptr) and dst.base in holes:
                lo_, hi_, hn_ = holes[dst.base]
                tail = (g.lin(g.live[dst.base]) - g.lin(hi_)) if g.lin(g.live[dst.base]) is not None else None
                if (isinstance(src, Ptr) and src.base == dst.base and isinstance(dst.off, Lin) and isinstance(src.off, Lin) and g.eq(dst.off, lo_) is True and g.eq(src.off, hi_) is True
                        and n is not None and tail is not None and g.eq(n, tail) is True):
                    g.live[dst.base] = g.lin(g.live[dst.base]) - (g.lin(hi_) - g.lin(lo_)); del holes[dst.base]
                else:
                    viol.append(('AR.2', node, f'elements [{lo_}, {hi_}) were destroyed in the middle of the array and the tail [{hi_}, {g.live[dst.base]}) is not moved down onto them exactly (memmove of {n} element(s) from {getattr(src, "off", "?")} to {getattr(dst, "off", "?")}) ?unk'))
                continue
            if isinstance(dst, Ptr) and dst.base in g.live and n is not None: g.live[dst.base] = n
            if isinstance(dst, Ptr) and n is not None and g.alloc.get(dst.base) is not None and g.le(n, g.alloc[dst.base]) is False:
                viol.append(('AR.5', node, f'memcpy of {n} elements into a block of {g.alloc[dst.base]}'))
        elif kind == 'algo':
            pass
    for b_, (lo_, hi_, hn_) in holes.items():
        viol.append(('AR.2', hn_, f'destroys [{lo_}, {hi_}) but the live elements are [0, {g.live[b_]}): elements beyond the range stay alive'))
    for r, node, why in g.problems: viol.append((r, node, why))
    if memcpy_class is not None: viol.append(('AR.4', memcpy_class, COPY_MEMCPY))
    # exit state
    arr = field(P, 'this', 'm_array', dom); size = field(P, 'this', 'm_size', dom)
    if (isinstance(arr, int) and not isinstance(arr, bool) and arr == 0) or (isinstance(arr, Lin) and arr == Lin.const(0)): arr = Ptr('null')          # `m_array = nullptr`
    if isinstance(arr, Ptr) and arr.base.startswith('param:'): adopted = True
    site = f.shortloc()
    if base.startswith('~'):
        lv = g.live.get('data0')
        ok = 'data0' in g.freed and (not is_class or g.eq(lv, Lin.const(0)) is True)
        rep.check(ok, 'AR.4', f'{label} {rs}: destroys [0, m_size) and frees the storage', site, 'the destructor leaves elements alive or does not free the block', key=f'AR.4|dtor|{strip_targs(f.qname)}', fn=f.name)
    elif P.end == 'throw' and not ctor:
        # an exception leaves a member function: the object must still be destructible (its destructor will run)
        if isinstance(arr, Ptr) and not adopted:
            b = arr.base
            try: ms = list(size_models(rows, dom, extra={'S'}))
            except LookupError: ms = []
            nonempty = bool(ms) and all(m_.get('S', 0) > 0 for m_ in ms)       # the row is feasible and the array held elements: the block is not null
            if b in g.freed and b != 'null' and nonempty:
                viol.append(('AR.2', None, f'an exception leaves {base}() ({rs}) while m_array still points to the block {b}, which was released (realloc to 0 bytes frees it and returns null): the destructor destroys m_size = {size} elements in it and frees it again'))
            elif b in g.live and is_class and b != 'null' and nonempty and g.eq(g.live[b], size) is False:
                viol.append(('AR.2', None, f'an exception leaves {base}() ({rs}) with m_size = {size} but {g.live[b]} element(s) alive: the destructor destroys elements that are already destroyed'))
        if not viol: return
    elif not adopted and isinstance(arr, Ptr) and P.end in ('exit', 'return', None):
        b = arr.base
        if b in g.live and is_class and b != 'null':
            e = g.eq(g.live[b], size)
            if e is not True:
                viol.append(('AR.2' if not ctor else 'AR.1', None, f'at return m_size is {size} but {g.live[b]} element(s) are alive in the array ({rs}): ' +
                             ('the surplus elements are never destroyed' if g.le(size, g.live[b]) else 'size() promises elements that were never constructed')))
        if ctor and g.alloc.get(b) is not None and has_cap:
            if g.le(size, g.alloc[b]) is False: viol.append(('AR.1', None, f'the constructor reports size {size} on a block of {g.alloc[b]} slot(s)'))
        elif ctor and g.alloc.get(b) is not None:
            e = g.eq(g.alloc[b], size)
            if e is not True: viol.append(('AR.1', None, f'the constructor allocates {g.alloc[b]} element(s) but reports size {size}'))
        if ctor and f.d.get('copy') and b.endswith('data0'):
            viol.append(('AR.3', None, 'the copy constructor stores the source\'s pointer (shallow copy)'))
        if b in g.freed and b != 'null':
            viol.append(('AR.2', None, f'at return m_array still points to the freed block {b} with m_size {size}'))
        if not ctor and b != 'data0' and 'data0' not in g.freed:
            # the block *this owned on entry: kept, released (free / realloc), or handed to another array (swap / exchange with the parameter)
            handed = False
            for prm in f.d.get('params') or []:
                if 'Array<' in (prm.get('ctype') or ''):
                    oa = field(P, prm['name'], 'm_array', dom)
                    if isinstance(oa, Ptr) and oa.base == 'data0': handed = True
            # ... or to a temporary / local array (copy-and-swap: the temporary's destructor releases it)
            for loc_, v_ in P.store.items():
                if isinstance(v_, Ptr) and v_.base == 'data0' and not (loc_[0] == 'f' and loc_[1] == ('this', 'm_array')): handed = True
            if not handed and not (isinstance(P.ret, Ptr) and P.ret.base == 'data0'):
                try: ms = list(size_models(rows, dom, extra={'S'}))
                except LookupError: ms = []
                wit = next((m_ for m_ in ms if m_.get('S', 0) > 0), None)
                if wit is not None:
                    viol.append(('AR.2', None, f'm_array is given another block ({b}) while the block *this owned on entry is neither released nor handed to another array ({rs}; e.g. an array of {wit.get("S")} element(s)): '
                                 'the storage leaks' + (' and the elements in it are never destroyed' if is_class else '')))
        if has_cap and b != 'null' and g.alloc.get(b) is not None:
            cap1 = field(P, 'this', 'm_capacity', dom)
            # only an over-estimate is harmful (an under-estimate costs a realloc): is there a state in which the cached capacity exceeds the block?
            if isinstance(cap1, (Lin, int)) and g.lin(g.alloc[b]) is not None:
                le_ = g.le(cap1, g.alloc[b])
                over = le_ is False
                if le_ is None:
                    w_ = g.witness_ne(rows, cap1, g.alloc[b], also_pos=as_lin(cap1) - g.lin(g.alloc[b]))
                    over = w_ is not None
                if over:
                    viol.append(('AR.2', None, f'at return m_capacity is {cap1} but m_array points to a block of {g.alloc[b]} slot(s) ({rs}): the cached capacity can exceed the real storage, and the next resize() that stays below it writes past the block'))
    fuzzy = None
    if dom.imprecise: fuzzy = f'{dom.imprecise[0][0]} at {dom.imprecise[0][1]} is not in a form the range summariser handles'
    for r, node, why in viol:
        # a refutation needs an exact evaluation: with unknown values / unsummarised loops in play the verdict is "not decided"
        if fuzzy or _UNK.search(why): rep.inconclusive(r, f'{label} {rs}', node.shortloc() if node is not None else site, f'not decided ({fuzzy or "unknown value"}): {why}')
        else: rep.violation(r, f'{label} {rs}', node.shortloc() if node is not None else site, why, key=f'{r}|{strip_targs(f.qname)}|{why[:50]}', fn=f.name)
    if P.end == 'throw': return
    if not viol and not isinstance(arr, Ptr) and not base.startswith('~') and P.end in ('exit', 'return', None):
        # the storage pointer got a value the block model does not follow (an allocator it does not know, a call result): nothing about
        # this path is decided
        rep.inconclusive('AR.2', f'{label} {rs}', site, f'm_array ends up as `{str(arr)[:60]}`, which the block model does not follow')
        return
    if not viol:
        xf = common.extra_field_fork(P, 'tulz::Array', ('m_array', 'm_size'))
        if xf is not None:
            # the path was chosen by a test of a member the block model knows nothing about (a cached capacity): whether the storage is
            # large enough on it is not followed - neither proved nor refuted
            rep.inconclusive('AR.2', f'{label} {rs}', xf.shortloc(), f'the path depends on `{(xf.text() or "")[:50]}`, a test of a member outside the block model: not followed')
        else:
            rep.ok('AR.2' if not ctor else 'AR.1', f'{label} {rs}: live elements == m_size == {size}; allocation / copy counts agree', site)
    if f.d.get('move') or f.d.get('moveassign') or base == 'swap':
        # however it is written (swap, std::exchange, assignments): *this ends with the source's entry state, the source with a
        # consistent one (the former state of *this, or the empty array)
        if not [1 for k, n, p in events if k in ('write',) or (k == 'c' and p[0] == 'swap')]: return        # self-assignment path
        on = f.d['params'][0]['name'] if f.d.get('params') else 'other'
        names = ('m_size', 'm_array')
        was = dom.ctor; dom.ctor = False
        entry_other = {n_: dom.init_field((on, n_), None) for n_ in names}
        dom.ctor = was
        entry_this = {n_: dom.init_field(('this', n_), None) for n_ in names}
        fin_this = {n_: field(P, 'this', n_, dom) for n_ in names}; fin_other = {n_: field(P, on, n_, dom) for n_ in names}
        def same(a, b):
            isnull = lambda x: (isinstance(x, Ptr) and x.base == 'null') or (isinstance(x, Lin) and x == Lin.const(0)) or (isinstance(x, int) and x == 0)
            if isnull(a) and isnull(b): return True
            if isinstance(a, Ptr) and isinstance(b, Ptr): return a == b
            la, lb = (as_lin(a) if isinstance(a, (Lin, int)) else None), (as_lin(b) if isinstance(b, (Lin, int)) else None)
            return la is not None and lb is not None and la == lb
        bad = [n_ for n_ in names if not same(fin_this[n_], entry_other[n_])]
        followed = all(isinstance(v, (Lin, Ptr, int)) for v in list(fin_this.values()) + list(fin_other.values()))
        inst = f'{label}: *this takes over both fields of the source'
        if not bad: rep.ok('AR.3', inst, site)
        elif not followed: rep.inconclusive('AR.3', inst, site, f'{bad[0]} becomes {fin_this[bad[0]]}')
        else: rep.violation('AR.3', inst, site, 'after the move ' + ', '.join(f'{n_} = {fin_this[n_]}' for n_ in bad) + f' (the source had {", ".join(f"{n_} = {entry_other[n_]}" for n_ in bad)})', key=f'AR.3|swap|{strip_targs(f.qname)}', fn=f.name)
        swapped = all(same(fin_other[n_], entry_this[n_]) for n_ in names)
        emptied = same(fin_other['m_size'], Lin.const(0)) and same(fin_other['m_array'], Ptr('null'))
        inst = f'{label}: the source is left consistent (the former state of *this, or empty)'
        uninit = [n_ for n_ in names if isinstance(fin_other[n_], Unknown) and str(fin_other[n_].tag).startswith('uninit:')]
        if swapped or emptied: rep.ok('AR.3', inst, site)
        elif uninit:
            rep.violation('AR.3', inst, site, f'the moved-from source receives the indeterminate value of {", ".join(uninit)}: this constructor exchanges the fields with an object whose members were never initialised '
                          '(no default member initialiser, no mem-initialiser), so the source\'s destructor destroys and frees whatever the storage held', key=f'AR.3|swap-uninit|{strip_targs(f.qname)}', fn=f.name)
        elif not followed: rep.inconclusive('AR.3', inst, site, 'a field of the source gets a value the evaluator does not follow')
        else: rep.violation('AR.3', inst, site, 'the source keeps ' + ', '.join(f'{n_} = {fin_other[n_]}' for n_ in names) + ': two arrays own one block (double free) or the states are mixed', key=f'AR.3|swap-src|{strip_targs(f.qname)}', fn=f.name)


# =====================================================================================================================
# RingBuffer
# =====================================================================================================================
RB_TEXT = {
    'RB.1': 'abstraction: logical element i lives in m_data[(m_pos + i) mod capacity]; operator[], front, back, begin/end and the iterator operator table realise exactly this map',
    'RB.2': 'per mutator and path (full / not full): new position, new size and the slot that is constructed / assigned / moved out are those of the bounded-deque specification (congruences modulo the capacity)',
    'RB.3': 'return values: emplace_back returns back(), emplace_front returns front() evaluated in the post-state; pops return the slot the specification removes',
    'RB.4': 'resize: in place only if no live element lies at or beyond the new capacity; otherwise the first min(size, n) logical elements are copied in order into a fresh block, pos := 0, size := min(size, n), capacity := n',
    'RB.5': 'copy writes logical order into storage with pos = 0; move = swap of all four fields; operator== compares [begin, end) of both sides',
    'RB.6': 'physical-index discipline: every access into the live storage uses m_pos, a euclidean (x mod capacity) value, or a raw index only where pos = 0 holds for that block',
    'RB.7': 'slot typestate: placement-new only on the vacant slot of the non-full path, assignment only on a live slot of the full path, explicit destruction only of live elements the specification removes, each once',
    'RB.8': 'ownership of m_data: a block is replaced only after its live elements were destroyed or relocated and it is freed (or handed to realloc / swapped); the destructor destroys [0, size) and frees',
    'RB.9': 'sizes: malloc / realloc / memcpy byte counts are count * sizeof(T); the euclidean-mod helper is a real modulo for negative indices (no unsigned wrap)',
}


class RCtx:
    def __init__(self, rows, dom, P, f, is_class, ow):
        self.rows = rows; self.dom = dom; self.P = P; self.f = f; self.is_class = is_class; self.ow = ow
        self.eqs = []
        for k, v in rows.items():
            if isinstance(k, tuple) and k[0] == 'sign' and v == '=' and dom.lin_of.get(k[1]) is not None: self.eqs.append(dom.lin_of[k[1]])
        self.ev = [(node, p) for k, node, p in P.events if k == 'c']
        self.writes = [(node, p) for k, node, p in P.events if k == 'write']

    def norm(self, l):
        """l reduced modulo the equalities of the row (Gaussian elimination over Q, pivots in a fixed symbol order)"""
        return self._reduce(l, self.eqs)

    @staticmethod
    def _vec(l):
        from fractions import Fraction
        v = {k: Fraction(c) for k, c in l.t.items() if c}
        if l.c: v['#1'] = Fraction(l.c)
        return v

    def _reduce(self, l, gens):
        from fractions import Fraction
        order = ['S', 'p:newCapacity', 'p:capacity', 'P', 'C']
        rank = lambda k: (order.index(k) if k in order else -1, k)
        basis = []           # (pivot symbol, vector) with pivot coefficient 1, each reduced by the earlier ones
        def red(v):
            v = dict(v)
            for piv, b in basis:
                c = v.get(piv)
                if c:
                    for k, x in b.items():
                        v[k] = v.get(k, 0) - c * x
                        if v[k] == 0: del v[k]
            return v
        for g in gens:
            v = red(self._vec(g))
            ks = [k for k in v if k != '#1']
            if not ks: continue
            piv = min(ks, key=rank)
            c = v[piv]
            v = {k: x / c for k, x in v.items()}
            # keep the basis fully reduced
            nb = []
            for p_, b in basis:
                cb = b.get(piv)
                if cb:
                    b = dict(b)
                    for k, x in v.items():
                        b[k] = b.get(k, 0) - cb * x
                        if b[k] == 0: del b[k]
                nb.append((p_, b))
            basis = nb + [(piv, v)]
        v = red(self._vec(l))
        if any(x.denominator != 1 for x in v.values()): return l
        return Lin({k: int(x) for k, x in v.items() if k != '#1'}, int(v.get('#1', 0)))

    def cong(self, a, b):
        x = self._reduce(a - b, self.eqs + [Lin.sym('C')])
        return x == Lin.const(0)

    def eq(self, a, b):
        return self.norm(a - b) == Lin.const(0)

    def facts_nonneg(self):
        """linear forms known to be >= 0 (strict flag) from the row and the object invariants"""
        if hasattr(self, '_facts'): return self._facts
        S_, C_, P_ = Lin.sym('S'), Lin.sym('C'), Lin.sym('P')
        out = [(S_, False), (P_, False), (C_ - S_, False), (C_ - P_ - Lin.const(1), False)]
        for k, v in self.rows.items():
            if isinstance(k, tuple) and k[0] == 'sign' and self.dom.lin_of.get(k[1]) is not None:
                d = self.dom.lin_of[k[1]]
                # integers: d > 0 is d - 1 >= 0
                if v == '>': out.append((d - Lin.const(1), False))
                elif v == '<': out.append((-d - Lin.const(1), False))
                else: out += [(d, False), (-d, False)]
        self._facts = out
        return out

    def sign(self, d):
        d = self.norm(d)
        s = self.dom.sign_of(d)
        if s is not None: return s
        # d >= f1 (+ f2) with known-nonnegative f: bounded search over one or two facts
        fs = self.facts_nonneg()
        for sgn, x in ((1, d), (-1, -d)):
            for i, (f1, s1) in enumerate(fs):
                r1 = x - f1
                if nonneg(r1):
                    if s1 or r1.c > 0: return sgn
                    ge0 = True
                for (f2, s2) in fs[i:]:
                    r2 = x - f1 - f2
                    if nonneg(r2) and (s1 or s2 or r2.c > 0): return sgn
        # exact zero through equalities is handled by norm(); otherwise unknown
        return None

    def contradictory(self):
        """the row's own facts refute each other (linear reasoning over integers; sound: only proven contradictions)"""
        if not hasattr(self, '_contra'):
            self._contra = False
            fs = self.facts_nonneg()
            for i, (d, strict) in enumerate(fs):
                # d >= 0 is claimed; is d < 0 provable from the other facts?
                self._facts = fs[:i] + fs[i + 1:]
                s_ = self.sign(d)
                self._facts = fs
                if s_ == -1: self._contra = True; break
        return self._contra

    def models(self, extra=('p:newCapacity',), bound=None):
        """valuations of the entry symbols (small buffers) that satisfy the object invariants and every atom of this row"""
        import itertools as it
        if bound is None: bound = MODEL_BOUND['ring']
        syms = set()
        for k, v in self.rows.items():
            if isinstance(k, tuple) and k[0] == 'sign' and self.dom.lin_of.get(k[1]) is not None: syms |= set(self.dom.lin_of[k[1]].t)
        free = [s_ for s_ in sorted(syms | set(extra)) if s_ not in ('P', 'S', 'C')]
        if len(free) > 2: raise LookupError('too many free symbols')
        for Cv in range(1, bound + 1):
            for Sv in range(0, Cv + 1):
                for Pv in range(0, Cv):
                    for fv in it.product(range(0, bound + 3), repeat=len(free)):
                        env = dict(P=Pv, S=Sv, C=Cv); env.update(zip(free, fv))
                        ok = True
                        for k, v in self.rows.items():
                            if not isinstance(k, tuple): continue
                            if k[0] == 'sign':
                                d = self.dom.lin_of.get(k[1])
                                x = concrete(d, env) if d is not None else None
                            elif k[0] == 'ord':
                                lr = self.dom.ord_vals.get(k[1])
                                if lr is None: x = None
                                else:
                                    a, b = concrete(lr[0], env), concrete(lr[1], env)
                                    x = None if a is None or b is None else a - b
                            else: continue
                            if x is None: raise LookupError(str(k))          # an atom over something else: no models claimed
                            if {'<': x < 0, '=': x == 0, '>': x > 0}[v] is False: ok = False; break
                        if ok: yield env

    def model_check(self, pred, **kw):
        """('refuted', witness state) | ('holds', number of small states consistent with this row, all satisfying pred) | ('unknown', 0)"""
        n = 0
        try:
            for env in self.models(**kw):
                n += 1
                if not pred(env): return 'refuted', env
        except LookupError:
            return 'unknown', 0
        return ('holds', n) if n else ('infeasible', 0)

    def inner(self, v):
        """linear form congruent to an index value (ModVal / ModPlus / Lin)"""
        v = self.dom.resolve_rem(v)
        if isinstance(v, ModVal): return v.inner
        if isinstance(v, ModPlus): return v.total()
        if isinstance(v, Lin): return v
        if isinstance(v, int): return Lin.const(v)
        return None

    def final(self, name):
        return field(self.P, 'this', name, self.dom)

    def is_full(self):
        return self.sign(Lin.sym('S') - Lin.sym('C')) == 0

    def elems(self, kinds=None):
        return [(n, p) for n, p in self.ev if p[0] == 'elem' and (kinds is None or p[1] in kinds)]

    def rowtxt(self): return row_str(self.rows)


def slot_inner(ctx, tgt):
    if isinstance(tgt, ElemRef): tgt = tgt.ptr
    if not isinstance(tgt, Ptr): return None, None
    off = tgt.off
    kind = 'mod' if isinstance(off, (ModVal, ModPlus)) else 'raw' if isinstance(off, Lin) else None
    return ctx.inner(off), kind


def raw_storage(facts, generic):
    """None if every instantiation of the container keeps its elements behind a raw pointer member m_data (what the block model of
    AR.* / RB.* describes); otherwise the type found"""
    for cn, c in facts.classes.items():
        if strip_targs(cn) != generic: continue
        for f in c['fields']:
            if f['name'] == 'm_data' and not f['ctype'].rstrip().endswith('*'): return f['ctype']
    return None


def ring_classes(facts):
    return sorted(c for c in facts.classes if strip_targs(c) == 'tulz::RingBuffer')


def ring_analyse(facts, rep):
    """returns {rule: [(ok, instance, site, why, key)]}"""
    facts = with_roles(facts, rep)
    res = {}

    def add0(rule, ok, inst, site, why='', key=None):
        res.setdefault(rule, []).append((bool(ok) if ok is not None else None, inst, site, why, key))
    add = add0
    classes = ring_classes(facts)
    nfn = 0
    st_ = raw_storage(facts, 'tulz::RingBuffer')
    if st_ is not None:
        for r_ in ('RB.1', 'RB.2', 'RB.3', 'RB.4', 'RB.5', 'RB.6', 'RB.7', 'RB.8', 'RB.9'):
            add0(r_, None, 'tulz::RingBuffer: storage model', 'include/tulz/container/RingBuffer.h', f'the elements are kept behind `{st_[:60]}`, not a raw pointer: the block model of the rules (malloc / realloc / free of m_data) does not describe this buffer')
        res['_nfn'] = 0; res['_nclasses'] = len(classes); res['_storage'] = st_
        return res
    P_, S_, C_ = Lin.sym('P'), Lin.sym('S'), Lin.sym('C')
    one = Lin.const(1)
    for Cn in classes:
        T = elem_type(Cn); tc, td = elem_traits(facts, Cn, T); is_class = not (tc and td)
        ow = Cn.rstrip('>').endswith('true')
        short = Cn.replace('std::basic_string<char>', 'std::string')
        fns = [f for f in facts.fns if f.d.get('classfull') == Cn and not f.d.get('lambda')]
        for f in fns:
            base = strip_targs(f.qname.split('::')[-1]) if not f.qname.split('::')[-1].startswith('operator') else f.qname.split('::')[-1]
            if base in ('alloc', 'realloc', 'free', 'modCap', 'dataIndex', 'overwriteCheck', 'notEmptyCheck', 'empty', 'full', 'size', 'capacity', 'cbegin', 'cend', 'push_back', 'push_front'): continue
            if f.d.get('access') in ('private', 'protected'): continue       # helpers are evaluated inlined into the public operations (with their call-site state)
            label = f'{short}::{f.name.split("::")[-1][:46]}'
            site = f.shortloc()
            nfn += 1
            if base in ('begin', 'end'):
                cons = [n for n in f.nodes() if n.k == 'construct' and 'RandomAccessIndexIterator' in (n.d.get('class') or '') and len(n.ns('args')) == 2]
                ok = False
                if cons:
                    a0, a1 = cons[0].ns('args')
                    this_ok = a0 is not None and a0.k == 'unop' and a0.op == '*' and a0.n('sub') is not None and a0.n('sub').k == 'this'
                    if base == 'begin': idx_ok = a1 is not None and a1.k == 'int' and a1.v == 0
                    else: idx_ok = a1 is not None and ((a1.k == 'call' and strip_targs(a1.calleeq or '') == 'tulz::RingBuffer::size') or a1.is_field('m_size'))
                    ok = this_ok and idx_ok
                add('RB.1', ok, f'{label}: iterator(*this, {"0" if base == "begin" else "size()"})', site, '' if ok else f'{base}() does not denote logical index {"0" if base == "begin" else "size()"} of this buffer', key=f'RB.1|{base}')
                continue
            if base == 'operator==':
                op_eq_static(f, add, label, site); continue
            try:
                results = explore(facts, f, T, is_class)
            except Inconclusive as e:
                add('RB.2', None, label, site, str(e)); continue
            for rows, dom, paths in results:
                fuzzy = None
                if dom.imprecise: fuzzy = f'a loop at {dom.imprecise[0][1]} is not in a form the range summariser handles (evaluated by bounded unrolling)'
                elif any(_UNK.search(str(k[1] if isinstance(k, tuple) else k)) for k in rows): fuzzy = 'the path condition contains a value the evaluator does not follow'
                def add(rule, ok, inst, site_, why='', key=None, _fz=fuzzy):
                    # a refutation needs an exact evaluation: with unknown values in play the verdict is "not decided"
                    if ok is False and (_fz or _UNK.search(why)): add0(rule, None, inst, site_, f'not decided ({_fz or "unknown value"}): {why}', key)
                    else: add0(rule, ok, inst, site_, why, key)
                for P in paths:
                    if P.end in ('throw', 'noreturn'): continue
                    ctx = RCtx(rows, dom, P, f, is_class, ow)
                    if ctx.contradictory(): continue          # no buffer state satisfies this combination of branch outcomes
                    rt = ctx.rowtxt()
                    # ---- generic: RB.6 / RB.9 on every path -------------------------------------------------------------------
                    for n, p in ctx.ev:
                        if p[0] == 'bad-mod':
                            add('RB.9', False, f'{label} {rt}', n.shortloc(), p[1], key='RB.9|bad-mod')
                        if p[0] in ('alloc', 'realloc'):
                            b = p[1] if p[0] == 'alloc' else p[2]
                            add('RB.9', isinstance(b, Bytes), f'{label}: {p[0]}({b})', n.shortloc(), '' if isinstance(b, Bytes) else f'{p[0]} of `{b}` bytes is not count * sizeof(T)', key=f'RB.9|{p[0]}-bytes')
                        if p[0] == 'memcpy':
                            okb = isinstance(p[3], Bytes) or (isinstance(p[3], Lin) and p[3] == Lin.const(0))
                            add('RB.9', okb, f'{label}: memcpy({p[3]})', n.shortloc(), '' if okb else f'memcpy length `{p[3]}` is not count * sizeof(T)', key='RB.9|memcpy-bytes')
                    check_rb6(ctx, add, label, rt, base)
                    fn = RING_OPS.get(base)
                    if fn is not None: fn(ctx, add, label, rt, site)
                    # an argument taken by reference may refer to an element of this very buffer (`rb.push(rb.back())`, which the standard containers
                    # allow): it must not be read after the block it may live in has been released
                    rparams = {p_['decl']: p_ for p_ in (f.d.get('params') or []) if (p_.get('ctype') or '').rstrip().endswith('&') and elem_type(Cn) and
                               (p_.get('ctype') or '').replace('const ', '').replace('&', '').strip() in (T, T.replace('std::basic_string<char>', 'std::string'))}
                    if rparams:
                        released = False
                        for n_, p_ in ctx.ev:
                            if p_[0] == 'free' and isinstance(p_[1], Ptr) and p_[1].base == 'data0': released = True
                            elif p_[0] == 'realloc' and isinstance(p_[1], Ptr) and p_[1].base == 'data0': released = True
                            elif released and p_[0] == 'elem' and p_[1] in ('construct', 'assign'):
                                srcs = p_[3] if isinstance(p_[3], (list, tuple)) else [p_[3]]
                                hit = next((rparams[x.loc[-1]] for x in srcs if isinstance(x, Ref) and isinstance(x.loc, tuple) and x.loc[0] == 'l' and x.loc[-1] in rparams), None)
                                if hit is not None:
                                    for r__ in ('RB.8', 'RB.2'): add(r__, False, f'{label} {rt}: a by-reference argument is read before the storage it may refer to is released', n_.shortloc(),
                                        f'`{hit["name"]}` ({hit["ctype"]}) is read to build the new element after the old block has been released (the buffer grew first): called with an element of this buffer — '
                                        f'`rb.{base}(rb.back())` — the reference points into freed storage: the element that is inserted is not the value that was passed', key=f'{r__}|arg-after-release|{base}')
                                    break
                    if base not in _RING_TABLE and is_class and not (f.d.get('ctor') or f.d.get('dtor') or f.d.get('copyassign') or f.d.get('moveassign')):
                        # a mutator outside the operation table (an erase, a truncate, a clear): whatever it does, an element that leaves the live
                        # range [0, size) was destroyed or moved out on the way
                        size1 = as_lin(ctx.final('m_size'))
                        if size1 is not None:
                            dS = size1 - Lin.sym('S')
                            if not dS.is_const() and size1.is_const() and not (ctx.elems({'destroy', 'moveout', 'assign'}) or any(p_[0] == 'range' for n_, p_ in ctx.ev)):
                                # the size is *set* (a clear / reset): elements leave whenever the buffer held more than that
                                st_, env_ = ctx.model_check(lambda e_: e_.get('S', 0) <= size1.c, extra=())
                                if st_ == 'refuted':
                                    add('RB.7', False, f'{label} {rt}: the element(s) that leave the live range are destroyed or moved out', site,
                                        f'm_size is set to {size1.c} and no element is destroyed or moved out (e.g. a buffer of {env_.get("S")} element(s), capacity {env_.get("C")}): the elements that still hold their values are left behind outside [0, size) — '
                                        'never destroyed, and the next insertions construct new elements over them', key=f'RB.7|{base}|leaves')
                            if dS.is_const() and dS.c < 0:
                                gone = ctx.elems({'destroy', 'moveout'}) or [1 for n_, p_ in ctx.ev if p_[0] == 'range' and p_[1] == 'destroy']
                                if not gone and (ctx.elems({'assign'}) or any(p_[0] == 'range' and p_[1] in ('assign', 'move') for n_, p_ in ctx.ev)): continue          # elements are shifted on this path: the one that leaves may have been moved from (judged on the path that shifts nothing)
                                add('RB.7', bool(gone), f'{label} {rt}: the {-dS.c} element(s) that leave the live range are destroyed or moved out', site,
                                    '' if gone else f'm_size goes down by {-dS.c} on this path and no element is destroyed or moved out: an element that still holds its value is left behind outside [0, size) — it is never destroyed, '
                                    'and the next insertion constructs a new element over it', key=f'RB.7|{base}|leaves')
    res['_nfn'] = nfn; res['_nclasses'] = len(classes)
    return res


def elem_traits(facts, Cn, T):
    """(std::is_trivially_copyable_v<T>, std::is_trivially_destructible_v<T>) of the element type, as computed by the compiler for this instantiation"""
    tt = (facts.cls(Cn) or {}).get('targ_traits') or []
    if tt: return bool(tt[0]['trivially_copyable']), bool(tt[0]['trivial_dtor'])
    return (T in TRIVIAL), (T in TRIVIAL)


def check_rb6(ctx, add, label, rt, base):
    """raw (non-mod) indices into a block are only allowed where pos is 0 for that block / equal to m_pos itself"""
    P_ = Lin.sym('P')
    cur_pos = Lin.const(0) if ctx.f.d.get('ctor') else P_
    final_pos = ctx.final('m_pos'); final_data = ctx.final('m_data')
    pos_at = {}; hist_at = {}
    pv = cur_pos; hist = [cur_pos]
    for k, node, p in ctx.P.events:
        if k == 'write' and p[0][0] == 'f' and p[0][1] == ('this', 'm_pos'): pv = p[1]; hist = hist + [pv]
        if k == 'c': pos_at[id(p)] = pv; hist_at[id(p)] = hist
    for n, p in ctx.ev:
        tgts = []
        if p[0] == 'elem': tgts = [(p[2], p[1])]
        elif p[0] == 'range' and p[2][0] in ('raw', 'mod'): tgts = [(Ptr(p[2][1], p[3] if p[2][0] == 'raw' else ModVal(p[3], Lin.sym('C'))), p[1])]
        for tgt, kind in tgts:
            if isinstance(tgt, ElemRef): tgt = tgt.ptr
            if not isinstance(tgt, Ptr): continue
            if not (tgt.base == 'data0' or tgt.base.startswith('blk@')): continue
            off = tgt.off
            if isinstance(off, (ModVal, ModPlus)): 
                add('RB.6', True, f'{label} {rt}: {kind} at {off}', n.shortloc()); continue
            if not isinstance(off, Lin):
                add('RB.6', None, f'{label} {rt}: {kind} at {off}', n.shortloc(), 'index form not understood'); continue
            pv = pos_at.get(id(p), cur_pos)
            pvl = ctx.inner(pv)
            # the slot may have been designated (reference bound) while the head still had an earlier value
            same_as_pos = any(isinstance(h, Lin) and ctx.eq(off, h) for h in hist_at.get(id(p), [pv]))
            block_is_final = isinstance(final_data, Ptr) and final_data.base == tgt.base
            pos_zero_for_block = (isinstance(pv, Lin) and pv == Lin.const(0)) if tgt.base == 'data0' and not block_is_final else (block_is_final and isinstance(final_pos, Lin) and final_pos == Lin.const(0) and (tgt.base != 'data0' or (isinstance(pv, Lin) and pv == Lin.const(0))))
            ok = same_as_pos or pos_zero_for_block
            add('RB.6', ok, f'{label} {rt}: {kind} at raw index {off}', n.shortloc(),
                '' if ok else f'`m_data[{off}]` is a logical index used as a physical one while the head position is {pv} for that block: with a non-zero head it designates a different element (or a slot holding none)',
                key=f'RB.6|raw|{strip_targs(ctx.f.qname)}')


# ---- per-operation specifications ---------------------------------------------------------------------------------------------------------
def op_emplace(front):
    def check(ctx, add, label, rt, site):
        P_, S_, C_ = Lin.sym('P'), Lin.sym('S'), Lin.sym('C'); one = Lin.const(1)
        full = ctx.is_full()
        es = ctx.elems({'construct', 'assign', 'destroy'})
        pos1 = ctx.inner(ctx.final('m_pos')); size1 = ctx.final('m_size')
        want_pos = (P_ - one) if front else ((P_ + one) if full else P_)
        want_size = S_ if full else S_ + one
        want_slot = (P_ - one) if front else (P_ if full else P_ + S_)
        want_kind = 'assign' if full else 'construct'
        key = 'front' if front else 'back'
        ok = pos1 is not None and ctx.cong(pos1, want_pos)
        add('RB.2', ok, f'{label} {rt}: pos\' ≡ {want_pos}', site, '' if ok else f'head position becomes {ctx.final("m_pos")}, the deque specification requires ≡ {want_pos} (mod capacity): every logical index is shifted', key=f'RB.2|emplace_{key}|pos')
        ok = as_lin(size1) is not None and ctx.eq(as_lin(size1), want_size)
        add('RB.2', ok, f'{label} {rt}: size\' = {want_size}', site, '' if ok else f'size becomes {size1}, expected {want_size}', key=f'RB.2|emplace_{key}|size')
        ok = len(es) == 1 and es[0][1][1] == want_kind
        why = ''
        if not ok:
            kinds_ = [e[1][1] for e in es]
            why = f'{kinds_} on the {"full" if full else "non-full"} path; expected exactly one {want_kind}: ' + \
                  ('the discarded element is destroyed before the new one is built from the arguments: pushing (a reference to) that very element — the natural way to rotate a full ring — reads a destroyed object' if full and kinds_ == ['destroy', 'construct'] else
                   'placement-new over a live element abandons it without destruction' if full else 'assignment to raw storage runs operator= on an object that was never constructed')
        add('RB.7', ok, f'{label} {rt}: exactly one {want_kind} of a slot', es[0][0].shortloc() if es else site, why, key=f'RB.7|emplace_{key}|kind')
        if es:
            inn, kind = slot_inner(ctx, es[0][1][2])
            ok = inn is not None and ctx.cong(inn, want_slot)
            add('RB.2', ok, f'{label} {rt}: the {es[0][1][1]}ed slot ≡ {want_slot}', es[0][0].shortloc(), '' if ok else f'slot {es[0][1][2]} ≢ {want_slot} (mod capacity): the wrong element is overwritten / a live element is constructed over', key=f'RB.2|emplace_{key}|slot')
        r = ctx.P.ret
        if isinstance(r, Ref): r = ctx.P.store.get(r.loc, r)
        inn, kind = slot_inner(ctx, r) if isinstance(r, (ElemRef, Ptr)) else (None, None)
        want_ret = want_pos if front else (want_pos + want_size - one)
        ok = inn is not None and ctx.cong(inn, want_ret) and ctx.cong(inn, want_slot)
        add('RB.3', ok, f'{label} {rt}: returns the inserted element', site, '' if ok else f'returns {r}, the inserted element is at ≡ {want_slot}', key=f'RB.3|emplace_{key}')
    return check


def op_pop(front):
    def check(ctx, add, label, rt, site):
        P_, S_ = Lin.sym('P'), Lin.sym('S'); one = Lin.const(1)
        pos1 = ctx.inner(ctx.final('m_pos')); size1 = as_lin(ctx.final('m_size'))
        want_pos = P_ + one if front else P_
        want_slot = P_ if front else P_ + S_ - one
        key = 'front' if front else 'back'
        ok = pos1 is not None and ctx.cong(pos1, want_pos)
        if not ok and ctx.sign(S_ - one) == 0:
            # the buffer becomes empty: every valid slot is as good a head as any other
            fp = ctx.final('m_pos')
            if isinstance(fp, ModVal) or (isinstance(fp, Lin) and fp.is_const() and fp.c == 0): ok = True
        add('RB.2', ok, f'{label} {rt}: pos\' ≡ {want_pos}' + (' (any valid slot once the buffer is empty)' if ctx.sign(S_ - one) == 0 else ''), site, '' if ok else f'head position becomes {ctx.final("m_pos")}, expected ≡ {want_pos}', key=f'RB.2|pop_{key}|pos')
        ok = size1 is not None and ctx.eq(size1, S_ - one)
        add('RB.2', ok, f'{label} {rt}: size\' = S-1', site, '' if ok else f'size becomes {size1}', key=f'RB.2|pop_{key}|size')
        mo = ctx.elems({'moveout'})
        r = ctx.P.ret
        slot = mo[0][1][2] if mo else (r if isinstance(r, (ElemRef, Ptr)) else None)
        inn, kind = slot_inner(ctx, slot) if slot is not None else (None, None)
        ok = inn is not None and ctx.cong(inn, want_slot)
        add('RB.3', ok, f'{label} {rt}: returns the value of the removed element (slot ≡ {want_slot})', mo[0][0].shortloc() if mo else site, '' if ok else f'the value is taken from {slot}, the removed element is at ≡ {want_slot}', key=f'RB.3|pop_{key}')
        bad = ctx.elems({'construct', 'assign'})
        add('RB.7', not bad, f'{label} {rt}: no slot is constructed / assigned by a pop', site, '' if not bad else 'pop writes a slot', key=f'RB.7|pop_{key}')
    return check


def op_index(ctx, add, label, rt, site):
    r = ctx.P.ret
    inn, kind = slot_inner(ctx, r) if isinstance(r, (ElemRef, Ptr)) else (None, None)
    want = Lin.sym('P') + Lin.sym('p:index')
    ok = inn is not None and ctx.cong(inn, want) and kind == 'mod'
    add('RB.1', ok, f'{label}: element i is m_data[(pos + i) mod capacity]', site, '' if ok else f'operator[] yields {r}', key='RB.1|index')


def op_front(ctx, add, label, rt, site):
    r = ctx.P.ret
    inn, kind = slot_inner(ctx, r) if isinstance(r, (ElemRef, Ptr)) else (None, None)
    ok = inn is not None and ctx.cong(inn, Lin.sym('P'))
    add('RB.1', ok, f'{label} {rt}: front() is logical element 0', site, '' if ok else f'front() yields {r}', key='RB.1|front')


def op_back(ctx, add, label, rt, site):
    r = ctx.P.ret
    inn, kind = slot_inner(ctx, r) if isinstance(r, (ElemRef, Ptr)) else (None, None)
    ok = inn is not None and ctx.cong(inn, Lin.sym('P') + Lin.sym('S') - Lin.const(1))
    add('RB.1', ok, f'{label} {rt}: back() is logical element size-1', site, '' if ok else f'back() yields {r}', key='RB.1|back')


def as_logical(ctx, p):
    """logical [lo, hi) of a range event on this buffer's own storage, or None"""
    tgt, lo, hi = p[2], p[3], p[4]
    if tgt == ('logical', 'this'): return lo, hi
    if tgt[0] == 'mod' and tgt[1] == 'data0': return lo - Lin.sym('P'), hi - Lin.sym('P')
    return None


def op_dtor(ctx, add, label, rt, site):
    S_ = Lin.sym('S')
    rg = [(n, p) for n, p in ctx.ev if p[0] == 'range' and p[1] == 'destroy']
    fr = [(n, p) for n, p in ctx.ev if p[0] == 'free']
    lg = as_logical(ctx, rg[0][1]) if len(rg) == 1 else None
    ok = lg is not None and ctx.eq(lg[0], Lin.const(0)) and ctx.eq(lg[1], S_)
    if not rg and not ctx.is_class:
        # elements of a trivially destructible type have no destructor to run (the compiler's trait, as in AR.4): skipping the loop is the same program
        add('RB.8', True, f'{label}: the elements are trivially destructible: nothing to destroy', site, key='RB.8|dtor-range')
    else: add('RB.8', ok, f'{label}: destroys logical [0, size)', rg[0][0].shortloc() if rg else site, '' if ok else f'destructor destroys {[(p[2], str(p[3]), str(p[4])) for n, p in rg]}: ' + ('elements stay alive' if not rg else 'slots holding no element are destroyed / live ones are skipped'), key='RB.8|dtor-range')
    ok = len(fr) == 1 and isinstance(fr[0][1][1], Ptr) and fr[0][1][1].base == 'data0' and (not rg or ctx.P.events.index(('c', fr[0][0], fr[0][1])) > ctx.P.events.index(('c', rg[0][0], rg[0][1])))
    add('RB.8', ok, f'{label}: frees the storage after destroying the elements', fr[0][0].shortloc() if fr else site, '' if ok else 'storage is not freed exactly once after the elements', key='RB.8|dtor-free')


def ownership(ctx, add, label, rt, site, opname):
    """RB.8 for functions that replace m_data"""
    S_ = Lin.sym('S')
    final_data = ctx.final('m_data')
    if not isinstance(final_data, Ptr): return
    if final_data.base == 'data0' or ctx.f.d.get('ctor') and not ctx.f.d.get('copy') and not ctx.f.d.get('move'): return
    # the entry block data0 is being replaced: it must be freed / realloc'ed / swapped away, and its S live elements accounted for
    released = False; relocated = None; destroyed = []
    for n, p in ctx.ev:
        if p[0] == 'free' and isinstance(p[1], Ptr) and p[1].base == 'data0': released = True; free_node = n
        if p[0] == 'realloc' and isinstance(p[1], Ptr) and p[1].base == 'data0': released = True; relocated = 'all'
        if p[0] == 'swap': released = True; relocated = 'all'
        if p[0] == 'memcpy' and isinstance(p[2], Ptr) and p[2].base == 'data0': relocated = (relocated or [])+[p] if relocated != 'all' else 'all'
        if p[0] == 'range' and p[1] == 'destroy' and (p[2] == ('logical', 'this') or (p[2][0] in ('mod', 'raw') and p[2][1] == 'data0')): destroyed.append(p)
    if ctx.f.d.get('ctor'):
        return
    add('RB.8', released, f'{label} {rt}: the replaced storage block is released', site,
        '' if released else 'm_data is overwritten with a new block while the old block is neither freed, reallocated nor swapped away: the old storage and every element in it leak', key=f'RB.8|{opname}|release')
    if not released or relocated == 'all' or not ctx.is_class: return
    # elements of the old block: relocated prefix [0,k) + destroyed [k,S)
    k = Lin.const(0)
    if isinstance(relocated, list):
        if any(isinstance(p[3], Unknown) or (isinstance(p[3], Bytes) and isinstance(p[3].n, Unknown)) or _UNK.search(str(p[3])) for p in relocated):
            add('RB.8', None, f'{label} {rt}: every element of the old block is relocated or destroyed before the block is freed', site, 'the number of elements a memcpy relocates is a value the evaluator does not follow', key=f'RB.8|{opname}|account')
            return
        for p in relocated:
            if isinstance(p[3], Bytes):
                kk = p[3].n if isinstance(p[3].n, Lin) else None
                if kk is not None: k = k + kk
    lo = None
    ok = False
    if destroyed:
        d = destroyed[0]
        lg = as_logical(ctx, d)
        ok = lg is not None and ctx.eq(lg[0], k) and ctx.eq(lg[1], S_)
    else:
        ok = ctx.eq(k, S_)
    add('RB.8', ok, f'{label} {rt}: every element of the old block is relocated ([0, {k})) or destroyed before the block is freed', site,
        '' if ok else f'relocated [0, {k}), destroyed {[(str(d[3]), str(d[4])) for d in destroyed] or "nothing"}, but the old block holds [0, S): ' + ('the remaining elements are abandoned' if not destroyed else 'the destroyed range does not match the cut-off tail'),
        key=f'RB.8|{opname}|account')


def op_copy_assign(ctx, add, label, rt, site):
    oS, oC = Lin.sym('other.S'), Lin.sym('other.C')
    if ctx.rows.get('self') or any(k == 'self' and v for k, v in ctx.rows.items()):
        return
    r = ctx.P.ret
    pos1 = ctx.final('m_pos'); size1 = as_lin(ctx.final('m_size')); cap1 = as_lin(ctx.final('m_capacity'))
    if not [1 for n, p in ctx.ev if p[0] in ('alloc', 'range', 'elem')] and not ctx.writes: return     # self-assignment early return
    ok = isinstance(pos1, Lin) and pos1 == Lin.const(0)
    rg = [(n, p) for n, p in ctx.ev if p[0] == 'range' and p[1] == 'construct']
    okr = len(rg) == 1 and rg[0][1][2][0] == 'raw' and rg[0][1][3] == Lin.const(0) and ctx.eq(rg[0][1][4], oS) and rg[0][1][5] == ('logical', 'other', Lin.const(0), oS)
    add('RB.5', ok and okr, f'{label} {rt}: copies other\'s logical [0, size) into slots [0, size) with pos = 0', rg[0][0].shortloc() if rg else site,
        '' if ok and okr else (f'elements are written to raw slots [0, n) but the head position stays {pos1}: the contents appear rotated / stale slots become visible' if not ok else f'copy loop writes {[(p[2], str(p[3]), str(p[4]), p[5]) for n, p in rg]}'), key='RB.5|copy')
    ok2 = size1 is not None and ctx.eq(size1, oS) and cap1 is not None and ctx.eq(cap1, oC)
    add('RB.5', ok2, f'{label} {rt}: size and capacity are taken from the source', site, '' if ok2 else f'size\'={size1}, capacity\'={cap1}', key='RB.5|copy-fields')
    al = [(n, p) for n, p in ctx.ev if p[0] == 'alloc']
    fd = ctx.final('m_data')
    if al:
        okb = isinstance(al[-1][1][1], Bytes) and as_lin(al[-1][1][1].n) is not None and cap1 is not None and ctx.eq(as_lin(al[-1][1][1].n), cap1)
        add('RB.5', okb, f'{label} {rt}: the new block holds capacity elements', al[-1][0].shortloc(), '' if okb else f'allocates {al[-1][1][1]} for capacity {cap1}', key='RB.5|copy-alloc')
    ownership(ctx, add, label, rt, site, 'copy-assign')
    if ctx.is_class and not ctx.f.d.get('ctor'):
        dg = [(n, p) for n, p in ctx.ev if p[0] == 'range' and p[1] == 'destroy']
        lg = as_logical(ctx, dg[0][1]) if len(dg) == 1 else None
        okd = lg is not None and ctx.eq(lg[0], Lin.const(0)) and ctx.eq(lg[1], Lin.sym('S'))
        add('RB.8', okd, f'{label} {rt}: the elements being replaced are destroyed once', dg[0][0].shortloc() if dg else site, '' if okd else 'the old elements are not destroyed (exactly once) before they are replaced', key='RB.8|copy-assign|destroy')


def op_move_assign(ctx, add, label, rt, site):
    """move construction / assignment: *this ends up with the source's entry state (all four fields), the source with a
    consistent state (this's former one, or the empty buffer); however it is written (swap, std::exchange, assignments)"""
    if not ctx.writes and not [p for n, p in ctx.ev if p[0] == 'swap']: return       # self-move path: nothing happens
    on = ctx.f.d['params'][0]['name'] if ctx.f.d.get('params') else 'other'
    names = ('m_pos', 'm_size', 'm_capacity', 'm_data')
    entry_this = {n_: ctx.dom.init_field(('this', n_), None) for n_ in names}
    dom2 = ctx.dom; was_ctor = dom2.ctor; dom2.ctor = False
    entry_other = {n_: dom2.init_field((on, n_), None) for n_ in names}
    dom2.ctor = was_ctor
    fin_this = {n_: ctx.final(n_) for n_ in names}
    fin_other = {n_: field(ctx.P, on, n_, ctx.dom) for n_ in names}
    def same(a, b):
        isnull = lambda x: (isinstance(x, Ptr) and x.base == 'null') or (isinstance(x, Lin) and x == Lin.const(0)) or x == 0
        if isnull(a) and isnull(b): return True
        if isinstance(a, Ptr) and isinstance(b, Ptr): return a == b
        la, lb = (as_lin(a) if isinstance(a, (Lin, int)) else None), (as_lin(b) if isinstance(b, (Lin, int)) else None)
        return la is not None and lb is not None and la == lb
    bad = [n_ for n_ in names if not same(fin_this[n_], entry_other[n_])]
    unk = [n_ for n_ in bad if not isinstance(fin_this[n_], (Lin, Ptr, int))]
    inst = f'{label}: *this takes over all four fields of the source'
    if not bad: add('RB.5', True, inst, site, key='RB.5|move')
    elif unk: add('RB.5', None, inst, site, f'{unk[0]} becomes {fin_this[unk[0]]}')
    else: add('RB.5', False, inst, site, f'after the move {", ".join(f"{n_} = {fin_this[n_]}" for n_ in bad)} (the source had {", ".join(f"{n_} = {entry_other[n_]}" for n_ in bad)}): the buffer is left inconsistent', key='RB.5|move')
    empty = {'m_pos': Lin.const(0), 'm_size': Lin.const(0), 'm_capacity': Lin.const(0), 'm_data': Ptr('null')}
    swapped = all(same(fin_other[n_], entry_this[n_]) for n_ in names)
    emptied = all(same(fin_other[n_], empty[n_]) for n_ in names)
    inst = f'{label}: the source is left in a consistent state (the former state of *this, or empty)'
    if swapped or emptied: add('RB.5', True, inst, site, key='RB.5|move-src')
    elif any(not isinstance(fin_other[n_], (Lin, Ptr, int)) for n_ in names): add('RB.5', None, inst, site, 'a field of the source gets a value the evaluator does not follow')
    else: add('RB.5', False, inst, site, 'the source keeps ' + ', '.join(f'{n_} = {fin_other[n_]}' for n_ in names) + ': it still refers to the storage that *this now owns (double free) or mixes two states', key='RB.5|move-src')
    # what *this held before: handed to the source (swap), or its elements destroyed and its block released before the take-over
    ownership(ctx, add, label, rt, site, 'move-assign')


def op_eq_static(f, add, label, site):
    """operator==: the four-iterator std::equal compares lengths and elements; the three-iterator form without a size test reads
    past the shorter side (a positive defect); any other formulation (hand-written loop) is not followed"""
    calls = [n for n in f.nodes() if n.k == 'call' and strip_targs(n.calleeq or '') == 'std::equal']
    inst = f'{label}: compares [begin, end) of both sides'
    def names(c): return [strip_targs(x.calleeq or '').split('::')[-1] if x is not None and x.k == 'call' else None for x in c.ns('args')]
    size_cmp = any(n.k == 'binop' and n.op in ('==', '!=') and all(x is not None and ((x.k == 'call' and strip_targs(x.calleeq or '').split('::')[-1] == 'size') or x.is_field('m_size')) for x in (n.n('lhs'), n.n('rhs'))) for n in f.nodes())
    if len(calls) == 1 and names(calls[0]) == ['begin', 'end', 'begin', 'end']: add('RB.5', True, inst, site, key='RB.5|eq')
    elif len(calls) == 1 and len(calls[0].ns('args')) == 3 and not size_cmp:
        add('RB.5', False, inst, calls[0].shortloc(), 'std::equal with three iterators and no size comparison: buffers of different length compare equal / the shorter one is read past its end', key='RB.5|eq')
    elif len(calls) == 1 and size_cmp and names(calls[0])[:2] == ['begin', 'end']: add('RB.5', True, inst, site, key='RB.5|eq')
    else: add('RB.5', None, inst, site, 'operator== is not written with std::equal over both ranges: the comparison is not followed')


def op_eq(ctx, add, label, rt, site):
    pass


def op_ctor_il(ctx, add, label, rt, site):
    rg = [(n, p) for n, p in ctx.ev if p[0] == 'range' and p[1] == 'construct']
    il = Lin.sym('il.size')
    ok = len(rg) == 1 and rg[0][1][2][0] == 'raw' and rg[0][1][3] == Lin.const(0) and ctx.eq(rg[0][1][4], il)
    size1 = as_lin(ctx.final('m_size')); pos1 = ctx.final('m_pos')
    ok = ok and size1 is not None and ctx.eq(size1, il) and isinstance(pos1, Lin) and pos1 == Lin.const(0)
    add('RB.5', ok, f'{label} {rt}: the list elements become logical [0, n) at pos 0', site, '' if ok else 'initializer-list constructor does not place the elements at [0, n)', key='RB.5|il')


def op_resize(ctx, add, label, rt, site):
    P_, S_, C_, N = Lin.sym('P'), Lin.sym('S'), Lin.sym('C'), Lin.sym('p:newCapacity')
    one = Lin.const(1)
    cap1 = as_lin(ctx.final('m_capacity')); size1 = as_lin(ctx.final('m_size')); pos1 = ctx.final('m_pos'); data1 = ctx.final('m_data')
    same = ctx.sign(N - C_) == 0
    if same:
        ok = not ctx.ev and not ctx.writes
        add('RB.4', ok, f'{label} {rt}: unchanged capacity is a no-op', site, '' if ok else 'resize to the same capacity modifies the buffer', key='RB.4|noop'); return
    ok = cap1 is not None and ctx.eq(cap1, N)
    add('RB.4', ok, f'{label} {rt}: capacity\' = n', site, '' if ok else f'capacity becomes {cap1}', key='RB.4|cap')
    re_ = [(n, p) for n, p in ctx.ev if p[0] == 'realloc']
    if re_:
        # in place: safe iff the live elements are contiguous and lie below n (and the head stays a valid index).
        # Proof: linear reasoning over the row; refutation: a concrete small buffer state consistent with the row.
        pos_kept = isinstance(pos1, Lin) and pos1 == P_
        def safe_at(env):
            P, S, C, n = env['P'], env['S'], env['C'], env['p:newCapacity']
            if n == 0: return True                   # capacity 0 is outside the property's domain (capacity >= 1)
            if S == 0:
                # nothing to lose; whatever the head is afterwards, it must be a valid slot of the new storage
                p1 = P if pos_kept else concrete(pos1, env)
                if p1 is None: raise LookupError('head after the reallocation')
                return 0 <= p1 < n
            return P + S <= C and P + S <= n
        sS = ctx.sign(S_)
        if sS == 0: needs = ([(N - P_, True)] if ctx.sign(N - C_) != 1 else []) if pos_kept else None
        else: needs = [(C_ - P_ - S_, False), (N - P_ - S_, False)]
        signs = [ctx.sign(d) for d, strict in needs] if needs is not None else []
        proved = needs is not None and sS is not None and all(s_ is not None and (s_ > 0 or (s_ == 0 and not strict)) for s_, (d, strict) in zip(signs, needs))
        safe = True if proved else None
        why = ''
        if not proved:
            verdict, w = ctx.model_check(safe_at)
            if verdict == 'infeasible': return      # no buffer state satisfies this combination of branch outcomes
            if verdict == 'holds':
                safe = True      # piecewise-linear guard over residues: decided on every buffer state with capacity <= 5 consistent with the row
            elif verdict == 'refuted':
                safe = False
                wrapped = w['S'] > 0 and w['P'] + w['S'] > w['C']
                why = (f'the in-place realloc branch is taken although the live elements may wrap around the end of the storage ({rt}): shrinking cuts wrapped elements off' if wrapped else
                       f'the in-place realloc branch is taken although the last live element is not known to lie below the new capacity ({rt}): realloc cuts off live elements that are never destroyed, size and head are kept, later accesses wrap onto other slots') + \
                      f' — e.g. head {w["P"]}, size {w["S"]}, capacity {w["C"]}, new capacity {w["p:newCapacity"]}'
            else: why = f'neither proved nor refuted from the path condition {rt}'
        add('RB.4', safe, f'{label} {rt}: in-place reallocation only when every live element lies below n', re_[0][0].shortloc(), why, key='RB.4|inplace-guard')
        if ctx.is_class or True:
            add('RB.8', safe, f'{label} {rt}: an in-place reallocation abandons no live element', re_[0][0].shortloc(), why, key='RB.8|inplace-guard')
        okf = size1 is not None and ctx.eq(size1, S_) and (pos_kept or (sS == 0 and safe is True))        # an empty buffer may rewind its head
        add('RB.4', okf, f'{label} {rt}: in place keeps pos and size (an empty buffer may move its head to any valid slot)', site, '' if okf else f'pos\'={pos1}, size\'={size1}', key='RB.4|inplace-fields')
        okb = isinstance(re_[0][1][2], Bytes) and as_lin(re_[0][1][2].n) is not None and ctx.eq(as_lin(re_[0][1][2].n), N)
        add('RB.9', okb, f'{label}: realloc(n * sizeof(T))', re_[0][0].shortloc(), '' if okb else f'realloc size {re_[0][1][2]}', key='RB.9|realloc-n')
        return
    al = [(n, p) for n, p in ctx.ev if p[0] == 'alloc']
    if not al:
        add('RB.4', False, f'{label} {rt}: neither realloc nor a new block', site, 'resize changes the capacity without changing the storage', key='RB.4|nostorage'); return
    k = S_ if ctx.sign(S_ - N) in (-1, 0) else N          # min(S, n)
    ok = size1 is not None and ctx.eq(size1, k) and isinstance(pos1, Lin) and pos1 == Lin.const(0) and isinstance(data1, Ptr) and data1.base == al[0][1][2].base
    add('RB.4', ok, f'{label} {rt}: linearised: pos\' = 0, size\' = min(size, n) = {k}', site, '' if ok else f'pos\'={pos1}, size\'={size1}, data\'={data1}: the buffer keeps more elements than fit / the wrong block', key='RB.4|linear-fields')
    okb = isinstance(al[0][1][1], Bytes) and as_lin(al[0][1][1].n) is not None and ctx.eq(as_lin(al[0][1][1].n), N)
    add('RB.9', okb, f'{label}: alloc(n * sizeof(T))', al[0][0].shortloc(), '' if okb else f'allocates {al[0][1][1]}', key='RB.9|alloc-n')
    mc = [(n, p) for n, p in ctx.ev if p[0] == 'memcpy']
    # expected: part 1: dst+0 <- src phys P, n1 = min(k, C-P); part 2: dst+n1 <- src phys Mod(P+n1), k-n1
    okc = False; why = f'{len(mc)} memcpy calls'
    mc = [(n, (p[0], p[1], p[2], Bytes(Lin.const(0)) if (isinstance(p[3], Lin) and p[3] == Lin.const(0)) else p[3])) for n, p in mc]
    if len(mc) == 2 and all(isinstance(p[3], Bytes) for n, p in mc):
        (n1n, p1), (n2n, p2) = mc
        c1 = p1[3].n; c2 = p2[3].n
        c1l = as_lin(c1) if isinstance(c1, Lin) else None
        wrap = ctx.sign(k - (C_ - P_))            # k vs C-P
        n1 = k if wrap in (-1, 0) else (C_ - P_)
        src1 = ctx.inner(p1[2].off) if isinstance(p1[2], Ptr) else None; dst1 = p1[1].off if isinstance(p1[1], Ptr) else None
        src2 = ctx.inner(p2[2].off) if isinstance(p2[2], Ptr) else None; dst2 = p2[1].off if isinstance(p2[1], Ptr) else None
        c2l = as_lin(c2) if isinstance(c2, Lin) else None
        okc = (c1l is not None and ctx.eq(c1l, n1) and src1 is not None and ctx.cong(src1, P_) and isinstance(p1[2].off, Lin) and isinstance(dst1, Lin) and dst1 == Lin.const(0)
               and c2l is not None and ctx.eq(c2l, k - n1) and src2 is not None and ctx.cong(src2, P_ + n1) and isinstance(dst2, Lin) and ctx.eq(dst2, n1)
               and p1[1].base == al[0][1][2].base and p2[1].base == al[0][1][2].base and p1[2].base == 'data0' and p2[2].base == 'data0')
        why = f'part 1: {c1} elements from {p1[2]} to {p1[1]}; part 2: {c2} elements from {p2[2]} to {p2[1]}; expected {n1} from slot P to 0, then {k - n1} from slot (P+{n1}) mod C to {n1}'
    else:
        rg = [(n, p) for n, p in ctx.ev if p[0] == 'range' and p[1] == 'construct']
        if len(rg) == 1 and rg[0][1][2][0] == 'raw' and rg[0][1][3] == Lin.const(0) and ctx.eq(rg[0][1][4], k): okc = True
    if not okc and all(isinstance(p[3], Bytes) and isinstance(p[1], Ptr) and isinstance(p[2], Ptr) for n, p in mc):          # (also no run at all: right when nothing is to be copied)
        # any other split into memcpy runs: evaluate the runs on every small buffer state consistent with the row
        newblk = al[0][1][2].base
        def copies_ok(env):
            kk = min(env['S'], env['p:newCapacity']); dst = {}
            for n_, p_ in mc:
                c_ = concrete(p_[3].n, env); d0 = concrete(p_[1].off, env); s0 = concrete(p_[2].off, env)
                if c_ is None or d0 is None or s0 is None: raise LookupError('memcpy operand')
                if c_ < 0: return False
                if c_ == 0: continue
                if p_[1].base != newblk or p_[2].base != 'data0': return False
                if s0 < 0 or s0 + c_ > env['C'] or d0 < 0 or d0 + c_ > env['p:newCapacity']: return False
                for j in range(c_): dst[d0 + j] = s0 + j
            return all(dst.get(j) == (env['P'] + j) % env['C'] for j in range(kk))
        try: verdict, w = ctx.model_check(copies_ok)
        except LookupError: verdict, w = 'unknown', None
        if verdict == 'infeasible': return
        if verdict == 'holds': okc = True
        elif verdict == 'refuted': why += f' — e.g. head {w["P"]}, size {w["S"]}, capacity {w["C"]}, new capacity {w["p:newCapacity"]}: the new block does not hold logical [0, {min(w["S"], w["p:newCapacity"])}) in order'
        else: okc = None; why = 'the memcpy runs could not be evaluated: ' + why
    if okc is False and mc and not all(isinstance(p[3], Bytes) and isinstance(p[1], Ptr) and isinstance(p[2], Ptr) for n, p in mc):
        okc = None; why = 'a memcpy operand is a value the evaluator does not follow: ' + why
    add('RB.4', okc, f'{label} {rt}: the first {k} logical elements are copied in order', mc[0][0].shortloc() if mc else site, '' if okc else why, key='RB.4|copy-order')
    ownership(ctx, add, label, rt, site, 'resize')
    if ctx.is_class:
        dg = [(n, p) for n, p in ctx.ev if p[0] == 'range' and p[1] == 'destroy']
        fr = [(n, p) for n, p in ctx.ev if p[0] == 'free']
        cut = ctx.sign(S_ - N) == 1
        if cut:
            lg = as_logical(ctx, dg[0][1]) if len(dg) == 1 else None
            okd = lg is not None and ctx.eq(lg[0], N) and ctx.eq(lg[1], S_)
            add('RB.7', okd, f'{label} {rt}: exactly the cut-off logical tail [n, size) is destroyed', dg[0][0].shortloc() if dg else site,
                '' if okd else (f'destroys {[(p[2][0], str(p[3]), str(p[4])) for n, p in dg] or "nothing"}, the cut-off elements are logical [n, size) = physical [(P+n) mod C, …)'), key='RB.7|resize-tail')
            if dg and fr:
                evs = [x for x in ctx.P.events if x[0] == 'c']
                before = [i for i, x in enumerate(evs) if x[2] is dg[0][1]][0] < [i for i, x in enumerate(evs) if x[2] is fr[0][1]][0]
                add('RB.7', before, f'{label} {rt}: the tail is destroyed before the old block is freed', fr[0][0].shortloc(), '' if before else 'elements are destroyed after their storage was freed', key='RB.7|resize-order')
        else:
            add('RB.7', not dg or all(ctx.eq(p[3], p[4]) for n, p in dg), f'{label} {rt}: nothing is destroyed when every element fits', site, '' if not dg else 'elements that are kept are destroyed', key='RB.7|resize-none')


RING_OPS = {
    'emplace_back': op_emplace(False), 'emplace_front': op_emplace(True),
    'pop_back': op_pop(False), 'pop_front': op_pop(True),
    'operator[]': op_index, 'front': op_front, 'back': op_back,
    'operator=': None, 'resize': op_resize, 'operator==': op_eq,
}


def _dispatch_special(ctx, add, label, rt, site):
    f = ctx.f
    if f.d.get('dtor'): return op_dtor(ctx, add, label, rt, site)
    if f.d.get('copyassign') or (f.d.get('ctor') and f.d.get('copy')): return op_copy_assign(ctx, add, label, rt, site)
    if f.d.get('moveassign') or (f.d.get('ctor') and f.d.get('move')): return op_move_assign(ctx, add, label, rt, site)
    if f.d.get('ctor') and any('initializer_list' in p['ctype'] for p in f.d['params']): return op_ctor_il(ctx, add, label, rt, site)
    if f.d.get('ctor'):
        al = [(n, p) for n, p in ctx.ev if p[0] == 'alloc']
        cap1 = as_lin(ctx.final('m_capacity'))
        ok = len(al) == 1 and isinstance(al[0][1][1], Bytes) and cap1 is not None and as_lin(al[0][1][1].n) is not None and ctx.eq(as_lin(al[0][1][1].n), cap1)
        add('RB.5', ok, f'{label}: allocates capacity elements, size 0, pos 0', site, '' if ok else 'constructor allocation does not match the capacity', key='RB.5|ctor')


class _Special(dict):
    def get(self, k, d=None):
        if k in self and self[k] is not None: return self[k]
        return _dispatch_special


_RING_TABLE = set(RING_OPS)
RING_OPS = _Special(RING_OPS)


def iterator_rules(facts, add):
    """RB.1b: RandomAccessIndexIterator operator table (shared by RingBuffer and Array)"""
    classes = sorted(c for c in facts.classes if strip_targs(c) == 'tulz::RandomAccessIndexIterator')
    idx, oidx = Lin.sym('index'), Lin.sym('other.index')
    n = 0
    for Cn in classes:
        short = Cn.replace('std::basic_string<char>', 'std::string')[:70]
        for f in [g for g in facts.fns if g.d.get('classfull') == Cn and not g.d.get('lambda') and not g.d.get('ctor')]:
            base = f.qname.split('::')[-1]
            T = 'T'
            label = f'{short}::{base}'
            try:
                results = explore(facts, f, T, True, ctor=False)
            except Inconclusive as e:
                add('RB.1', None, label, f.shortloc(), str(e)); continue
            n += 1
            for rows, dom, paths in results:
                for P in paths:
                    if P.end in ('throw', 'noreturn'): continue
                    fin = field(P, 'this', 'm_index', dom)
                    finl = as_lin(fin)
                    postfix = base in ('operator++', 'operator--') and len(f.d['params']) == 1
                    if base in ('operator++', 'operator--'):
                        d = Lin.const(1 if base.endswith('++') else -1)
                        ok = finl is not None and finl == idx + d
                        add('RB.1', ok, f'{label}{"(int)" if postfix else ""}: index\' = index {"+" if d.c > 0 else "-"} 1', f.shortloc(), '' if ok else f'index becomes {fin}', key=f'RB.1|it|{base}|{postfix}')
                    elif base in ('operator+=', 'operator-='):
                        i = Lin.sym('p:i'); want = idx + i if base == 'operator+=' else idx - i
                        ok = finl is not None and finl == want
                        add('RB.1', ok, f'{label}: index\' = {want}', f.shortloc(), '' if ok else f'index becomes {fin}', key=f'RB.1|it|{base}')
                    elif base in ('operator+', 'operator-') and f.d['params'] and 'RandomAccessIndexIterator' not in f.d['params'][0]['ctype']:
                        ok = finl is not None and finl == idx
                        add('RB.1', ok, f'{label}(n): leaves *this unchanged', f.shortloc(), '' if ok else f'index becomes {fin}', key=f'RB.1|it|{base}n')
                    elif base == 'operator-':
                        r = as_lin(P.ret) if isinstance(P.ret, (Lin, int)) else None
                        ok = r is not None and r == idx - oidx
                        add('RB.1', ok, f'{label}(it): distance = index - other.index', f.shortloc(), '' if ok else f'returns {P.ret}', key='RB.1|it|distance')
                    elif base in ('operator==', 'operator!=', 'operator<', 'operator>', 'operator<=', 'operator>='):
                        op = base[len('operator'):]
                        sg = dom.sign_of(idx - oidx)
                        if sg is None: continue
                        import operator as _o
                        want = {'<': _o.lt, '<=': _o.le, '>': _o.gt, '>=': _o.ge, '==': _o.eq, '!=': _o.ne}[op](sg, 0)
                        ok = P.ret is want
                        add('RB.1', ok, f'{label} on index {"<" if sg < 0 else "=" if sg == 0 else ">"} other.index = {P.ret}', f.shortloc(), '' if ok else f'expected {want}', key=f'RB.1|it|{base}')
                    elif base == 'operator*':
                        r = P.ret
                        inn = None
                        if isinstance(r, ElemRef) and r.ptr is not None:
                            off = r.ptr.off
                            inn = off.inner if isinstance(off, ModVal) else off.total() if isinstance(off, ModPlus) else off if isinstance(off, Lin) else None
                        rest = (inn - idx) if inn is not None else None
                        okk = rest is not None and (rest == Lin.const(0) or (rest.c == 0 and len(rest.t) == 1 and list(rest.t.values()) == [1] and list(rest.t)[0].endswith('.P')))
                        if inn is None and not okk: add('RB.1', None, f'{label}: *it is container[index]', f.shortloc(), f'dereference yields {r}: not an element reference the evaluator follows', key='RB.1|it|deref')
                        else: add('RB.1', okk, f'{label}: *it is container[index]', f.shortloc(), '' if okk else f'dereference yields {r}', key='RB.1|it|deref')
    return n
