"""C09 — RingBuffer never destroys, duplicates or abandons an element value wrongly (RB.6-RB.9)."""
import containers, observer
TUS = containers.TUS
def run(facts, rep, tier):
    if tier == 'thorough':
        containers.MODEL_BOUND.update(ring=8, sizes=5)          # deeper bounded decisions: every buffer state with capacity <= 8, sizes <= 5
        rep.note('small-model bounds raised for the thorough tier: ring capacity <= 8, sizes <= 5')
    res = containers.ring_analyse(facts, rep)
    observer.emit(facts, rep, ['RB.3', 'RB.6', 'RB.7', 'RB.8', 'RB.9'], {'RB.3': 28, 'RB.6': 40, 'RB.7': 40, 'RB.8': 14, 'RB.9': 14}, text=containers.RB_TEXT, res=res)
    rep.count('ring_functions', res.get('_nfn', 0))
    rep.floor('RingBuffer instantiations', res.get('_nclasses', 0), 6)
    rep.assume('moved-from shells left by pop_* are tolerated by the property; what T\'s own special members do is trusted; exception paths are not modelled')
