"""C03 — rwp::Resource: FIFO fairness, waiting requests are never overtaken."""
import resource
TUS = resource.TUS
def run(facts, rep, tier):
    resource.emit(facts, rep, 'C03', ['RES.2b', 'RES.3', 'RES.5', 'RES.6', 'RES.8', 'RES.10', 'RES.11'],
                  {'RES.2b': 3, 'RES.3': 8, 'RES.5': 6, 'RES.6': 4, 'RES.8': 8, 'RES.10': 2, 'RES.11': 8})
