"""C15 — data-race freedom of the threading components under their intended use.

Static Eraser-style lockset x thread-role analysis (DESIGN §4 C15, analyses A1-A3, A9).
"""
import collections
from lockset import Engine, protecting, RW_GUARDS
from facts import Node
import common
from facts import strip_targs

TUS = ['src/threading/rwp/Resource.cpp', 'src/threading/ThreadPool.cpp', 'src/threading/Thread.cpp',
       'witness/w_router.cpp', 'witness/w_thread.cpp', 'witness/w_all.cpp', 'src/observer/routing/SubjectRouter.cpp',
       'src/observer/routing/RoutingLevelView.cpp', 'src/observer/routing/RoutingKey.cpp']

SYNC_TYPES = ('std::mutex', 'std::condition_variable', 'std::recursive_mutex', 'tulz::rwp::Resource', 'std::shared_mutex')    # objects that are themselves synchronisation primitives (Resource: C01-C03, C12)
OWNER_API = {'tulz::ThreadPool': {'start', 'clear', 'update', 'stop', 'getExpiryTimeout', 'getMaxThreadCount', 'getActiveThreadCount',
                                  'getThreadCount', 'isRunning'},
             # a stand-alone tulz::Thread: the thread that owns the object starts it, polls it and joins it
             'tulz::Thread': {'start', 'join', 'isFinished', 'isRunning', 'isJoinable', 'Thread'}}
OUTSIDE_INTENDED_USE = {'tulz::ThreadPool::setExpiryTimeout', 'tulz::ThreadPool::setMaxThreadCount'}
ANY_THREAD = {'tulz::rwp::Resource': None,            # every public member
              'tulz::rwp::ReadLock': None, 'tulz::rwp::WriteLock': None,
              'tulz::ConcurrentSubjectRouter': None}       # every public member, whatever is added to the class: that any thread may call it is what the class is for


def collect(facts, rep):
    """runs the engine over every root of the property; returns (engine, roots)"""
    eng = Engine(facts, max_depth=12)
    roots = []
    for f in facts.fns:
        cls = f.d.get('class'); base = f.qname.split('::')[-1]
        if f.d.get('lambda') or f.d.get('access') != 'public' or f.d.get('dtor'): continue
        if cls in OWNER_API and (base in OWNER_API[cls] or (f.qname not in OUTSIDE_INTENDED_USE and not f.d.get('ctor') and not base.startswith('operator'))) and (not f.d.get('ctor') or cls == 'tulz::Thread'):
            roots.append((f, 'owner'))
        elif cls in ANY_THREAD and (ANY_THREAD[cls] is None or base in ANY_THREAD[cls]) and not (f.d.get('ctor') and cls == 'tulz::rwp::Resource'):
            roots.append((f, 'any'))
        elif cls == 'tulz::ThreadPool' and f.d.get('ctor'):
            roots.append((f, 'ctor'))
    # the handle's unsubscribe (every instantiation of ConcurrentInvoker<A...>::unsubscribe)
    for f in facts.fns:
        if f.gname == 'tulz::ConcurrentSubjectRouter::Subscription::ConcurrentInvoker::unsubscribe':
            roots.append((f, 'any'))
    # guard destructors run in any thread too
    for f in facts.fns:
        if f.d.get('dtor') and f.d.get('class') in ('tulz::rwp::ReadLock', 'tulz::rwp::WriteLock'):
            roots.append((f, 'any'))
    for f, role in roots:
        eng.run_root(f, role)
    done = set()
    while True:
        pend = [t for t in eng.thread_roots if (t[0].loc, t[0].name, tuple(t[3])) not in done]
        if not pend: break
        for lf, env, this, chain, lam in pend:
            done.add((lf.loc, lf.name, tuple(chain)))
            # the closure's `this` is the Thread object the creator ran on; captured pointers keep their meaning
            wenv = __import__('lockset').Env()
            wenv.clos = dict(getattr(env, 'clos', {}) or {})          # closures captured by the body keep their meaning
            for c in lam.captures or []:
                if 'decl' in c: wenv[c['decl']] = ('cap', c['var'])
            eng._run(__import__('lockset').Frame(lf, wenv, ('this',), ['<thread created in ' + chain[-1] + '>'], 0), frozenset(), ('worker', f'thread-body@{lf.shortloc()}'))
    return eng, roots


def lock_key(tok):
    """identity of a lock for cross-root matching: the lock object's type plus the (class, field) it is reached through;
    reference fields to a Resource designate the router's Resource (flow checked by CR.2 / common.invoker_resource_flow)"""
    cls, fld, mode, rel, ftype = tok
    # the router's lock: its own lock field, and the reference / pointer to it that the concurrent handle keeps (flow: DR.3)
    if ROUTER_LOCK.get('types') and ftype in ROUTER_LOCK['types'] and (strip_targs(cls).startswith('tulz::ConcurrentSubjectRouter')): return ('router-lock',)
    return (cls, fld)


ROUTER_LOCK = {}


def _creates_thread(facts, g, depth=0, seen=None):
    seen = seen or set()
    if g.name in seen or depth > 3: return False
    seen.add(g.name)
    for n in g.nodes():
        if n.k == 'construct' and (n.d.get('class') or '') in ('std::thread', 'std::jthread'): return True
        if n.k == 'call' and n.callee_in_root and any(_creates_thread(facts, t, depth + 1, seen) for t in facts.resolve(n)): return True
    return False


def _before_thread_creation(facts, acc):
    """the access is made in a member function that creates the std::thread (itself or through a helper), and every place where it
    does so comes after the access and cannot lead back to it"""
    g = next((h for h in facts.fns if h.name == acc.fn), None)
    if g is None or g.cfg is None or acc.node is None: return False
    sites = [n for n in g.nodes() if (n.k == 'construct' and (n.d.get('class') or '') in ('std::thread', 'std::jthread'))
             or (n.k == 'call' and n.callee_in_root and any(_creates_thread(facts, t) for t in facts.resolve(n)))]
    if not sites: return False
    try:
        return all(g.cfg.reaches(acc.node, c) and not g.cfg.reaches(c, acc.node) for c in sites)
    except Exception:
        return False


def compatible(m1, m2):
    """both may hold the lock at the same time"""
    return m1 == 'R' and m2 == 'R'


def run(facts, rep, tier):
    rep.rule('DR.1', 'every pair of accesses to the same field of a threading component, at least one a write, that may run in different '
                     'threads holds a common lock on the object (or an ancestor object) in incompatible modes, or the field is std::atomic, '
                     'or one of the happens-before facts E1-E5 (each itself checked) orders them')
    rep.rule('DR.2', 'explicit lock()/unlock() calls are balanced on every path; no lock is re-acquired while held')
    rep.rule('DR.3', 'the handle of ConcurrentSubjectRouter::subscribe locks the router\'s own Resource (flow of m_resource into ConcurrentInvoker)')
    rep.assume('intended use: Resource/guards from any thread; ThreadPool: one owner thread (start/clear/update/stop/getters) + workers; '
               'ConcurrentSubjectRouter: notify/subscribe/unsubscribe/shrink/exists/depth from any thread; user callbacks/tasks are opaque')
    rep.assume('two objects of the same class in different roots may be the same object (may-alias by class); a lock protects a field '
               'when it belongs to the same object or to an object that owns it by value / unique pointer')
    import roles
    # the exclusion every lock-based argument below relies on: rwp::Resource itself (the rule set of C01)
    import resource as _res
    _res.emit(facts, rep, 'C15', ['RES.1', 'RES.2a', 'RES.3', 'RES.4', 'RES.5', 'RES.6', 'RES.8x', 'RES.9', 'RES.11', 'RES.13', 'RES.15a', 'RES.16'],
              {'RES.1': 5, 'RES.2a': 3, 'RES.3': 8, 'RES.4': 4, 'RES.5': 6, 'RES.6': 4, 'RES.8x': 8, 'RES.9': 1, 'RES.11': 8, 'RES.13': 8, 'RES.15a': 2})
    facts = roles.subject_canonical(facts, rep)
    lf_ = common.router_lock_field(facts)
    ROUTER_LOCK['types'] = {common._bare(lf_['ctype'])} if lf_ is not None else set()
    eng, roots = collect(facts, rep)
    rep.count('roots', len(roots)); rep.count('thread_roots', len({(t[0].loc) for t in eng.thread_roots}))
    rep.count('field_accesses', len(eng.accesses))
    rep.floor('roots', len(roots), 25)
    for tn, chain in eng.unresolved_threads[:2]:
        rep.inconclusive('DR.1', 'std::thread body', tn.shortloc(), f'the thread is given {tn.ns("args")[0].text()[:60] if tn.ns("args") and tn.ns("args")[0] is not None else "?"}, not a lambda the analysis can follow: the accesses of that thread are not analysed')
    if not eng.unresolved_threads: rep.floor('worker thread bodies', len({(t[0].loc, tuple(sorted(c[0].shortloc() for c in getattr(t[1], 'clos', {}).values()))) for t in eng.thread_roots}), 2)
    rep.floor('field accesses (context-expanded)', len(eng.accesses), 400)
    for n, site in eng.depth_cut[:3]:
        rep.inconclusive('DR.1', f'inlining depth bound reached at {n}', site, 'call chain deeper than the analysis bound')

    # --- which accesses are shared --------------------------------------------------------------------------------
    def shared(a):
        p = a.path
        if not p or p[0] in ('local', 'tmp', '?', 'static', 'param', 'global'): return False
        if any(isinstance(x, str) and x.startswith('?') for x in p): return False
        return True

    ftype = {}
    for c in facts.classes.values():
        for f in c['fields']: ftype[(c['fullname'], f['name'])] = f['ctype']
    byfield = collections.defaultdict(list)
    skipped_roots = set()
    for a in eng.accesses:
        if a.root[1] in OUTSIDE_INTENDED_USE: skipped_roots.add(a.root[1]); continue
        if not shared(a): continue
        t = ftype.get((a.cls, a.field), '')
        if t.startswith(SYNC_TYPES) or common.rw_lock_type(facts, t): continue
        byfield[(a.cls, a.field)].append(a)
    for r in sorted(skipped_roots):
        rep.note(f'{r} is outside the intended-use list of the property (setter called while workers run would race); not analysed as a root')

    import threadpool
    tpa = threadpool.analyse(facts, rep)
    e4_ok, e4_why = common.quiescent_restart_write(facts, tpa.res)
    tp1 = [r for k in ('TP.1', 'TP.2') for r in tpa.res.get(k, [])]
    e7_ok = bool(tp1) and all(r[0] is True for r in tp1)
    if not e7_ok and not any(r[0] is False for r in tp1): e7_ok = None          # the premise is neither proved nor refuted
    rep.note(f'E7 (a task removed from the queue under m_queueMutex is owned by the worker that removed it) applicable: {e7_ok} — TP.1/TP.2: {len(tp1)} obligations')
    e5_ok, e5_why = common.pooled_thread_confined(facts)
    rep.check(True, 'DR.1', 'exemption E4 evaluated: ' + e4_why, 'src/threading/ThreadPool.cpp', '', nontrivial=True) if False else None
    rep.note(f'E4 (quiescent restart write) applicable: {e4_ok} — {e4_why}')
    rep.note(f'E5 (PooledThread confined to its worker) applicable: {e5_ok} — {e5_why}')

    def concurrent(a, b):
        ra, rb = a.root[0], b.root[0]
        if 'ctor' in (ra, rb): return False
        if ra == 'owner' and rb == 'owner': return False
        return True

    def exempt(a, b, cls, fld):
        # E1 / E3: the object is still under construction (not yet published; thread creation orders it)
        if a.ctor_obj or b.ctor_obj: return 'E1 (constructor of the object, before publication)'
        # fresh object not yet shared: `new X` held in a local of the creating function
        for x in (a, b):
            if x.path and x.path[0] == 'new': return 'E3 (object created by this thread, accessed before it is handed to the new thread)'
        if (cls, fld) == ('tulz::ThreadPool', 'm_isRunning') and e4_ok is not False:
            for x, y in ((a, b), (b, a)):
                if x.mode == 'W' and x.root[0] == 'owner' and common.is_quiescent_true_write(x.node, facts):
                    return 'E4 (restart write while no worker exists)' if e4_ok else 'UNDECIDED E4: ' + e4_why
        # E6: the task object a thread body received by copy-captured pointer and deletes itself is owned by that thread
        for x in (a, b):
            if x.root[0] == 'worker' and len(x.path) == 3 and x.path[0] == 'cap' and common.thread_body_deletes(facts, x.root[1], x.path[1], x.chain):
                if a.root == b.root and a.path[:2] == b.path[:2]: return 'E6 (task object owned by the thread that runs and deletes it)'
        # E8: a member of the Thread object that only its own thread body touches after start() created the thread: two runs of one
        # Thread object's body never overlap (assigning a new std::thread over a joinable one terminates the program)
        if strip_targs(cls) == 'tulz::Thread' and a.root == b.root and a.root[0] == 'worker' and a.path[:1] in (('cap',), ('this',)) and a.path[:2] == b.path[:2]:
            return 'E8 (the Thread object\'s own body: its runs on one object do not overlap)'
        # E9: what the starting thread writes into the Thread object before it creates the std::thread happens before everything the new
        # thread does (thread creation synchronises)
        if strip_targs(cls) == 'tulz::Thread' and {a.root[0], b.root[0]} == {'owner', 'worker'}:
            o_ = a if a.root[0] == 'owner' else b
            if _before_thread_creation(facts, o_): return 'E9 (written by start() before it creates the thread)'
        if e7_ok is not False and a.root[0] == 'worker' and b.root[0] == 'worker' and all(any(x.path[i:i + 2] == ('m_queue', '*') for i in range(len(x.path) - 1)) for x in (a, b)):
            return 'E7 (task removed from the queue under m_queueMutex: owned by the worker that removed it)' if e7_ok else 'UNDECIDED E7: the worker\'s take -> run -> delete discipline (TP.1 / TP.2) is not decided on this tree'
        if (cls, fld) == ('tulz::PooledThread', 'm_lastActiveTime') and e5_ok and a.root[0] == 'worker' and b.root[0] == 'worker':
            return 'E5 (each worker only reaches its own PooledThread)'
        return None

    n_pairs = 0
    undecided = {}
    for (cls, fld), accs in sorted(byfield.items()):
        is_atomic = any(x.atomic for x in accs)
        conflicts = {}
        ex_used = collections.Counter()
        for i, a in enumerate(accs):
            for b in accs[i:]:
                if 'W' not in (a.mode, b.mode): continue
                if a is b and a.root[0] not in ('any', 'worker'): continue
                if not concurrent(a, b): continue
                n_pairs += 1
                if is_atomic: continue
                pa = protecting(a); pb = protecting(b)
                common_lock = False
                for ta in pa:
                    for tb in pb:
                        if lock_key(ta) == lock_key(tb) and not compatible(ta[2], tb[2]): common_lock = True
                if common_lock: continue
                why = exempt(a, b, cls, fld)
                if why and why.startswith('UNDECIDED'):
                    undecided.setdefault((cls, fld), (a, b, why)); continue
                if why: ex_used[why] += 1; continue
                w, o = (a, b) if a.mode == 'W' else (b, a)
                ff_ = common.finding_fn(w)
                # a write made by a helper the class's entry function calls is filed under that call (whatever member the helper touches:
                # a cache kept next to the data it mirrors is written at the same place, by the same mechanism)
                key = f'RACE|{strip_targs(cls)}{("::" + fld) if ">" not in ff_ else ""}|{ff_}|{strip_targs(w.root[1])}'
                if key not in conflicts:
                    conflicts[key] = (w, o, pa if w is a else pb, pb if w is a else pa)
        inst = f'{cls}::{fld} ({len(accs)} accesses' + (', atomic' if is_atomic else '') + ''.join(f', {v}x {k}' for k, v in ex_used.items()) + ')'
        if (cls, fld) in undecided and not conflicts:
            a_, b_, why_ = undecided[(cls, fld)]
            rep.inconclusive('DR.1', inst, (a_ if a_.mode == 'W' else b_).site, f'conflicting accesses that are ordered only by a happens-before fact whose premise is not decided here — {why_[10:]}')
        elif not conflicts:
            rep.ok('DR.1', inst, accs[0].site)
        for key, (w, o, pw, po) in conflicts.items():
            def fmt(x, p):
                return f"{x.mode} at {x.site} in {x.fn} [root {x.root[0]}:{x.root[1]}; locks {sorted((t[1] + ':' + t[2]) for t in p) or 'none'}]"
            rep.violation('DR.1', inst, w.site, f'unsynchronised conflicting accesses: {fmt(w, pw)}  vs  {fmt(o, po)}', key=key, fn=w.fn,
                          details=dict(writer_chain=list(w.chain), other_chain=list(o.chain), writer_path=[str(x) for x in w.path], other_path=[str(x) for x in o.path]))
    rep.count('conflict_candidate_pairs', n_pairs)
    rep.floor('fields analysed', len(byfield), 12)

    # --- DR.2 balance ---------------------------------------------------------------------------------------------------
    seen = set()
    for fn, site, detail in eng.unbalanced:
        if (fn.name, site) in seen: continue
        seen.add((fn.name, site))
        rep.violation('DR.2', f'{fn.name}: {detail}', site, 'lock()/unlock() not balanced on every path', key=f'DR.2|{fn.gname}', fn=fn.name)
    for tok, site, chain in eng.reacquire:
        rep.violation('DR.2', f're-acquisition of {tok[2]} while held', site, f'self-deadlock: {tok[1]}::{tok[2]} acquired while already held (chain {" > ".join(chain[-3:])})',
                      key=f'DR.2|reacquire|{tok[2]}|{chain[-1]}', fn=chain[-1])
    if not eng.unbalanced and not eng.reacquire:
        n_explicit = sum(1 for e in eng.events if e[0] in ('acquire', 'release') and e[1].k == 'call')
        rep.ok('DR.2', f'{n_explicit} explicit lock/unlock events balanced; no lock re-acquired while held', 'src/threading/rwp/Resource.cpp')
    # --- DR.3 ------------------------------------------------------------------------------------------------------------
    ok, why, site = common.invoker_resource_flow(facts)
    rep.check(ok, 'DR.3', 'ConcurrentInvoker::m_resource is the router\'s m_resource', site, why, note=why, key='DR.3|flow', fn='tulz::ConcurrentSubjectRouter::subscribe')
