"""rwp::Resource as a monitor: every critical section of the code is evaluated, on every valuation of its branch
atoms, against the guarded commands of the reference monitor (DESIGN §4 Resource, App. B).  Shared by C01 C02 C03 C12.
"""
import itertools
from facts import Node, Inconclusive
from symex import Exec, Domain, Lin, Enum, Unknown, Record, Ref, Closure, State, as_lin
from lockset import Engine, protecting
import common

TUS = ['src/threading/rwp/Resource.cpp', 'witness/w_all.cpp']
CLS = 'tulz::rwp::Resource'
OP = 'tulz::rwp::Resource::OpType::'
STATE = ('m_queue', 'm_activeOp', 'm_activeCount', 'm_idCounter', 'm_upperUnlockBound')
GUARDS = ('std::unique_lock', 'std::scoped_lock', 'std::lock_guard')


def E(x): return Enum(OP + x)


class ResDomain(Domain):
    max_depth = 5
    # what the integral member of a queue entry holds (roles.infer_resource): 'bound' = the upper bound on the tickets of the
    # batch, 'count' = the number of requests in the batch.  The two are related by ub_k = bound + sum_{i<=k} count_i; the rows are
    # evaluated over the 'bound' symbols in both cases: front.count reads as front.ub - bound, back.count as the symbol back.cnt,
    # and what is stored is translated back where it is judged (RES.8)
    entry_repr = 'bound'

    def _cnt(self, which):
        # entries that keep both: the count of the front batch is front.ub - bound (the relation between the two), the back's a symbol
        return (Lin.sym('front.ub') - Lin.sym('bound')) if which == 'front' else Lin.sym('back.cnt')

    def _rec(self, which):
        f = {'type': E(self.val[which]), 'upperBound': self._ub(which)}
        if self.entry_repr == 'dual': f['count'] = self._cnt(which)
        return Record(f, tag=which)

    def _ub(self, which):
        if self.entry_repr == 'count':
            return (Lin.sym('front.ub') - Lin.sym('bound')) if which == 'front' else Lin.sym('back.cnt')
        return Lin.sym(which + '.ub')

    def __init__(self, val):
        self.val = val
        self.consulted = set()

    def init_field(self, path, node):
        last = path[-1]
        if len(path) >= 2 and path[-2] in ('@back', '@front'):
            which = path[-2][1:]
            if last == 'type': self.consulted.add(which); return E(self.val[which])
            if last == 'upperBound': return self._ub(which)
            if last == 'count' and self.entry_repr == 'dual': return self._cnt(which)
        if last in ('@back', '@front'):
            which = last[1:]; self.consulted.add(which)
            return self._rec(which)
        if last == 'm_activeOp': self.consulted.add('op'); return E(self.val['op'])
        if last == 'm_activeCount': return Lin.sym('cnt')
        if last == 'm_idCounter': return Lin.sym('next')
        if last == 'm_upperUnlockBound': return Lin.sym('bound')
        return Unknown('field:' + str(last))

    def init_param(self, fn, p):
        if p['ctype'].endswith('OpType'): self.consulted.add('t'); return E(self.val['t'])
        return Unknown('param:' + p['name'])

    def compare(self, ex, op, l, r, n, st, fr):
        ll, rl = as_lin(l), as_lin(r)
        if ll is None or rl is None: return None
        d = ll - rl
        key = None
        if d.t == {'cnt': 1} and d.c == -1: key = 'cnt1'        # (cnt-1) ? 0   with cnt >= 1
        elif d.t == {'cnt': -1} and d.c == 1: key = 'cnt1'; d = -d; op = {'<': '>', '>': '<', '<=': '>=', '>=': '<='}.get(op, op)
        elif d.t == {'cnt': 1} and d.c == 0: key = 'cnt0'
        elif d.t == {'next': 1} and d.c == 0: key = 'next0'
        elif d.t == {'id': 1, 'bound': -1} and d.c == 0: key = 'ord'
        elif d.t == {'id': -1, 'bound': 1} and d.c == 0: key = 'ord'; d = -d; op = {'<': '>', '>': '<', '<=': '>=', '>=': '<='}.get(op, op)
        elif d.t == {'next': 1, 'bound': -1} and d.c == 0: key = 'nb'          # outstanding tickets  <=>  queue not empty (I4)
        elif d.t == {'next': -1, 'bound': 1} and d.c == 0: key = 'nb'; d = -d; op = {'<': '>', '>': '<', '<=': '>=', '>=': '<='}.get(op, op)
        elif d.t == {'next': 1, 'bound2': -1} and d.c == 0: key = 'ord_after'  # own ticket (the pre-increment counter) vs the bound seen after a wake-up
        elif d.t == {'next': -1, 'bound2': 1} and d.c == 0: key = 'ord_after'; d = -d; op = {'<': '>', '>': '<', '<=': '>=', '>=': '<='}.get(op, op)
        if key is None and set(d.t) == {'front.ub', 'bound'} and d.t['front.ub'] == -d.t['bound'] and abs(d.t['bound']) == 1 and 'batch1' in self.val:
            # size of the batch at the front of the queue, front.ub - bound >= 1: the row says whether it is exactly one request
            if d.t['front.ub'] == -1: d = -d; op = {'<': '>', '>': '<', '<=': '>=', '>=': '<='}.get(op, op)
            self.consulted.add('batch1')
            import operator
            OPF = {'<': operator.lt, '<=': operator.le, '>': operator.gt, '>=': operator.ge, '==': operator.eq, '!=': operator.ne}
            if self.val['batch1']: return OPF[op](1 + d.c, 0)
            if d.c >= -1: return OPF[op](1, 0)           # batch >= 2 and batch + c >= 1
            return None
        if key is None and set(d.t) == {'cnt'} and abs(d.t['cnt']) == 1 and self.val.get('cnt1') is True and not (d.c == -1 * d.t['cnt']):
            # the holder count is exactly 1 in this row (cnt - 1 == 0): any other comparison of cnt with a constant is decided
            self.consulted.add('cnt1')
            import operator
            return {'<': operator.lt, '<=': operator.le, '>': operator.gt, '>=': operator.ge, '==': operator.eq, '!=': operator.ne}[op](d.t['cnt'] * 1 + d.c, 0)
        if key == 'nb':
            if 'QE' not in self.val: return None
            self.consulted.add('QE')
            sign = 0 if self.val['QE'] else 1
        else:
            if key is None or key not in self.val: return None
            self.consulted.add(key)
            v = self.val[key]
            if key in ('cnt1', 'cnt0', 'next0'):
                sign = 0 if v else 1        # quantity is 0 (atom true) or positive
            else:
                sign = {'<': -1, '=': 0, '>': 1}[v]
        import operator
        return {'<': operator.lt, '<=': operator.le, '>': operator.gt, '>=': operator.ge, '==': operator.eq, '!=': operator.ne}[op](sign, 0)

    def _queue_search(self, ex, n, q, st, fr):
        """std::find_if / std::ranges::find_if over m_queue with a predicate closure: (value,) or None.
        A forward search that accepts the front entry yields the front entry, a reverse search that accepts the back entry the back entry
        (exact for every queue).  Otherwise, if the entry at the other end is accepted, the search yields that entry in the queue that
        consists of exactly these two entries: good enough as the witness of a violation, not for a proof (witness_only)."""
        from facts import strip_targs
        qs = strip_targs(q)
        if qs not in ('std::find_if', 'std::ranges::find_if', 'std::ranges::__find_if_fn::operator()'): return None
        args = [a for a in n.ns('args') if a is not None]
        if qs.endswith('operator()') and args: args = args[1:]
        vals = [ex._rvalue(a, st, fr) for a in args]
        clo = next((v for v in vals if isinstance(v, Closure) and v.fn is not None), None)
        if clo is None: return None
        def is_q(a):
            return any(x.is_field('m_queue', CLS) for x in a.walk())
        names = [(a.callee_base() if a.k == 'call' else None) for a in args]
        rng = [a for a in args if is_q(a)]
        if not rng: return None
        reverse = any(nm in ('rbegin', 'crbegin') for nm in names) or any('reverse' in (a.text() or '') for a in rng)
        def accepts(which):
            rec = self._rec(which)
            self.consulted.add(which)
            rets = {P_.ret if isinstance(P_.ret, bool) else None for P_ in ex.run_closure(clo, args=[rec], this_path=fr.this)}
            return next(iter(rets)) if len(rets) == 1 else None
        self.consulted.add('QE')
        if self.val.get('QE'): return (Unknown('q.end'),)          # nothing to find in an empty queue
        first, second = ('back', 'front') if reverse else ('front', 'back')
        self.consulted.update(('front', 'back'))         # which entry a search yields depends on both ends: keep the rows apart
        a1 = accepts(first)
        if a1 is True: return (Ref(('f', fr.this + ('m_queue', '@' + first))),)
        if a1 is False:
            a2 = accepts(second)
            if a2 is True:
                self.witness_only = True
                return (Ref(('f', fr.this + ('m_queue', '@' + second))),)
        return (Unknown('q.search'),)

    witness_only = False

    def ext_call(self, ex, n, st, fr):
        k = n.k
        if k == 'construct':
            cls = n.d.get('class') or ''
            if cls.startswith(GUARDS):
                a = [x for x in n.ns('args') if x is not None]
                st.events.append(('guard', n, a[0].name if a and a[0].k == 'member' else None))
                return Unknown('guard')
            if n.copy or n.move:
                a = n.ns('args')
                return ex._rvalue(a[0], st, fr) if a and a[0] is not None else Unknown('copy')
            return Unknown('construct:' + cls)
        if k != 'call': return Unknown(k)
        q = n.calleeq or ''
        base = q.split('::')[-1]
        obj = n.n('object')
        if obj is None and n.ck == 'op' and n.ns('args'): obj = n.ns('args')[0]
        r_ = self._queue_search(ex, n, q, st, fr)
        if r_ is not None: return r_[0]
        if n.ck == 'op' and base in ('operator==', 'operator!=', 'operator->', 'operator*') and n.ns('args'):
            # iterators into the queue: the result of a search is (a reference to) the front / back entry
            vals = [ex._rvalue(a, st, fr) if a is not None else None for a in n.ns('args')]
            vals = [ex.read(v.loc, st, n) if isinstance(v, Ref) and isinstance(ex.read(v.loc, st, n), (Ref, Unknown)) else v for v in vals]
            vals = [Ref(('f', fr.this + ('m_queue', '@' + v.tag))) if isinstance(v, Record) and getattr(v, 'tag', None) in ('front', 'back') else v for v in vals]
            ent = [v for v in vals if isinstance(v, Ref) and len(v.loc) == 2 and v.loc[0] == 'f' and v.loc[1][-1] in ('@front', '@back')]
            if base in ('operator->', 'operator*') and ent: return ent[0]
            if base in ('operator==', 'operator!=') and len(vals) == 2 and ent:
                other = [v for v in vals if v is not ent[0]]
                if other and isinstance(other[0], Unknown) and str(other[0].tag) == 'q.end': return base == 'operator!='
                if len(ent) == 2: return (ent[0].loc == ent[1].loc) == (base == 'operator==')
        if obj is not None and obj.is_field('m_queue', CLS):
            qpath = ('f', fr.this + ('m_queue',))
            if base == 'empty': self.consulted.add('QE'); return bool(self.val['QE'])
            if base in ('back', 'front'): return Ref(('f', fr.this + ('m_queue', '@' + base)))
            if base in ('push_back', 'emplace_back', 'push_front', 'emplace_front'):
                a = [ex._rvalue(x, st, fr) for x in n.ns('args') if x is not None]
                st.events.append(('q', n, (base, a[0] if len(a) == 1 else a))); return None
            if base in ('end', 'cend', 'rend', 'crend'): return Unknown('q.end')
            if base in ('begin', 'cbegin', 'rbegin', 'crbegin', 'size'): return Unknown('q.' + base)          # looking at the queue is not a queue operation
            st.events.append(('q', n, (base, None)))
            return Unknown('q.' + base)
        if obj is not None and obj.is_field('m_cv', CLS):
            if base.startswith('wait'):
                a = [ex._rvalue(x, st, fr) for x in n.ns('args') if x is not None]
                pred = next((x for x in a if isinstance(x, Closure)), None)
                st.events.append(('wait', n, pred))
                # while this thread slept, other threads changed the monitor state: what it reads afterwards is not what the row says it held on entry
                for fldn, sym in (('m_upperUnlockBound', 'bound2'), ('m_idCounter', 'next2'), ('m_activeCount', 'cnt2')):
                    st.store[('f', fr.this + (fldn,))] = Lin.sym(sym)
                st.store[('f', fr.this + ('m_activeOp',))] = Unknown('op-after-wait')
                return None
            st.events.append((base, n, None)); return None
        if obj is not None and obj.is_field('m_mutex', CLS):
            st.events.append(('mutex.' + base, n, None)); return None
        if q.startswith('std::unique_lock') or q.startswith('std::condition_variable'):
            st.events.append(('sync', n, base)); return None
        return Unknown(f'call:{q}@{n.line}')


def _queue_search_doc(): pass


def fld(store, this, name, dom):
    key = ('f', this + (name,))
    if key in store: return store[key]
    return dom.init_field(this + (name,), None)


def is_state_loc(loc):
    return loc[0] == 'f' and any(x in STATE for x in loc[1])


def feasible(v):
    if not v['QE'] and v['op'] == 'None': return False          # I5: a non-empty queue implies an active operation
    if v.get('next0') and not v['QE']: return False              # no ticket outstanding => nobody queued
    if v['QE'] and (v['back'] != 'Read' or v['front'] != 'Read'): return False   # placeholders only
    return True


def rows_lock(exposures=()):
    for QE, op, t, back, front, next0 in itertools.product([True, False], ['None', 'Read', 'Write'], ['Read', 'Write'], ['Read', 'Write'], ['Read', 'Write'], [True, False]):
        v = dict(QE=QE, op=op, t=t, back=back, front=front, next0=next0)
        if feasible(v): yield v
    # RES.14: states that unlock() leaves behind between its critical sections (holder count 0, select() still to come): lock() can run there
    for eop, eqe, esite in exposures:
        for t, back, front in itertools.product(['Read', 'Write'], ['Read', 'Write'], ['Read', 'Write']):
            if eqe and (back != 'Read' or front != 'Read'): continue
            yield dict(QE=eqe, op=eop, t=t, back=back, front=front, next0=False, exposed=esite)


def show(v, keys):
    return '(' + ', '.join(f'{k}={v[k]}' for k in keys if k in v) + ')'


class ResourceAnalysis:
    def __init__(self, facts, rep):
        self.facts = facts; self.rep = rep
        self.fn = {}
        for name in ('lock', 'unlock', 'enqueue', 'select', 'lockRead', 'lockWrite', 'unlockRead', 'unlockWrite'):
            f = facts.fn(f'{CLS}::{name}')
            if f is None and name == 'enqueue': continue          # written inline in lock(): the lock rows see its queue operations either way
            if f is None: rep.anchor_missing(f'{CLS}::{name}', 'function not found'); continue
            if name in ('lock', 'unlock') and not (len(f.d['params']) == 1 and f.d['params'][0]['ctype'].endswith('OpType')):
                rep.anchor_missing(f'{CLS}::{name}(OpType)', f'{name}() takes ({", ".join(p_["ctype"] for p_ in f.d["params"])}): a re-designed lock, the tables do not apply'); continue
            self.fn[name] = f
        c = facts.cls(CLS)
        if c is None: rep.anchor_missing(CLS, 'class not found')
        else:
            have = {f['name'] for f in c['fields']}
            for s in STATE + ('m_mutex', 'm_cv'):
                if s not in have: rep.anchor_missing(f'{CLS}::{s}', 'field not found (re-designed lock: rules do not apply)')
        self.results = {}     # rule -> list of (ok, instance, site, why)

    def add(self, rule, ok, instance, site, why=''):
        self.results.setdefault(rule, []).append((ok, instance, site, why))

    def add3(self, rule, got, want_set, instance, site, why):
        """tri-state: `got` must be a value the evaluator understood (Lin / Enum); otherwise the instance is inconclusive"""
        if not isinstance(got, (Lin, Enum, bool, int)):
            self.unknown(rule, instance, site, f'value not understood by the evaluator: {got}')
            return None
        ok = any(got == w for w in want_set)
        self.add(rule, ok, instance, site, '' if ok else why)
        return ok

    def unknown(self, rule, instance, site, why):
        self.results.setdefault(rule, []).append((None, instance, site, why))

    # ---- RES.1 ------------------------------------------------------------------------------------------------------
    def res1(self):
        eng = Engine(self.facts, max_depth=6)
        roots = [f for n, f in self.fn.items() if n in ('lockRead', 'lockWrite', 'unlockRead', 'unlockWrite')]
        for f in roots: eng.run_root(f, 'any')
        per = {}
        for a in eng.accesses:
            if a.cls != CLS or a.field not in STATE: continue
            held = [t for t in protecting(a) if t[1] == 'm_mutex' and t[3] == 'own']
            per.setdefault(a.field, []).append((a, bool(held)))
        for fldn in STATE:
            accs = per.get(fldn, [])
            bad = [a for a, ok in accs if not ok]
            if not accs:
                self.unknown('RES.1', f'{fldn}: no access found', self.fn['lock'].shortloc() if 'lock' in self.fn else '', 'state field never accessed'); continue
            if bad:
                a = bad[0]
                self.add('RES.1', False, f'{fldn}: {len(bad)} of {len(accs)} accesses without m_mutex', a.site,
                         f'{a.mode} access to {fldn} at {a.site} in {a.fn} (reached from {a.root[1]}) does not hold m_mutex — the monitor state is only consistent inside the critical section, atomic or not')
            else:
                self.add('RES.1', True, f'{fldn}: {len(accs)} accesses, all under m_mutex', accs[0][0].site)
        for fn, site, detail in eng.unbalanced:
            self.add('RES.1', False, f'{fn.name}: lock/unlock unbalanced', site, detail)
        self.n_access = sum(len(v) for v in per.values())

    # ---- RES.14: is I5 (queue not empty => an operation is active) re-established before unlock() releases the mutex? ------------------
    def exposure(self):
        """the states unlock() leaves behind when it releases the monitor mutex between the decrement that brings the holder count to 0
        and the select() that is still to come (the hand-over happens in a later critical section): [(active op, queue empty, site)]"""
        if hasattr(self, '_exposures'): return self._exposures
        self._exposures = []; self._exposed = None
        f = self.fn.get('unlock')
        if f is None: return self._exposures
        for QE, front, t in itertools.product([True, False], ['Read', 'Write'], ['Read', 'Write']):
            if QE and front != 'Read': continue
            v = dict(cnt1=True, QE=QE, front=front, back=front, op=t, t=t, batch1=True)
            dom = ResDomain(v); ex = Exec(self.facts, dom)
            try: paths = [P_ for P_ in ex.run(f) if P_.end not in ('noreturn', 'throw')]
            except Inconclusive: return self._exposures
            for P in paths:
                ev = P.events
                cw = [i for i, e in enumerate(ev) if e[0] == 'write' and e[2][0][0] == 'f' and e[2][0][1][-1] == 'm_activeCount']
                sel = [i for i, e in enumerate(ev) if e[0] == 'enter' and e[2] == f'{CLS}::select']
                if not cw or not sel or sel[0] < cw[0]: continue
                op = E(t)
                for i in range(cw[0], sel[0]):
                    e = ev[i]
                    if e[0] == 'write' and e[2][0][0] == 'f' and e[2][0][1][-1] == 'm_activeOp': op = e[2][1]
                    released = e[0] == 'mutex.unlock' or (e[0] == 'autodtor' and str(e[2][2]).replace('const ', '').startswith(GUARDS)) or (e[0] == 'sync' and e[2] == 'unlock')
                    if released and isinstance(op, Enum):
                        prev = next((x[1] for x in reversed(ev[:i]) if x[1] is not None), None)
                        site = prev.shortloc() if prev is not None else f.shortloc()
                        opn = str(op.name if hasattr(op, 'name') else op).split('::')[-1]
                        if (opn, QE) not in [(a_, b_) for a_, b_, _ in self._exposures]:
                            self._exposures.append((opn, QE, site))
                            self.add('RES.14', True, f'unlock(): the state it leaves between its critical sections (active operation {opn}, holder count 0, queue {"empty" if QE else "not empty"}, select() still to come) is taken into the lock() table', site, '')
                        break
        if self._exposures: self._exposed = self._exposures[0][2]
        else: self.add('RES.14', True, 'unlock() decrements and selects in one critical section: no intermediate state is visible to lock()', f.shortloc(), '')
        return self._exposures

    # ---- lock() --------------------------------------------------------------------------------------------------------
    def lock_rows(self):
        f = self.fn.get('lock')
        if f is None: return
        site = f.shortloc()
        this = ('this',)
        seen = {}
        self.loop_form = False
        for v0 in rows_lock(self.exposure()):
            for ord_after in ('<', '=', '>'):
                v = dict(v0, ord_after=ord_after)
                dom = ResDomain(v); ex = Exec(self.facts, dom)
                paths = [P_ for P_ in ex.run(f, args=None) if P_.end not in ('noreturn', 'throw')]       # a failed assert ends the program: not a behaviour of the lock
                used = tuple(sorted(dom.consulted))
                if 'ord_after' not in used and ord_after != '<': continue
                # rows that differ only in atoms the code never looked at take the same path, but the specification may still
                # distinguish them (a guard that forgot to look at the queue): keep QE / op / t in every row
                keep = set(used) | {'QE', 'op', 't'} | ({'exposed'} if v.get('exposed') else set())
                if not v['QE'] and ({'front', 'back'} & set(used)): keep |= {'front', 'back'}      # which entry is touched is judged against both ends
                if not v['QE'] and v['t'] == 'Read': keep |= {'back'}          # whether a reader may be merged depends on the back entry, whether or not the code looks at it
                sig = tuple((k, v[k]) for k in sorted(keep) if k in v)
                if sig in seen: continue
                seen[sig] = True
                row = show(v, [k for k in ('QE', 'op', 't', 'back', 'front', 'next0', 'ord_after') if k in keep])
                for P in paths:
                    self._lock_path(P, v, row, dom, this, site, used)
        self.n_lock_rows = len(seen)

    def _writes(self, P, fld_name, upto=None, after=None):
        out = []
        for i, e in enumerate(P.events):
            if upto is not None and i >= upto: break
            if after is not None and i <= after: continue
            if e[0] == 'write' and e[2][0][0] == 'f' and e[2][0][1][-1] == fld_name: out.append(e)
        return out

    def _one_section(self, P, row, site, waited):
        """RES.15: what lock() does to the monitor state (count the holder / take a ticket and queue) happens in the critical section
        in which it looked at the state and decided so"""
        ev = P.events
        def is_rel(e): return e[0] == 'mutex.unlock' or (e[0] == 'autodtor' and str(e[2][2]).replace('const ', '').startswith(GUARDS)) or (e[0] == 'sync' and e[2] == 'unlock')
        def on_state(e):
            return e[0] == 'branch' and e[1] is not None and any(x.k == 'member' and x.field and x.name in STATE for x in e[1].walk())
        act = next((i for i, e in enumerate(ev) if (e[0] == 'write' and is_state_loc(e[2][0])) or e[0] == 'q'), None)
        if act is None: return
        rels = [i for i, e in enumerate(ev[:act]) if is_rel(e)]
        inst = f'row {row}: lock() decides and acts in one critical section'
        R15 = 'RES.15b' if waited else 'RES.15a'
        if not rels:
            self.add(R15, True, inst, site); return
        looked_before = any(on_state(e) for e in ev[:rels[-1]])
        looked_after = any(on_state(e) for e in ev[rels[-1]:act])
        rs = next((x[1] for x in reversed(ev[:rels[-1]]) if x[1] is not None), None)
        rsite = rs.shortloc() if rs is not None else site
        if looked_before and not looked_after:
            self.add(R15, False, inst, rsite,
                     'the state is examined in one critical section and the request is counted / queued in a later one without looking again: in between the last holder may leave '
                     '(the resource goes idle, nobody is left to call select()) or another request may be admitted — the request then waits in a writer-free state, or two requests are admitted on the same observation')
        elif looked_after: self.add(R15, None, inst, rsite, 'lock() releases the mutex and examines the state again afterwards: whether the second look is sufficient is not followed')
        else: self.add(R15, True, inst, site)

    def _lock_path(self, P, v, row, dom, this, site, used):
        if getattr(dom, 'witness_only', False):
            # a search over the queue was answered for the two-entry queue only: refutations stand, proofs do not
            orig = self.add
            def weak(rule, ok, inst, site_, why='', *a, **k):
                if ok is True: return orig(rule, None, inst, site_, 'a search over the request queue was evaluated for the queue that consists of its front and back entry only: not a proof for longer queues', *a, **k)
                return orig(rule, ok, inst, site_, why, *a, **k)
            self.add = weak
            try: dom.witness_only = False; self._lock_path(P, v, row, dom, this, site, used)
            finally: self.add = orig; dom.witness_only = True
            return
        if P.unknown_atoms:
            orig, soft = self._soft(P.unknown_atoms[0]); ua = P.unknown_atoms
            self.add = soft; P.unknown_atoms = []
            try: self._lock_path(P, v, row, dom, this, site, used)
            finally: self.add = orig; P.unknown_atoms = ua
            return
        if P.unknown_atoms:
            c = P.unknown_atoms[0]
            self.unknown('RES.2', f'row {row}', c.shortloc(), f'branch atom outside the table vocabulary: {c.text()[:80]}')
            return
        waits = [i for i, e in enumerate(P.events) if e[0] == 'wait']
        waited = bool(waits)
        self._one_section(P, row, site, waited)
        admit_ok = v['op'] == 'None' or (v['op'] == 'Read' and v['t'] == 'Read')
        if v.get('exposed'):
            row += f' [holder count 0, select() pending: the state unlock() leaves behind at {v["exposed"]}]'
            if not waited:
                then = ('select() then finds the queue empty and resets the resource to idle while this request holds it: the next writer is admitted next to it' if v['QE'] else
                        'select() then admits the queue head as well and overwrites the holder count: two holders, one of them possibly a writer')
                self.add('RES.2a', False, f'row {row}: admitted without waiting', site,
                         f'unlock() releases the mutex at {v["exposed"]} after the last holder left and before select() has run; a request arriving in between is admitted on the fast path; {then}')
                self.add('RES.2b', False, f'row {row}: admitted without waiting', site, f'fast path admits past a non-empty queue (barging): {row}')
                return
        if not waited:
            self.add('RES.2a', admit_ok, f'row {row}: admitted without waiting', site,
                     '' if admit_ok else f'fast path admits a {v["t"]} request while the active operation is {v["op"]}: {row}')
            self.add('RES.2b', v['QE'], f'row {row}: admitted without waiting', site,
                     '' if v['QE'] else f'fast path admits past a non-empty queue (barging): {row}')
        if v['QE'] and v['op'] in ('None', 'Read') and v['t'] == 'Read':
            self.add('RES.2c', not waited, f'row {row}: reader, no writer active or queued', site,
                     '' if not waited else f'a read request waits although no write request is active or waiting: {row}')
        bw = self._writes(P, 'm_upperUnlockBound')
        self.add('RES.11', not bw, f'row {row}: lock() leaves the published bound alone', bw[0][1].shortloc() if bw else site,
                 '' if not bw else f'lock() writes m_upperUnlockBound (= {bw[0][2][1]}) outside select(): admitted waiters with id >= the new bound sleep forever')
        cw = self._writes(P, 'm_activeCount'); nw = self._writes(P, 'm_idCounter'); ow = self._writes(P, 'm_activeOp')
        qs_all = P.ev('q')
        if not waited:
            cnt_ok = len(cw) == 1 and isinstance(cw[0][2][1], Lin) and cw[0][2][1] == Lin.sym('cnt') + Lin.const(1)
            op_final = ow[-1][2][1] if ow else E(v['op'])
            op_ok = op_final == E(v['t'])
            if cw and not isinstance(cw[0][2][1], Lin):
                self.unknown('RES.3', f'row {row}: fast path', cw[0][1].shortloc(), f'holder count is set to a value the evaluator cannot follow ({cw[0][2][1]})'); return
            ok = cnt_ok and op_ok and not nw and not qs_all
            why = ''
            if not ok:
                why = f'fast path must set op := t, cnt := cnt+1 and take no ticket; found op\'={op_final}, count writes={[str(e[2][1]) for e in cw]}, ticket writes={[str(e[2][1]) for e in nw]}, queue ops={[e[2][0] for e in qs_all]}'
                if nw: self.add('RES.11', False, f'row {row}: fast path', nw[0][1].shortloc(), f'fast path rewrites the ticket counter (next\' = {nw[0][2][1]}): tickets of waiters admitted but not yet resumed are invalidated')
            self.add('RES.3', ok, f'row {row}: fast path credits the holder in the admitting critical section', site, why)
            return
        wi = waits[0]
        late = [e for e in P.events[wi + 1:] if e[0] == 'write' and is_state_loc(e[2][0])]
        self.add('RES.3', not late, f'row {row}: no monitor-state write after m_cv.wait returns', late[0][1].shortloc() if late else site,
                 '' if not late else f'{late[0][2][0][1][-1]} is written after the wait returns ({late[0][1].text()[:50]}): the holder is counted only when it wakes up, so the counter can reach 0 while an admitted request is outstanding')
        pre = P.events[:wi]
        pre_cnt = [e for e in pre if e[0] == 'write' and e[2][0][0] == 'f' and e[2][0][1][-1] == 'm_activeCount']
        self.add('RES.3', not pre_cnt, f'row {row}: a queued request is not counted as a holder before it is admitted', site,
                 '' if not pre_cnt else 'm_activeCount is changed by a request that is about to wait')
        # ticket: exactly one increment of the counter before the wait
        pre_next = [e for e in pre if e[0] == 'write' and e[2][0][0] == 'f' and e[2][0][1][-1] == 'm_idCounter']
        vals = [e[2][1] for e in pre_next]
        if any(not isinstance(x, Lin) for x in vals):
            self.unknown('RES.8', f'row {row}', pre_next[0][1].shortloc(), 'ticket counter written with a value the evaluator cannot follow')
        else:
            tick_ok = len(vals) == 1 and vals[0] == Lin.sym('next') + Lin.const(1)
            self.add('RES.8', tick_ok, f'row {row}: one ticket per waiting request', site, '' if tick_ok else f'ticket counter writes before the wait: {[str(x) for x in vals]}, expected exactly next+1')
        w = P.events[wi]
        pred = w[2]
        if pred is None:
            # loop form `while (!(ticket < bound)) wait(lock)`: decided through the ord_after atom
            self.loop_form = True
            if 'ord_after' not in used:
                self.unknown('RES.9', f'row {row}', w[1].shortloc(), 'wait without predicate whose loop condition does not compare the ticket with the published bound')
            else:
                returns = P.end in ('exit', 'return', None)
                want = v['ord_after'] == '<'
                ok = (returns == want) and (len(waits) == 1 if want else True)
                self.add('RES.9', ok, f'row {row}: after a wake-up the request returns iff its ticket is below the published bound (returns: {returns})', w[1].shortloc(),
                         '' if ok else ('the request returns from lock() although its ticket is not below the bound' if returns else 'the request keeps waiting although its ticket is below the bound'))
                self.add('RES.8', True, f'row {row}: the loop compares the pre-increment ticket held in a local', w[1].shortloc())
        else:
            caps = [(k, m, val) for k, (m, val) in pred.env.items()]
            ids = [c for c in caps if c[1] == 'val' and c[2] == Lin.sym('next')]
            byref = [c for c in caps if c[1] == 'ref']
            ok = len(ids) == 1 and not byref
            self.add('RES.8', ok, f'row {row}: the wait predicate holds the pre-increment ticket by value', w[1].shortloc(),
                     '' if ok else f'captures {[(m, repr(x)) for _, m, x in caps]}: expected exactly one by-value capture equal to the ticket (next before the increment)')
            self.pred = pred
        # enqueue
        qs = [e for e in pre if e[0] == 'q']
        ext = [e for e in pre if e[0] == 'write' and e[2][0][0] == 'f' and len(e[2][0][1]) >= 2 and e[2][0][1][-2] in ('@back', '@front')]
        want_ext = (not v['QE']) and v['t'] == 'Read' and v['back'] == 'Read'
        nxt_at_enqueue = Lin.sym('next') + Lin.const(1)
        count_repr = ResDomain.entry_repr == 'count'
        # entries that hold a count: the bound the entry stands for is (bound of its predecessor, = the ticket counter on entry by
        # next == bound + sum of counts) + count; a stored count c in a new entry is the bound next + c, back.cnt + d the bound next + d
        def as_bound(x, extend):
            if not count_repr or not isinstance(x, Lin): return x
            return (x - Lin.sym('back.cnt') if extend else x) + Lin.sym('next')
        dual = ResDomain.entry_repr == 'dual'
        if dual and ext and not qs:
            # an entry keeps its ticket bound and its request count side by side: a merge has to move both (bound := next+1, count := count+1)
            ubw = [e for e in ext if e[2][0][1][-1] == 'upperBound']; cnw = [e for e in ext if e[2][0][1][-1] == 'count']
            okd = (len(ubw) == 1 and len(cnw) == 1 and isinstance(ubw[0][2][1], Lin) and ubw[0][2][1] == nxt_at_enqueue and isinstance(cnw[0][2][1], Lin) and cnw[0][2][1] == Lin.sym('back.cnt') + Lin.const(1))
            if ubw and cnw and not (isinstance(ubw[0][2][1], Lin) and isinstance(cnw[0][2][1], Lin)): self.unknown('RES.8', f'row {row}', ext[0][1].shortloc(), 'merged bound / count not understood')
            else:
                self.add('RES.16', okd, f'row {row}: a merge moves the entry\'s ticket bound and its request count together', ext[0][1].shortloc(),
                         '' if okd else f'the merge writes bound {[str(e[2][1]) for e in ubw] or "not at all"} and count {[str(e[2][1]) for e in cnw] or "not at all"} (expected next+1 and count+1): the batch is admitted with a holder count that is not the number of its requests — '
                                        'too small: the lock is handed on while batch members still hold it; too large: it is never released')
                self.res8x(ubw[0][2][1] if ubw and isinstance(ubw[0][2][1], Lin) else nxt_at_enqueue, nxt_at_enqueue, row, ext[0][1].shortloc())
            ext = ubw[:1] or ext[:1]
        if ext and not qs:
            tgt = ext[0][2][0][1][-2]
            val = as_bound(ext[0][2][1], True)
            ok6 = want_ext and tgt == '@back'
            why = ''
            if tgt != '@back' and v['front'] == v['back']:
                # the queue may consist of one entry, which is then both its front and its back: not a witness
                self.unknown('RES.6', f'row {row}: extend', ext[0][1].shortloc(), f'the {tgt[1:]} entry is extended; whether that is also the back entry is not known in this row'); ok6 = None
            if tgt != '@back': why = f'extends the {tgt[1:]} queue entry instead of the back one (the front is a {v["front"]} entry, the back a {v["back"]} entry: a request queued between them is overtaken): {row}'
            elif not want_ext: why = f'merges a {v["t"]} request into the back entry (type {v["back"]}) — only consecutive readers may share an entry: {row}'
            if ok6 is not None: self.add('RES.6', ok6, f'row {row}: extend', ext[0][1].shortloc(), why)
            if not isinstance(val, Lin): self.unknown('RES.8', f'row {row}', ext[0][1].shortloc(), f'extended bound {val} not understood')
            else:
                okv = val == nxt_at_enqueue and ext[0][2][0][1][-1] == 'upperBound'
                self.add('RES.8', okv, f'row {row}: extended bound is the counter after the increment', ext[0][1].shortloc(), '' if okv else f'stored {val}, expected next+1')
                self.res8x(val, nxt_at_enqueue, row, ext[0][1].shortloc())
            if want_ext: self.add('RES.7', True, f'row {row}: consecutive readers form one batch', ext[0][1].shortloc())
        elif len(qs) == 1 and not ext:
            kind, val = qs[0][2]
            okend = kind in ('push_back', 'emplace_back')
            self.add('RES.8', okend, f'row {row}: new entry appended at the back', qs[0][1].shortloc(), '' if okend else f'{kind} used: arrival order is not preserved')
            if not isinstance(val, Record) or not isinstance(val.f.get('upperBound'), Lin):
                self.unknown('RES.8', f'row {row}', qs[0][1].shortloc(), f'pushed entry {val} not understood')
            else:
                okrec = val.f.get('type') == E(v['t']) and as_bound(val.f.get('upperBound'), False) == nxt_at_enqueue
                if dual:
                    c_ = val.f.get('count', Lin.const(0))          # a member left out of the initialiser is value-initialised
                    okc_ = isinstance(c_, Lin) and c_ == Lin.const(1)
                    self.add('RES.16', okc_, f'row {row}: a new entry stands for one request (count = 1)', qs[0][1].shortloc(),
                             '' if okc_ else f'the entry is pushed with request count {c_} (a member left out of the initialiser is 0): the batch is admitted with a holder count that is not the number of its requests — '
                                             'too small: the lock is handed on while batch members still hold it / a writer is admitted next to them; too large: it is never released')
                self.add('RES.8', okrec, f'row {row}: pushed entry is {{t, next+1}}', qs[0][1].shortloc(), '' if okrec else f'pushed {val}, expected {{type={v["t"]}, upperBound=next+1}}')
                self.res8x(as_bound(val.f.get('upperBound'), False), nxt_at_enqueue, row, qs[0][1].shortloc())
            self.add('RES.6', True, f'row {row}: push', qs[0][1].shortloc())
            if want_ext:
                self._res7_separate = getattr(self, '_res7_separate', []) + [(row, qs[0][1].shortloc())]
        else:
            self.add('RES.6', False, f'row {row}: enqueue performs {len(qs)} queue operation(s) and {len(ext)} extension(s)', site, 'a waiting request must be recorded exactly once (a second operation overwrites or duplicates a queued request)')

    def res8x(self, val, want, row, site):
        """the exclusion half of RES.8: a recorded bound above the counter admits the next ticket together with this batch"""
        d = (val - want) if isinstance(val, Lin) else None
        if d is None or d.t: self.unknown('RES.8x', f'row {row}: recorded bound', site, f'recorded bound {val} is not the counter plus a constant'); return
        self.add('RES.8x', d.c <= 0, f'row {row}: the recorded bound does not exceed the counter after the increment', site,
                 '' if d.c <= 0 else f'recorded {val}, the counter after the increment is next+1: the request that takes the next ticket is admitted together with this batch (a writer with company)')

    def _extra_only(self, c):
        """the branch condition reads members of the Resource outside the monitor state only (a statistics record, an option flag):
        no state field, no local, no parameter, no call"""
        if c is None: return False
        seen_extra = False
        for x in c.walk():
            if x.k == 'member':
                b = x.n('base')
                if b is not None and b.k == 'this':
                    if x.name in STATE or x.name in ('m_mutex', 'm_cv'): return False
                    seen_extra = True
            elif x.k == 'ref' and x.dk in ('param', 'local'): return False
            elif x.k == 'call' and not (x.calleeq or '').startswith('std::atomic'): return False
        return seen_extra

    def _soft(self, c):
        """judge a path that was chosen by a test of a member outside the tables: whether it can be taken is not followed, so what is
        wrong on it is not a refutation; what is right on every such path is right whichever is taken"""
        orig = self.add
        txt = (c.text() or '')[:50]
        def soft(rule, ok, inst, site_, why='', *a, **k):
            if ok is False: return orig(rule, None, inst, site_, f'on a path chosen by `{txt}`, a test outside the vocabulary of the lock tables (whether the path can be taken is not followed): {why}', *a, **k)
            return orig(rule, ok, inst, site_, why, *a, **k)
        return orig, soft

    # ---- wait predicate ------------------------------------------------------------------------------------------------
    def predicate(self):
        pred = getattr(self, 'pred', None)
        if pred is None and getattr(self, 'loop_form', False): return       # loop form: RES.9 was decided through the ord_after rows
        if pred is None or pred.fn is None:
            self.unknown('RES.9', 'wait predicate', self.fn['lock'].shortloc() if 'lock' in self.fn else '', 'predicate lambda not found'); return
        table = []
        for o in '<=>':
            dom = ResDomain(dict(ord=o)); ex = Exec(self.facts, dom)
            st = State()
            from symex import Frame
            paths = None
            # run the closure body with the captured ticket bound to the symbol `id`
            fr_args = []
            f = pred.fn
            P = self._run_closure(ex, f, pred, st)
            if P is None or len(P) != 1 or P[0].unknown_atoms or not isinstance(P[0].ret, bool):
                self.unknown('RES.9', 'wait predicate', f.shortloc(), 'predicate is not a comparison of the ticket with the published bound'); return
            table.append(P[0].ret)
        ok = tuple(table) == (True, False, False)
        self.add('RES.9', ok, f'wait predicate on (id<bound, id=bound, id>bound) = {tuple(table)}', pred.fn.shortloc(),
                 '' if ok else f'expected (True, False, False): a request must resume exactly when its ticket is below the published bound')

    def _run_closure(self, ex, f, pred, st):
        from symex import Frame, Path
        fr = Frame(f, ('this',), 0)
        for dk, (mode, v) in pred.env.items():
            st.store[('l', fr.id, dk)] = Lin.sym('id') if mode == 'val' else Ref(v)
        out = []
        for st2, fr2, end in ex._walk(fr, st):
            P = Path(); P.events = st2.events; P.store = st2.store; P.ret = fr2.ret; P.end = end; P.unknown_atoms = st2.unknown_atoms
            if isinstance(P.ret, Ref): P.ret = ex.read(P.ret.loc, st2)
            out.append(P)
        return out

    # ---- unlock() / select() ---------------------------------------------------------------------------------------------
    def unlock_rows(self):
        f = self.fn.get('unlock')
        if f is None: return
        site = f.shortloc(); this = ('this',)
        n = 0
        for cnt1, QE, front, t in itertools.product([True, False], [True, False], ['Read', 'Write'], ['Read', 'Write']):
            if QE and front != 'Read': continue
            for batch1 in (True, False):
                v = dict(cnt1=cnt1, QE=QE, front=front, back=front, op=t, t=t, batch1=batch1)
                if batch1 is False and (QE or 'batch1' not in getattr(self, '_last_consulted', ())): continue       # only when the code looks at the batch size
                dom = ResDomain(v); ex = Exec(self.facts, dom)
                paths = [P_ for P_ in ex.run(f) if P_.end not in ('noreturn', 'throw')]
                self._last_consulted = set(dom.consulted)
                if not cnt1 and (not QE or front != 'Read' or t != 'Read'):
                    if 'QE' not in dom.consulted: continue     # select not reached: one representative row is enough
                n += 1
                row = show(v, ['cnt1', 'QE', 'front'] + (['batch1'] if 'batch1' in dom.consulted else []))
                for P in paths:
                    self.add = self.__class__.add.__get__(self)
                    if P.unknown_atoms:
                        orig_, soft_ = self._soft(P.unknown_atoms[0]); self.add = soft_
                    elif False:
                        self.unknown('RES.4', f'row {row}', P.unknown_atoms[0].shortloc(), f'branch atom outside the vocabulary: {P.unknown_atoms[0].text()[:80]}'); continue
                    st = P.store
                    sel = [i for i, e in enumerate(P.events) if e[0] == 'enter' and e[2] == f'{CLS}::select']
                    cntw = [e for e in P.events if e[0] == 'write' and e[2][0][0] == 'f' and e[2][0][1][-1] == 'm_activeCount']
                    first = cntw[0][2][1] if cntw else None
                    dec_ok = first == Lin.sym('cnt') - Lin.const(1) and (not sel or all(P.events.index(e) > sel[0] for e in cntw[1:])) and (bool(sel) or len(cntw) == 1)
                    self.add('RES.4', dec_ok, f'row {row}: exactly one decrement of the holder count per unlock', cntw[0][1].shortloc() if cntw else site,
                             '' if dec_ok else f'holder count writes on this path: {[repr(e[2][1]) for e in cntw]} (expected a single cnt-1)')
                    called = bool(sel)
                    self.add('RES.4', called == cnt1, f'row {row}: select() is called iff the decremented count is 0', site,
                             '' if called == cnt1 else (f'select() runs although holders remain ({row})' if called else f'the last holder leaves without selecting the next request ({row}): queued requests are never granted'))
                    if called:
                        li = max(i for i, e in enumerate(P.events) if e[0] == 'leave' and e[2] == f'{CLS}::select')
                        lock_i = [i for i, e in enumerate(P.events) if e[0] in ('mutex.lock', 'guard')]
                        na = [i for i, e in enumerate(P.events) if e[0] == 'notify_all']
                        no = [i for i, e in enumerate(P.events) if e[0] == 'notify_one']
                        ok10 = bool(na) and bool(lock_i) and any(i > lock_i[0] for i in na)
                        why = ''
                        if QE and not na and not no:
                            # nothing was admitted: a request sleeps only after it was queued (RES.2 / RES.8) and the batch it belongs to was
                            # notified when it was popped, so with an empty queue nobody is waiting for a new bound
                            self.add('RES.10', True, f'row {row}: the queue is empty, no bound is published and there is nobody to wake', site, '')
                            self._check_select(P, v, row, dom, this, site)
                            continue
                        if not ok10:
                            why = ('notify_one() instead of notify_all(): waiters with different tickets share one condition variable, the woken thread may not be the admitted one'
                                   if no else 'no notify_all() accompanies the new bound: admitted waiters are never woken')
                            if na and lock_i and not any(i > lock_i[0] for i in na): why = 'notify_all() is issued before the critical section that publishes the bound'
                        self.add('RES.10', ok10, f'row {row}: publishing a bound is accompanied by notify_all()', (P.events[no[0]][1].shortloc() if no and not ok10 else site), why)
                        self._check_select(P, v, row, dom, this, site)
        self.n_unlock_rows = n

    def _check_select(self, P, v, row, dom, this, site):
        st = P.store
        op1 = fld(st, this, 'm_activeOp', dom); cnt1 = fld(st, this, 'm_activeCount', dom)
        nxt1 = fld(st, this, 'm_idCounter', dom); bnd1 = fld(st, this, 'm_upperUnlockBound', dom)
        qs = [e for e in P.events if e[0] == 'q']
        sel = self.fn.get('select')
        ssite = sel.shortloc() if sel else site
        if v['QE']:
            self.add3('RES.12', op1, [E('None')], f'row {row}: empty queue => idle state restored', ssite,
                      f'active operation left at {op1} with nobody holding the lock: the next request queues and nobody is left to wake it')
            if not isinstance(nxt1, Lin) or not isinstance(bnd1, Lin):
                self.unknown('RES.11', f'row {row}', ssite, f'ticket counter / bound after the idle branch not understood ({nxt1}, {bnd1})')
            else:
                both_reset = nxt1 == Lin.const(0) and bnd1 == Lin.const(0)
                none_reset = nxt1 == Lin.sym('next') and bnd1 == Lin.sym('bound')
                self.add('RES.11', both_reset or none_reset, f'row {row}: ticket counter and bound are reset together or not at all', ssite,
                         '' if (both_reset or none_reset) else f'idle reset gives next\'={nxt1}, bound\'={bnd1}: tickets restart below a stale bound (requests pass the predicate while a writer holds) or above it (never granted)')
            self.add3('RES.4', cnt1, [Lin.sym('cnt') - Lin.const(1), Lin.const(0)], f'row {row}: idle state has no holders', ssite, f'holder count {cnt1} after the last unlock')
            self.add('RES.5', not qs, f'row {row}: nothing is removed from an empty queue', ssite, '' if not qs else f'queue operation {qs[0][2][0]} on an empty queue')
        else:
            pops = [e[2][0] for e in qs]
            okq = pops == ['pop_front']
            if not okq and pops and all(p_ == 'pop_front' for p_ in pops):
                # several entries leave the queue in one selection: a design that forms the batch at admission time (one entry per request,
                # consecutive readers merged here) — which entries may be merged is not in the front / back vocabulary of these rows
                self.merges_at_admission = True
                self.add('RES.5', None, f'row {row}: exactly the front entry is removed', qs[0][1].shortloc(), f'{len(pops)} entries are popped in one selection (batching at admission time): not followed')
            else:
                self.add('RES.5', okq, f'row {row}: exactly the front entry is removed', (qs[0][1].shortloc() if qs else ssite),
                         '' if okq else f'queue operations {pops}: requests must be granted in arrival order, one entry per selection')
            self.add3('RES.5', op1, [E(v['front'])], f'row {row}: the active operation becomes the front entry\'s type', ssite, f'active operation set to {op1}, front entry is {v["front"]}')
            self.add3('RES.5', bnd1, [Lin.sym('front.ub')], f'row {row}: the published bound is the front entry\'s bound (whole batch)', ssite,
                      f'bound set to {bnd1}, expected front.upperBound: part of the batch keeps waiting / tickets beyond the batch are admitted')
            want = Lin.sym('front.ub') - Lin.sym('bound')
            self.add3('RES.3', cnt1, [want, Lin.sym('cnt') - Lin.const(1) + want], f'row {row}: select() credits every admitted ticket before the bound is published', ssite,
                      f'holder count after admission is {cnt1}, expected front.upperBound - bound (the number of tickets admitted): an admitted request that has not resumed yet is not counted, the count reaches 0 too early')
            self.add3('RES.11', nxt1, [Lin.sym('next')], f'row {row}: admission does not touch the ticket counter', ssite, f'next\'={nxt1}')

    # ---- RES.13 forwarding -----------------------------------------------------------------------------------------------
    def forwarding(self):
        want = {'lockRead': ('lock', 'Read'), 'lockWrite': ('lock', 'Write'), 'unlockRead': ('unlock', 'Read'), 'unlockWrite': ('unlock', 'Write')}
        for name, (callee, mode) in want.items():
            f = self.fn.get(name)
            if f is None: continue
            allcalls = [n for n in f.nodes() if n.k == 'call' and n.callee_in_root]
            # the forwarding call itself; other member functions the wrapper calls are judged by what they do to the monitor state (other_writers)
            calls = [n for n in allcalls if n.calleeq in (f'{CLS}::lock', f'{CLS}::unlock')]
            ok = len(calls) == 1 and calls[0].calleeq == f'{CLS}::{callee}' and calls[0].ns('args') and calls[0].ns('args')[0] is not None \
                and calls[0].ns('args')[0].k == 'ref' and (calls[0].ns('args')[0].qname or '').endswith('::' + mode) \
                and calls[0].n('object') is not None and calls[0].n('object').k == 'this'
            found = f"{calls[0].text()[:60]}" if calls else ('no lock()/unlock() call' + (f' (calls {allcalls[0].text()[:40]})' if allcalls else ''))
            if callee == 'unlock' and calls and calls[0].calleeq == f'{CLS}::unlock' and not ok:
                # the mode passed to unlock() is only used by an assert (NDEBUG build): note, not a violation
                self.rep.note(f'{name} passes a different mode to unlock(): {found} (only an assert looks at it)')
                ok = True
            if ok:
                vu = self._unconditional(f, calls[0], 'Resource', name, callee)
                if vu is not None:
                    self.add('RES.13', vu[0], f'{name} -> {callee}({mode}) on every path', calls[0].shortloc(), vu[1].replace('the Resource ' + name, name + '()')); continue
            if not ok and not calls and allcalls:
                self.add('RES.13', None, f'{name} -> {callee}({mode})', f.shortloc(), f'{name} does not call {callee}() itself ({found}): the forwarding table does not apply'); continue
            if not ok and calls:
                # a refutation needs the wrong operation or the wrong mode constant handed to lock(OpType) / unlock(OpType); a wrapper that calls
                # something of another shape (a re-designed lock) is outside the forwarding table
                c0 = calls[0]; a0 = c0.ns('args')[0] if c0.ns('args') else None
                mode_const = a0 is not None and a0.k == 'ref' and (a0.qname or '').split('::')[-1] in ('Read', 'Write', 'None')
                wrong_op = c0.calleeq != f'{CLS}::{callee}' and len(calls) == 1 and len(c0.ns('args')) == 1 and mode_const
                wrong_mode = c0.calleeq == f'{CLS}::{callee}' and len(calls) == 1 and len(c0.ns('args')) == 1 and mode_const and not (a0.qname or '').endswith('::' + mode)
                if not (wrong_op or wrong_mode):
                    self.add('RES.13', None, f'{name} -> {callee}({mode})', f.shortloc(), f'{name} forwards as {found}: not the lock(OpType) / unlock(OpType) shape of the forwarding table'); continue
            self.add('RES.13', ok, f'{name} -> {callee}({mode})', f.shortloc(), '' if ok else f'{name} forwards as {found}')
        for g, lockfn, unlockfn in (('ReadLock', 'lockRead', 'unlockRead'), ('WriteLock', 'lockWrite', 'unlockWrite')):
            cls = f'tulz::rwp::{g}'
            ctor = [f for f in self.facts.fns if f.d.get('class') == cls and f.d.get('ctor') and not f.d.get('copy') and not f.d.get('move')]
            dtor = [f for f in self.facts.fns if f.d.get('class') == cls and f.d.get('dtor')]
            if not ctor or not dtor:
                self.rep.anchor_missing(cls, 'guard constructor/destructor not found'); continue
            c = ctor[0]; d = dtor[0]
            cc = [n for n in c.nodes() if n.k == 'call' and n.callee_in_root]
            okc = len(cc) == 1 and cc[0].calleeq == f'{CLS}::{lockfn}' and cc[0].n('object') is not None and cc[0].n('object').is_field('m_resource', cls)
            bound = any(i.get('field') == 'm_resource' and Node(c.tu, i['init']).k == 'ref' and Node(c.tu, i['init']).decl == c.d['params'][0]['decl'] for i in c.d.get('inits') or [] if i.get('init'))
            vc = self._unconditional(c, cc[0], g, 'constructor', lockfn) if okc and bound else None
            if vc is not None: self.add('RES.13', vc[0], f'{g}::{g}(r) -> r.{lockfn}() on every path', cc[0].shortloc(), vc[1])
            else:
                self.add('RES.13', okc and bound, f'{g}::{g}(r) -> r.{lockfn}()', c.shortloc(),
                         '' if okc and bound else f'{g} constructor does {[n.text()[:40] for n in cc]} (m_resource bound to the parameter: {bound})')
            dc = [n for n in d.nodes() if n.k == 'call' and n.callee_in_root]
            okd = len(dc) == 1 and dc[0].calleeq == f'{CLS}::{unlockfn}' and dc[0].n('object') is not None and dc[0].n('object').is_field('m_resource', cls)
            if len(dc) == 1 and dc[0].calleeq in (f'{CLS}::unlockRead', f'{CLS}::unlockWrite') and not okd and dc[0].n('object') is not None and dc[0].n('object').is_field('m_resource', cls):
                self.rep.note(f'{g} destructor calls {dc[0].calleeq.split("::")[-1]}() (mode only used by an assert)'); okd = True
            vd = self._unconditional(d, dc[0], g, 'destructor', unlockfn) if okd else None
            if vd is not None: self.add('RES.13', vd[0], f'{g}::~{g}() -> m_resource.{unlockfn}() on every path', dc[0].shortloc(), vd[1])
            else: self.add('RES.13', okd, f'{g}::~{g}() -> m_resource.{unlockfn}() exactly once', d.shortloc(), '' if okd else f'{g} destructor does {[n.text()[:40] for n in dc]}')
            cl = self.facts.cls(cls)
            fr = [x for x in (cl or {}).get('fields', []) if x['name'] == 'm_resource']
            self.add('RES.13', bool(fr) and fr[0]['isref'], f'{g} is not copyable (reference member)', c.shortloc(), '' if fr and fr[0]['isref'] else 'm_resource is not a reference: a copied guard unlocks twice')

    # ---- other functions that touch the monitor state ---------------------------------------------------------------------------
    def other_writers(self):
        """every member function of the class other than lock / unlock / select / enqueue (and what they inline) that changes the
        holder count is another way into or out of the lock: each of its paths that credits a holder without waiting is judged like
        the fast path of lock() (never past a non-empty queue, never next to a writer)"""
        core = {self.fn[k].name for k in ('lock', 'unlock', 'select', 'enqueue') if k in self.fn}
        this = ('this',)
        # a non-public helper that is only ever called from the operations above (or from helpers of that kind) is a piece of them: it has
        # been evaluated inlined, with the state of its call site
        members = [g for g in self.facts.fns if g.d.get('class') == CLS and not g.d.get('lambda')]
        callers = {}
        for m_ in members:
            for n in m_.nodes():
                if n.k == 'call' and n.callee_in_root:
                    for t in self.facts.resolve(n): callers.setdefault(t.name, set()).add(m_.name)
        pieces = set(core)
        for _ in range(4):
            for m_ in members:
                if m_.name in pieces or m_.d.get('access') == 'public': continue
                cs = callers.get(m_.name, set())
                if cs and cs <= pieces: pieces.add(m_.name)
        for g in self.facts.fns:
            if g.d.get('class') != CLS or g.d.get('lambda') or g.d.get('ctor') or g.d.get('dtor') or g.name in pieces: continue
            roles_ = {f_.name for f_ in self.fn.values() if f_ is not None}
            if g.name in roles_: continue
            inner = {self.fn[k].name for k in ('select', 'enqueue') if k in self.fn}
            touches = any(n.k == 'member' and n.name in STATE and n.n('base') is not None and n.n('base').k == 'this' for n in g.nodes()) or \
                any(n.k == 'call' and n.callee_in_root and any(t.name in inner for t in self.facts.resolve(n)) for n in g.nodes())
            if not touches: continue
            seen = set()
            for v in rows_lock():
                dom = ResDomain(v); ex = Exec(self.facts, dom)
                try: paths = [P_ for P_ in ex.run(g, args=None) if P_.end not in ('noreturn', 'throw')]
                except Inconclusive as e_:
                    self.unknown('RES.2', f'{g.name}', g.shortloc(), str(e_)); break
                used = tuple(sorted(dom.consulted))
                sig = tuple((k, v[k]) for k in sorted(set(used) | {'QE', 'op'}) if k in v)
                if sig in seen: continue
                seen.add(sig)
                row = show(v, ['QE', 'op'] + (['t'] if 't' in used else []))
                for P in paths:
                    cw = self._writes(P, 'm_activeCount')
                    short = g.name.split('::')[-1]
                    evs = P.events
                    waits_ = [i for i, e in enumerate(evs) if e[0] == 'wait']
                    if waits_:
                        # another way to wait for the lock: the request must be in the queue like every other waiting request
                        if not any(e[0] == 'q' for e in evs[:waits_[0]]) and (v['op'] == 'Write' or not v['QE']):
                            self.add('RES.6', False, f'{short}() row {row}: a request that waits is recorded in the queue', evs[waits_[0]][1].shortloc(),
                                     f'{short}() waits on the condition variable without a queue entry ({row}): select() does not know the request — requests that arrive later are queued and admitted before it, '
                                     'and readers that join the active readers keep it waiting for as long as they come')
                        continue
                    sel_ = [i for i, e in enumerate(evs) if e[0] == 'enter' and e[2] == f'{CLS}::select']
                    if sel_:
                        before = [e for e in evs[:sel_[0]] if e[0] == 'write' and e[2][0][0] == 'f' and e[2][0][1][-1] == 'm_activeCount']
                        val0 = before[-1][2][1] if before else Lin.sym('cnt')
                        inst_ = f'{short}() row {row}: select() runs only when no holder is left'
                        if v['op'] != 'None' and isinstance(val0, Lin) and (val0 == Lin.sym('cnt') or (val0.is_const() and val0.c >= 1)):
                            self.add('RES.4', False, inst_, evs[sel_[0]][1].shortloc() if evs[sel_[0]][1] is not None else g.shortloc(),
                                     f'{short}() calls select() while the lock is held ({row}, holder count {val0}): select() overwrites the holder count with the size of the admitted batch, the caller\'s own hold is no longer counted — '
                                     'when the admitted requests have left, the count is 0 and a queued writer is admitted next to the caller')
                        elif not (isinstance(val0, Lin) and ((val0.is_const() and val0.c == 0) or (v['op'] == 'None' and val0 == Lin.sym('cnt')))):
                            self.add('RES.4', None, inst_, g.shortloc(), f'holder count at the call of select() is {val0}: not followed')
                        continue
                    ow0 = self._writes(P, 'm_activeOp')
                    if not cw and ow0:
                        fin = ow0[-1][2][1]
                        popped = any(e[0] == 'q' and 'pop' in str(e[2][0]) for e in evs)
                        if v['op'] == 'Write' and fin == E('Read') and not v['QE'] and v.get('front') == 'Read' and not popped:
                            self.add('RES.2c', False, f'{short}() row {row}: readers wait only behind a writer', ow0[-1][1].shortloc(),
                                     f'{short}() turns the write lock into a read lock ({row}) and leaves the read requests at the head of the queue parked: no writer is active or ahead of them, yet they wait until the caller unlocks — '
                                     'and every later reader queues up behind them')
                        elif fin != E(v['op']):
                            self.add('RES.3', None, f'{short}() row {row}: the active operation changes with an admission or a release', ow0[-1][1].shortloc(), f'{short}() sets the active operation to {fin} without touching the holder count: outside the lock tables')
                        continue
                    if not cw: continue
                    val = cw[-1][2][1]
                    if not isinstance(val, Lin):
                        self.unknown('RES.3', f'{g.name} row {row}', cw[0][1].shortloc(), f'holder count set to a value the evaluator cannot follow ({val})'); continue
                    d = val - Lin.sym('cnt')
                    if not d.is_const() and set(val.t) <= {'cnt'} and not any(e[0] == 'call_unknown' for e in P.events):
                        # the count is *set* (not stepped): right only where the value is the number of holders afterwards.  With the lock free
                        # (count 0) `= 1` is the admission; with readers inside, one more holder is count + 1
                        if v['op'] == 'None':
                            d0 = Lin.const(val.c)          # cnt == 0
                            if d0.c > 0: d = d0
                        elif v['op'] == 'Read' and val.is_const() and val.c >= 1:
                            self.add('RES.3', False, f'{short}() row {row}: the holder count is stepped by one per admitted request', cw[-1][1].shortloc(),
                                     f'{short}() sets the holder count to {val.c} while readers hold the lock ({row}): with {val.c} reader(s) inside it reads {val.c} where {val.c + 1} hold the lock — '
                                     f'after {val.c} unlockRead() calls the count is 0 and a queued writer is admitted next to the reader that is still inside')
                            continue
                    if not (d.is_const() and d.c > 0): continue          # not an admission
                    ow_ = self._writes(P, 'm_activeOp')
                    op_final = ow_[-1][2][1] if ow_ else E(v['op'])
                    if op_final == E('None'):
                        self.add('RES.3', False, f'{short}() row {row}: an admitted request leaves the active operation set', cw[0][1].shortloc(),
                                 f'{short}() counts the caller as a holder and leaves the active operation at None ({row}): the resource looks idle, the next request of either kind is admitted on the fast path next to this holder')
                    elif isinstance(op_final, type(E('None'))):
                        self.add('RES.3', True, f'{short}() row {row}: an admitted request leaves the active operation set ({op_final})', cw[0][1].shortloc())
                    self.add('RES.2b', v['QE'], f'{short}() row {row}: a holder is credited without waiting only when nothing is queued', cw[0][1].shortloc(),
                             '' if v['QE'] else f'{short}() counts the caller as a holder although a request is queued ({row}): it overtakes every waiting request (a writer that waits for the readers to leave can be starved / passed)')
                    okop = v['op'] in ('None', 'Read')
                    self.add('RES.2a', okop, f'{short}() row {row}: a holder is credited without waiting only when no writer holds the lock', cw[0][1].shortloc(),
                             '' if okop else f'{short}() counts the caller as a holder while a writer holds the lock ({row})')

    def _unconditional(self, fn, call, g, what, opname):
        """None if `call` is executed on every path of fn; otherwise (verdict, why): a guard that skips the operation on a condition that
        does not depend on the guarded resource is refuted (the same condition holds while another Resource is guarded); any other
        condition is not decided"""
        pos = fn.cfg.position(call)
        if pos is not None and pos[0] in fn.cfg.pdom.get(fn.cfg.entry, ()): return None         # reached on every path that returns
        conds = common.conditions_at(fn, call)
        if not conds:
            # no single dominating branch edge (`a || b`): take the condition of the innermost if / loop / ?: that contains the call
            pm = common.parent_map(fn); x = call
            while x is not None and x.id in pm:
                par = pm[x.id]
                if par.k in ('if', 'while', 'for', 'cond') and par.n('c') is not None and not any(y.id == call.id for y in par.n('c').walk()):
                    conds = [(par.n('c'), True)]; break
                x = par
        if not conds: return None, f'the {g} {what} does not call {opname}() on every path (the condition was not recognised)'
        def local_to_guard(x):
            return x.k == 'this' or (x.k == 'member' and x.n('base') is not None and x.n('base').k == 'this') or (x.k == 'ref' and x.dk in ('param', 'local'))
        txt = ' && '.join(('' if pol else '!') + '(' + c.text()[:50] + ')' for c, pol in conds)
        if not any(local_to_guard(x) for c, pol in conds for x in c.walk()):
            return False, (f'the {g} {what} calls {opname}() only if {txt}: that condition reads state shared by every guard of the thread / the program, not this guard\'s resource — '
                           f'while a guard on another Resource is alive the {what} skips the operation, so the resource is used without the lock (or left locked)')
        return None, f'the {g} {what} calls {opname}() only if {txt}: a conditional guard is outside the forwarding table'

    def widths(self):
        """RES.4: the holder count is incremented once per admitted request, with no upper limit on the number of requests (read locks are
        counted per acquisition): its type must be able to hold every such number"""
        c = self.facts.cls(CLS) or {'fields': []}
        BITS = {'unsigned long': 64, 'long': 64, 'unsigned long long': 64, 'long long': 64, 'unsigned int': 32, 'int': 32, 'unsigned short': 16, 'short': 16,
                'unsigned char': 8, 'signed char': 8, 'char': 8, 'bool': 1}
        for fld_, what in (('m_activeCount', 'holder count'),):
            fd = next((x for x in c['fields'] if x['name'] == fld_), None)
            if fd is None: continue
            ct = (fd.get('ctype') or '').replace('const ', '').replace('volatile ', '').strip()
            if ct.startswith('std::atomic<'): ct = ct[len('std::atomic<'):-1].strip()
            bits = BITS.get(ct)
            inst = f'{fld_} ({ct}) can count every number of simultaneous holders'
            if bits is None: self.add('RES.4', None, inst, fd.get('loc', ''), f'width of `{ct}` not known')
            elif bits >= 64: self.add('RES.4', True, inst, fd.get('loc', ''))
            elif bits >= 32: self.add('RES.4', None, inst, fd.get('loc', ''), f'a {bits}-bit {what} wraps after 2^{bits} acquisitions: whether that many read locks can be held at once is not decided')
            else: self.add('RES.4', False, inst, fd.get('loc', ''), f'the {what} is a {bits}-bit `{ct}` and the fast path increments it unchecked: with 2^{bits} + 1 read locks held (they are counted per acquisition, one thread can take them) it reads 1, '
                           f'so the next unlockRead() brings it to 0 and admits a queued writer while 2^{bits} read locks are still held')

    def _res7_verdicts(self):
        # a reader queued behind a reader got its own entry: wrong when entries are admitted one per selection, not decided when the
        # selection itself merges entries (batching at admission time)
        for row, site_ in getattr(self, '_res7_separate', []):
            if getattr(self, 'merges_at_admission', False):
                # the selection merges entries itself.  If no pop of the queue sits in a loop, one selection removes a bounded number of entries,
                # while any number of readers can have queued up one entry each: the batch is cut
                fns_ = [self.fn[k] for k in ('select', 'unlock') if k in self.fn]
                def in_loop(fn_):
                    pm = common.parent_map(fn_)
                    for n in fn_.nodes():
                        if n.k == 'call' and n.callee_base() in ('pop_front', 'erase') and n.n('object') is not None and n.n('object').is_field('m_queue', CLS):
                            x = n
                            while x is not None and x.id in pm:
                                x = pm[x.id]
                                if x.k in ('while', 'for', 'do', 'rangefor'): return True
                    return False
                npop = max((sum(1 for n in fn_.nodes() if n.k == 'call' and n.callee_base() == 'pop_front' and n.n('object') is not None and n.n('object').is_field('m_queue', CLS)) for fn_ in fns_), default=0)
                if fns_ and not any(in_loop(fn_) for fn_ in fns_):
                    self.add('RES.7', False, f'row {row}: consecutive readers', site_, f'every queued reader gets its own entry and one selection removes at most {npop} entries (no loop): of {npop + 1} or more readers that queued up consecutively behind a writer only the first {npop} are admitted together')
                else:
                    self.add('RES.7', None, f'row {row}: consecutive readers', site_, 'a reader behind a queued reader gets its own entry and the selection pops entries in a loop: whether exactly the consecutive readers are merged there is not followed')
            else:
                self.add('RES.7', False, f'row {row}: consecutive readers', site_,
                         f'a read request arriving behind a queued reader gets its own queue entry instead of joining the batch: {row} — readers queued consecutively are granted one at a time')

    def run(self):
        if self.rep.broken: return
        if ResDomain.entry_repr != 'dual':
            self.add('RES.16', True, 'queue entries keep one integral member (the ticket bound or the request count): nothing to keep in step', (self.facts.cls(CLS) or {}).get('loc', ''))
        self.widths()
        self.res1()
        self.lock_rows()
        self.other_writers()
        self.predicate()
        try: self.unlock_rows()
        finally: self.add = self.__class__.add.__get__(self)
        self._res7_verdicts()
        self.forwarding()


RULE_TEXT = {
    'RES.1': 'every access to m_queue, m_activeOp, m_activeCount, m_idCounter, m_upperUnlockBound holds m_mutex (atomics are not exempt: the monitor state must change in one critical section); lock/unlock balanced',
    'RES.14': 'the state unlock() leaves behind when it releases the mutex: if it marks the resource idle while requests are queued (hand-over in a later critical section), lock() is evaluated in that state too and must not admit there',
    'RES.16': 'an entry that keeps a request count next to its ticket bound keeps the two in step: a new entry counts 1, a merge moves both (the holder count credited at admission is the number of requests admitted)',
    'RES.15a': 'lock(), fast path: the state is examined and the holder is counted in one critical section (two requests are never admitted on the same observation)',
    'RES.15b': 'lock(), slow path: the state is examined and the ticket taken / the request queued in one critical section (a request never goes to sleep on a stale observation)',
    'RES.2a': 'fast path (no wait) => active op is None, or Read and the request is a read  [12+ rows of (queue empty, active op, request)]',
    'RES.2b': 'fast path (no wait) => the queue is empty (no barging past a waiting request)',
    'RES.2c': 'queue empty and active op in {None, Read} and request is a read => fast path (a reader never waits without a writer)',
    'RES.3': 'admission accounting: the holder count is credited in the critical section that admits (cnt+1 on the fast path, front.ub-bound in select()), never before, and nothing is written after m_cv.wait returns',
    'RES.4': 'unlock: exactly one decrement; select() iff the decremented count is 0',
    'RES.5': 'select: pops exactly the front entry; op := its type; bound := its upper bound (the whole batch)',
    'RES.6': 'enqueue: a request is merged into an existing entry only in the row (queue non-empty, read request, back entry is a read), and only into the back entry',
    'RES.7': 'enqueue: in that row it is merged (consecutive readers form one batch)',
    'RES.8': 'tickets: id is the pre-increment counter captured by value; pushed/extended bound is the counter after the increment; new entries go to the back',
    'RES.8x': 'tickets (exclusion half of RES.8): the bound recorded for a queued request does not exceed the counter after the increment',
    'RES.9': 'wait predicate is exactly id < bound on the three orderings; predicate form of wait on the monitor mutex',
    'RES.10': 'a new bound is accompanied by notify_all() (not notify_one) inside or after the critical section',
    'RES.11': 'the only decreasing writes to tickets/bound are the paired resets in select() on an empty queue at count 0',
    'RES.12': 'select() on an empty queue restores op := None',
    'RES.13': 'forwarding: lockRead/lockWrite/unlock*, ReadLock/WriteLock constructor and destructor map to the right operation on the same Resource, once',
}

_cache = {}


def analyse(facts, rep):
    key = id(facts)
    if key not in _cache:
        import roles
        fm, entry, fnm, why = roles.infer_resource(facts, CLS)
        ResDomain.entry_repr = entry[2] if fm is not None else 'bound'
        if fm is not None and entry[2] == 'count':
            rep.assume('queue entries hold the number of requests of the batch, not the ticket bound: read through ub_k = bound + sum_{i<=k} count_i '
                       '(front.count = front.ub - bound; a stored count is judged as the bound it stands for)')
        if fm is not None and not roles.is_identity(fm, entry[1], fnm):
            ren = {k: v for m in (fm, entry[1], fnm) for k, v in m.items() if k != v}
            facts = roles.renamed_facts(facts, facts.dir, CLS, fm, entry, fnm)
            facts.roles = ren
            rep.assume('members recognised by role (type and use), reported under their canonical names: ' + ', '.join(f'{k} = {v}' for k, v in sorted(ren.items())))
        a = ResourceAnalysis(facts, rep)
        a.run()
        _cache.clear(); _cache[key] = a
    return _cache[key]


def emit(facts, rep, prop, rules, floors):
    a = analyse(facts, rep)
    for r in rules: rep.rule(r, RULE_TEXT[r])
    total = 0
    any_unknown = any(ok is None for r in a.results for ok, _, _, _ in a.results[r])
    for r in rules:
        res = a.results.get(r, [])
        # collapse identical (ok, instance) duplicates
        seen = set()
        for ok, inst, site, why in res:
            if (ok, inst, why) in seen: continue
            seen.add((ok, inst, why))
            total += 1
            if ok is True: rep.ok(r, inst, site)
            elif ok is False:
                # key: rule + construct (site) so that a different violation of the same rule is still new
                rep.violation(r, inst, site, why, key=f'{r}|{site}|{why[:60]}', fn=CLS)
            else: rep.inconclusive(r, inst, site, why)
        if not any_unknown and all(ok is True for ok, _, _ in seen): rep.floor(f'{r} instances', len(seen), floors.get(r, 1))
    if any_unknown and not any(o['status'] == 'inconclusive' for o in rep.obligations):
        for r in a.results:
            for ok, inst, site, why in a.results[r]:
                if ok is None: rep.inconclusive(r, inst, site, why); break
    if rep.tier == 'thorough' and 'RES.1' in rules:
        import irlock, frontend
        pub = {f'{CLS}::{n}()' for n in ('lockRead', 'lockWrite', 'unlockRead', 'unlockWrite')}
        ok, viols, stats, err = irlock.check_class(frontend.REPO, 'src/threading/rwp/Resource.cpp', a.facts, CLS, 'm_mutex', list(STATE), lambda d: d in pub)
        rep.rule('RES.1-IR', 'second reading of RES.1 from LLVM IR (-O0): every address computation of a monitor-state field executes with m_mutex held (entry states of internal functions = intersection over call sites)')
        if ok is None: rep.inconclusive('RES.1-IR', 'IR cross-check', 'src/threading/rwp/Resource.cpp', err)
        elif ok: rep.ok('RES.1-IR', f'{stats["state_address_computations"]} address computations of state fields in {stats["functions_touching_state"]} IR functions, all with the mutex held', 'src/threading/rwp/Resource.cpp')
        else:
            for fnm, ins in viols[:3]:
                rep.violation('RES.1-IR', f'{fnm}: state field address computed without m_mutex', 'src/threading/rwp/Resource.cpp', ins, key=f'RES.1-IR|{fnm}', fn=fnm)
    rep.count('lock_rows', getattr(a, 'n_lock_rows', 0)); rep.count('unlock_rows', getattr(a, 'n_unlock_rows', 0))
    rep.count('state_accesses', getattr(a, 'n_access', 0))
    rep.assume('std::mutex / std::condition_variable behave as specified; the invariant argument over the reference monitor (DESIGN §4) is on paper')
    rep.assume('row feasibility: a non-empty queue implies an active operation; no outstanding ticket implies an empty queue')
