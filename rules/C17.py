"""C17 — File reports sizes and errors truthfully; the stdio calls are made with the right arguments (FI.1-FI.5).
The byte-for-byte round trip itself is libc behaviour over runtime data and is not decided (DESIGN §6)."""
import itertools, re
from facts import Node, strip_targs, Inconclusive
from symex import Lin, Unknown, Ref, Sym, Exec, as_lin, Enum, Closure
from evdom import EvDomain, Ev, run_paths, _flatten
import common

TUS = ['src/File.cpp', 'src/Path.cpp']
F = 'tulz::File'
MODES = ['None', 'ReadText', 'Read', 'WriteText', 'Write', 'AppendText', 'Append']
MODE_STR = {'ReadText': 'r', 'Read': 'rb', 'WriteText': 'w', 'Write': 'wb', 'AppendText': 'a', 'Append': 'ab'}
WRITE_MODES = {'WriteText', 'Write', 'AppendText', 'Append'}
NARROW = {'char', 'signed char', 'unsigned char', 'const char', 'const unsigned char', 'const signed char'}


class FileDomain(EvDomain):
    loop_unroll = 1
    max_depth = 5

    def __init__(self, oracle=None, inline=()):
        super().__init__(oracle=oracle)
        self.inline = set(inline)

    def opaque(self, n):
        q = strip_targs(n.d.get('calleeq') or n.d.get('ctor') or '')
        if q.startswith('tulz::Path::') or q.startswith('tulz::Exception') or q.startswith('tulz::Array'): return True
        if q.startswith('tulz::File::') and q.split('::')[-1] in ('seek', 'tell', 'size', 'read', 'isOpen', 'close') and q not in self.inline: return True
        if n.k == 'call' and n.callee_in_root and self.switch_lambda(n): return True          # the mode table (a switch) is decided separately (FI.1)
        return super().opaque(n)

    def switch_lambda(self, n):
        ts = self._facts.resolve(n) if getattr(self, '_facts', None) is not None else []
        return any(any(x.k == 'switch' for x in t.nodes()) for t in ts)

    def field_value(self, path, node):
        if path[-1] == 'm_mode':
            v = self.atom('mode'); return Enum('tulz::File::Mode::' + v) if v is not None else None
        if path[-1] == 'm_file': return Sym('m_file')
        d_ = self.derived_from_mode(path[-1])
        if d_ is not None: return d_
        return None

    _derived = None

    def derived_from_mode(self, name):
        """a bool member that open() sets from the mode alone (`m_textRead = mode == ReadText || mode == AppendText`), evaluated for the
        mode of this row: what the member holds whenever the file is open in that mode"""
        facts = getattr(self, '_facts', None) or FileDomain._facts_all
        v = self.atom('mode')
        if facts is None or v is None: return None
        if FileDomain._derived is None:
            FileDomain._derived = {}
            for g in facts.fns:
                if g.d.get('class') != F or g.qname.split('::')[-1] != 'open': continue
                mp = {p_['decl'] for p_ in g.d['params'] if p_['ctype'].endswith('File::Mode')}
                for n in g.nodes():
                    if n.k == 'binop' and n.op == '=' and n.n('lhs') is not None and n.n('lhs').k == 'member' and n.n('lhs').field and (n.n('lhs').type or '').replace('const ', '') == 'bool':
                        FileDomain._derived.setdefault(n.n('lhs').name, []).append((n.n('rhs'), mp))
        srcs = FileDomain._derived.get(name)
        if not srcs or len(srcs) != 1: return None
        rhs, mp = srcs[0]
        def ev(e):
            while e is not None and e.k in ('cast', 'paren') and e.n('sub') is not None: e = e.n('sub')
            if e is None: return None
            if e.k == 'ref' and e.dk == 'enum': return ('E', (e.qname or e.name).split('::')[-1])
            if e.k == 'ref' and e.decl in mp: return ('E', v)
            if e.k == 'member' and e.field and e.name == 'm_mode': return ('E', v)
            if e.k == 'bool': return bool(e.v)
            if e.k == 'unop' and e.op == '!':
                s_ = ev(e.n('sub')); return (not s_) if isinstance(s_, bool) else None
            if e.k == 'binop' and e.op in ('==', '!='):
                l, r = ev(e.n('lhs')), ev(e.n('rhs'))
                if isinstance(l, tuple) and isinstance(r, tuple): return (l == r) if e.op == '==' else (l != r)
                return None
            if e.k == 'binop' and e.op in ('||', '&&'):
                l, r = ev(e.n('lhs')), ev(e.n('rhs'))
                if isinstance(l, bool) and isinstance(r, bool): return (l or r) if e.op == '||' else (l and r)
                return None
            return None
        r_ = ev(rhs)
        return r_ if isinstance(r_, bool) else None

    _facts_all = None

    def init_param(self, fn, p):
        if p['ctype'].endswith('File::Mode'):
            v = self.atom('mode')
            if v is not None: return Enum('tulz::File::Mode::' + v)
        return super().init_param(fn, p)

    owning = False       # m_file is a std::unique_ptr<FILE, D> whose deleter was verified to call fclose (see run())

    def call_result(self, ex, n, q, base, on, ov, vals, st, fr):
        if self.owning and on == 'm_file' and (n.mclass or '').startswith('std::unique_ptr'):
            held = ov
            if isinstance(held, Ref): held = ex.read(held.loc, st, n)
            if base == 'reset': held = getattr(self, '_held_before', held)
            if base in ('operator==', 'operator!=') and any(isinstance(v, Lin) and v.is_const() and v.c == 0 or v is None for v in vals):
                o = self.atom('is_open')
                if o is not None: return o if base == 'operator!=' else (not o)
            if base == 'operator bool':
                o = self.atom('is_open')
                if o is not None: return o
            if base == 'reset':
                # the deleter runs on what was held (if anything), after the new value is in place: that is the stream's fclose
                o = self.atom('is_open')
                if o is not False and not (isinstance(held, Lin) and held.is_const() and held.c == 0):
                    self.ev(st, Ev('call', n, name='fclose', obj=None, args=[held if held is not None else Sym('m_file')]), fr)
                    if 'is_open' in self.oracle: self.oracle = dict(self.oracle, is_open=bool(vals and vals[0] is not None and not (isinstance(vals[0], Lin) and vals[0].is_const() and vals[0].c == 0)))
                return None
        if q == 'tulz::Path::exists': return self._b('exists', n)
        if q == 'tulz::Path::isDirectory': return self._b('is_dir', n)
        if q == 'tulz::File::isOpen': return self._b('is_open', n)
        if q == 'tulz::File::tell': return Lin.sym(f'tell@{n.id}')
        if q == 'tulz::File::size': return Lin.sym(f'size@{n.id}')
        if base in ('ftell',): return Lin.sym(f'tell@{n.id}')
        if base == 'feof': return self._b('eof', n)
        if base == 'fopen': return Sym(f'handle@{n.id}')
        return super().call_result(ex, n, q, base, on, ov, vals, st, fr)

    def _b(self, key, n):
        v = self.atom(key); return v if v is not None else Unknown((key, n.id))

    def decide(self, ex, cond, value, st, fr):
        if isinstance(value, Sym) and value.name == 'm_file': return self.atom('is_open')
        return None


def run(facts, rep, tier):
    rep.rule('FI.1', 'mode table: the switch maps the six modes to "r","rb","w","wb","a","ab" (None / anything else throws); isWriteMode is true exactly for WriteText, Write, AppendText, Append (7-row table)')
    rep.rule('FI.2', 'open: NotFound is thrown iff !exists && !writeMode, NotFile iff exists && isDirectory, both before fopen; an open stream is closed first; fopen gets the path and the mode string; m_mode is stored')
    rep.rule('FI.3', 'size(): tell -> seek(0, END) -> tell -> seek(saved, SET) on every path, returns the second tell (the stream position of the end sees buffered writes; stat does not unless flushed first)')
    rep.rule('FI.4', 'read(): rewinds first; text modes count bytes with an end-of-file test that does not narrow fgetc\'s int (byte 0xFF is not EOF), one increment per byte, and rewind again; binary uses size(); '
                     'the buffer has exactly the counted size and fread is (ptr, 1, count); readStr builds the string with the explicit length; write(string) uses length(); write(ptr, n, es) calls fwrite(data, es, n, file)')
    rep.rule('FI.5', 'close()/destructor pair fopen with fclose exactly once and null the handle')
    rep.assume('libc stdio is the trusted base: the byte-exact round trip over all contents and write splits is its behaviour over runtime data and is not decided here; POSIX text mode == binary mode')
    fns = {}
    for name in ('open', 'close', 'size', 'read', 'readStr', 'seek', 'tell', 'flush', 'isOpen'):
        c = [f for f in facts.by_name.get(f'{F}::{name}', [])]
        if not c: rep.anchor_missing(f'{F}::{name}', 'not found')
        fns[name] = c
    if rep.broken: return
    FileDomain.owning = False; FileDomain._derived = None; FileDomain._facts_all = facts
    fc = facts.cls(F) or {}
    hf = [x for x in fc.get('fields', []) if x['name'] == 'm_file']
    owner_ok = None
    if hf and hf[0]['ctype'].startswith('std::unique_ptr<'):
        m_ = re.match(r'std::unique_ptr<(?:struct )?_IO_FILE,\s*([\w:<> ]+?)\s*>$', hf[0]['ctype'].strip())
        if m_:
            dels = [g for g in facts.fns if (g.d.get('classfull') or g.d.get('class')) == m_.group(1).strip() and g.qname.endswith('::operator()')]
            if dels:
                calls_ = [x for x in dels[0].nodes() if x.k == 'call' and not x.callee_in_root]
                owner_ok = len(calls_) == 1 and calls_[0].callee_base() == 'fclose'
                rep.check(owner_ok, 'FI.5', f'the deleter {m_.group(1)} of the stream handle calls fclose (once, on what it is given)', dels[0].shortloc(), f'the deleter does {[c.text()[:30] for c in calls_]}', key='FI.5|deleter', fn=dels[0].name)
    if owner_ok:
        FileDomain.owning = True
        rep.assume('m_file is a std::unique_ptr<FILE, D>: what it holds is the stream handle; reset() stores the new handle and then runs D (= fclose) on the previous one; the implicit member destructor does the same')
    elif hf and not re.fullmatch(r'(struct )?(_IO_)?FILE \*', hf[0]['ctype'].strip()):
        # the rules follow the handle as a plain FILE* (stored by fopen, passed to the stdio calls, nulled by close); an owning wrapper
        # closes through its deleter and is not described by them
        for r in ('FI.2', 'FI.3', 'FI.4', 'FI.5'):
            rep.inconclusive(r, 'File: handle model', hf[0]['loc'], f'the stream handle is kept as `{hf[0]["ctype"][:60]}`, not as a plain FILE*: open / close / read are not followed through the wrapper')
        return
    opn = fns['open'][0]
    # ---- FI.1 -----------------------------------------------------------------------------------------------------------
    lams = [n for n in opn.nodes() if n.k == 'lambda']
    sw = None; wm = None
    for l in lams:
        lf = facts.lambda_fn(l)
        if lf is None: continue
        if any(x.k == 'switch' for x in lf.nodes()): sw = (l, lf)
        elif any(x.k == 'binop' and x.op in ('==', '||') for x in lf.nodes()) or (lf.d.get('ret') or '') == 'bool': wm = (l, lf)
    if sw is None:
        switches = [x for x in opn.nodes() if x.k == 'switch']
        if switches: sw = (None, opn)
    # the same two pieces as free / member helper functions called from open()
    helpers = []
    for n in opn.nodes():
        if n.k == 'call' and n.callee_in_root:
            for t in facts.resolve(n):
                if t.file.endswith('File.cpp') and t not in helpers and any(p_['ctype'].endswith('Mode') for p_ in t.d['params']): helpers.append(t)
    wm_fn = None
    for t in helpers:
        if sw is None and any(x.k == 'switch' for x in t.nodes()): sw = (None, t)
        elif wm is None and (t.d.get('ret') or '') == 'bool' and not any(x.k == 'switch' for x in t.nodes()): wm_fn = t
    if sw is None: rep.anchor_missing('mode switch', 'no switch over the mode in open()')
    else:
        table = {}
        throws = set()
        swn = [x for x in sw[1].nodes() if x.k == 'switch'][0]
        cur = []
        body = swn.n('body')
        def walk_cases(n, labels):
            # case nodes nest: case A: <sub>
            if n.k == 'case':
                lab = n.n('v')
                name = None
                for x in lab.walk():
                    if x.k == 'ref' and x.dk == 'enum': name = x.name
                walk_cases(n.n('sub'), labels + [name]); return
            if n.k == 'default':
                walk_cases(n.n('sub'), labels + ['<default>']); return
            if n.k == 'return':
                s = None
                for x in n.walk():
                    if x.k == 'str': s = x.v
                for l in labels: table[l] = s
            elif n.k == 'throw' or any(x.k == 'throw' for x in n.walk()):
                for l in labels: throws.add(l)
        for st in body.ns('stmts'):
            if st is not None: walk_cases(st, [])
        for m in MODES[1:]:
            rep.check(table.get(m) == MODE_STR[m], 'FI.1', f'Mode::{m} -> "{MODE_STR[m]}"', swn.shortloc(), f'Mode::{m} opens the stream with mode string {table.get(m)!r}: ' +
                      ('append would truncate / write would not' if m in WRITE_MODES else 'wrong access mode'), key=f'FI.1|modestr|{m}', fn=opn.name)
        rep.check('None' in throws and '<default>' in throws, 'FI.1', 'Mode::None and unknown values throw', swn.shortloc(), f'throwing labels: {sorted(map(str, throws))}', key='FI.1|throws', fn=opn.name)
    if wm is None and wm_fn is not None:
        for m in MODES:
            dom = FileDomain(dict(mode=m))
            ex = Exec(facts, dom)
            vals = {P.ret if isinstance(P.ret, bool) else repr(P.ret) for P in ex.run(wm_fn, args=[Enum('tulz::File::Mode::' + m)])}
            want = m in WRITE_MODES
            rep.check(vals == {want}, 'FI.1', f'{wm_fn.name.split("::")[-1]}(Mode::{m}) = {sorted(map(str, vals))}', wm_fn.shortloc(), f'expected {want}: opening a missing file in this mode ' + ('fails with NotFound although the mode creates files' if want else 'silently proceeds'), key=f'FI.1|iswrite|{m}', fn=opn.name)
    elif wm is None: rep.anchor_missing('isWriteMode', 'write-mode predicate not found in open()')
    else:
        for m in MODES:
            dom = FileDomain(dict(mode=m))
            ex = Exec(facts, dom)
            clo = Closure(wm[0], wm[1], {c['decl']: ('val', Enum('tulz::File::Mode::' + m)) for c in wm[0].captures or [] if 'decl' in c and c.get('var') == 'mode'})
            vals = {P.ret if isinstance(P.ret, bool) else repr(P.ret) for P in ex.run_closure(clo, this_path=('this',))}
            want = m in WRITE_MODES
            if not all(isinstance(x_, bool) for x_ in vals):
                rep.inconclusive('FI.1', f'isWriteMode(Mode::{m})', wm[1].shortloc(), f'the predicate evaluates to {sorted(map(str, vals))[0][:80]}: not followed'); continue
            rep.check(vals == {want}, 'FI.1', f'isWriteMode(Mode::{m}) = {sorted(map(str, vals))}', wm[1].shortloc(), f'expected {want}: opening a missing file in this mode ' + ('fails with NotFound although the mode creates files' if want else 'silently proceeds'), key=f'FI.1|iswrite|{m}', fn=opn.name)
    # ---- FI.2 --------------------------------------------------------------------------------------------------------------
    for mode, exists, is_dir, is_open in itertools.product(['Read', 'Write'], [True, False], [True, False], [True, False]):
        if not exists and is_dir: continue
        dom = FileDomain(dict(mode=mode, exists=exists, is_dir=is_dir, is_open=is_open)); dom._facts = facts
        try: res = run_paths(facts, opn, dom)
        except Inconclusive as e:
            rep.inconclusive('FI.2', 'open', opn.shortloc(), str(e)); break
        row = f'(mode={mode}, exists={exists}, directory={is_dir}, already open={is_open})'
        for P, E in res:
            thrown = [x.name for e in E if e.kind == 'throw' and e.node is not None for x in e.node.walk() if x.k == 'ref' and x.dk == 'enum']
            fo = [e for e in E if e.kind == 'call' and e.name == 'fopen']
            want = 'NotFound' if (not exists and mode == 'Read') else 'NotFile' if (exists and is_dir) else None
            if want:
                ok = thrown == [want] and not fo
                rep.check(ok, 'FI.2', f'open row {row}: throws {want} before fopen', opn.shortloc(), f'throws {thrown or "nothing"}; fopen called: {bool(fo)}', key=f'FI.2|throw|{want}', fn=opn.name)
            else:
                ok = not thrown and len(fo) == 1
                rep.check(ok, 'FI.2', f'open row {row}: opens the stream', fo[0].site if fo else opn.shortloc(), f'throws {thrown}' if thrown else f'{len(fo)} fopen calls', key='FI.2|opens', fn=opn.name)
                if fo:
                    cl = [e for e in E if e.kind == 'call' and strip_targs(e.name) == f'{F}::close']
                    late = [e for e in E if e.kind == 'call' and e.name == 'fclose' and E.index(e) > E.index(fo[0])] if FileDomain.owning else []
                    okc = (len(cl) == 1 and E.index(cl[0]) < E.index(fo[0])) if is_open else not cl
                    why_c = 'the previous stream leaks' if is_open else 'closes a stream that is not open'
                    if is_open and not cl and late:
                        okc = False; why_c = ('the previous stream is closed only *after* the new fopen (the owning handle\'s reset() runs the deleter last): its unflushed data is written out over the file the new stream has just truncated / positioned, '
                                             'so what was "overwritten" survives and size() / read() report stale content')
                    rep.check(okc, 'FI.2', f'open row {row}: a stream that is already open is closed first', (late[0].site if (is_open and not cl and late) else opn.shortloc()), why_c, key='FI.2|reopen', fn=opn.name)
                    w = [e for e in E if e.kind == 'write' and e.obj == 'm_file']
                    wmode = [e for e in E if e.kind == 'write' and e.obj == 'm_mode']
                    rep.check(bool(w) and bool(wmode), 'FI.2', f'open row {row}: m_file and m_mode are stored', opn.shortloc(), 'the handle / mode is not recorded (read() picks the wrong counting strategy)', key='FI.2|store', fn=opn.name)
    # ---- FI.3 -----------------------------------------------------------------------------------------------------------------
    sz = fns['size'][0]
    dom = FileDomain({}, inline={f'{F}::tell', f'{F}::seek'})
    for P, E in run_paths(facts, sz, dom):
        calls = [e for e in E if e.kind == 'call' and e.name in ('ftell', 'fseek', 'fstat', 'fileno', 'fflush', 'stat', 'lseek')]
        seq = [e.name for e in calls]
        def whence(e):
            a = e.node.ns('args')
            return a[2].d.get('const', a[2].d.get('v')) if len(a) > 2 and a[2] is not None else None
        tells = [e for e in calls if e.name == 'ftell']; seeks = [e for e in calls if e.name == 'fseek']
        ok = len(tells) == 2 and len(seeks) == 2 and seq[:4] == ['ftell', 'fseek', 'ftell', 'fseek'] and whence(seeks[0]) == 2 and whence(seeks[1]) == 0
        flushed_stat = 'fstat' in seq and 'fflush' in seq and seq.index('fflush') < seq.index('fstat')
        why = ''
        if not ok and not flushed_stat:
            why = (f'stdio calls on this path: {seq}: ' + ('the size is taken from fstat without a preceding fflush: bytes still in the stdio buffer are not counted, size() under-reports after write() until the data is flushed' if 'fstat' in seq else
                   'expected tell, seek(0, END), tell, seek(saved, SET): the size is wrong or the position is not restored'))
        rep.check(ok or flushed_stat, 'FI.3', f'size(): tell -> seek(END) -> tell -> seek(saved, SET) [{seq}]', calls[0].site if calls else sz.shortloc(), why, key='FI.3|sequence', fn=sz.name)
        if ok:
            r = as_lin(P.ret) if isinstance(P.ret, (Lin, int)) else None
            rep.check(r == Lin.sym(f'tell@{tells[1].node.id}'), 'FI.3', 'size() returns the position of the end', sz.shortloc(), f'returns {P.ret}', key='FI.3|ret', fn=sz.name)
            a = seeks[1].args
            rep.check(len(a) >= 2 and as_lin(a[1]) == Lin.sym(f'tell@{tells[0].node.id}'), 'FI.3', 'the saved position is restored', seeks[1].site, f'seeks back to {a[1] if len(a) > 1 else "?"}', key='FI.3|restore', fn=sz.name)
    # ---- FI.4 --------------------------------------------------------------------------------------------------------------------
    rd = [f for f in fns['read'] if not f.d['params']]
    if not rd: rep.anchor_missing(f'{F}::read()', 'not found')
    else:
        rd = rd[0]
        # narrowing of fgetc
        for f in [g for g in facts.fns if g.file.endswith('File.cpp')]:
            for n in f.nodes():
                if n.k == 'call' and n.callee_base() in ('fgetc', 'getc', 'getchar') and not n.callee_in_root:
                    pm = common.parent_map(f)
                    par = pm.get(n.id)
                    narrowed = None
                    if par is not None and par.k == 'decl':
                        for v in par.vars:
                            if v.get('init') == n.id and v['ctype'] in NARROW: narrowed = v
                    if par is not None and par.k == 'cast' and (par.to or '') in NARROW: narrowed = {'name': 'cast', 'decl': None}
                    if par is not None and par.k == 'binop' and par.op == '=' and par.n('lhs') is not None and (par.n('lhs').type or '') in NARROW: narrowed = {'name': par.n('lhs').text(), 'decl': par.n('lhs').decl}
                    if narrowed is not None:
                        # compared with EOF (a negative constant)?
                        cmp_ = [x for x in f.nodes() if x.k == 'binop' and x.op in ('==', '!=') and any(c.d.get('const', 0) == -1 or (c.k == 'unop' and c.op == '-') for c in (x.n('lhs'), x.n('rhs')) if c is not None)]
                        rep.check(not cmp_, 'FI.4', f'{f.name}: fgetc() result keeps its int width until it is tested against EOF', n.shortloc(),
                                  f'fgetc() is stored in a `{narrowed.get("ctype", "char")}` ({narrowed["name"]}) and compared with EOF: byte 0xFF equals EOF after narrowing, counting stops there and read()/readStr() return only the prefix',
                                  key='FI.4|narrow', fn=f.name)
                    else:
                        rep.ok('FI.4', f'{f.name}: fgetc() at line {n.line} is not narrowed to char', n.shortloc())
        for mode in ('ReadText', 'AppendText', 'Read', 'Write'):
            for eof_seq in (True,):
                dom = FileDomain(dict(mode=mode))
                try: res = run_paths(facts, rd, dom)
                except Inconclusive as e:
                    rep.inconclusive('FI.4', 'read()', rd.shortloc(), str(e)); break
                for P, E in res:
                    text = mode in ('ReadText', 'AppendText')
                    # positioning: File::seek(offset, origin), or the C calls on the stream (fseek(stream, offset, whence), rewind(stream))
                    seeks = [e for e in E if e.kind == 'call' and (strip_targs(e.name) == f'{F}::seek' or e.name in ('fseek', 'fseeko', 'rewind'))]
                    reads = [e for e in E if e.kind == 'call' and (strip_targs(e.name) == f'{F}::read' or e.name == 'fread')]
                    if any(strip_targs(e.name) == f'{F}::read' for e in reads): reads = [e for e in reads if strip_targs(e.name) == f'{F}::read']
                    sizes = [e for e in E if e.kind == 'call' and strip_targs(e.name) == f'{F}::size']
                    tells = [e for e in E if e.kind == 'call' and (strip_targs(e.name) == f'{F}::tell' or e.name in ('ftell', 'ftello'))]
                    getcs = [e for e in E if e.kind == 'call' and e.name in ('fgetc', 'getc')]
                    def _pos(e):
                        """(offset, origin) of a positioning call; origin in Start / End / Cur / ?"""
                        if e.name == 'rewind': return Lin.const(0), 'Start'
                        a_ = e.args[1:] if e.name in ('fseek', 'fseeko') else e.args
                        off = as_lin(a_[0]) if a_ and isinstance(a_[0], (Lin, int)) else None
                        org = repr(a_[1]) if len(a_) > 1 else '?'
                        if len(a_) > 1 and as_lin(a_[1]) is not None and as_lin(a_[1]).is_const(): org = {0: 'Start', 1: 'Cur', 2: 'End'}.get(as_lin(a_[1]).c, '?')
                        return off, ('Start' if org.endswith('Start') else 'End' if org.endswith('End') else 'Cur' if org.endswith(('Cur', 'Current')) else org)
                    is_rewind = lambda e: _pos(e)[0] == Lin.const(0) and _pos(e)[1] == 'Start'
                    is_toend = lambda e: _pos(e)[0] == Lin.const(0) and _pos(e)[1] == 'End'
                    def last_seek_before(ev):
                        i = E.index(ev); prev = [x for x in seeks if E.index(x) < i]
                        return prev[-1] if prev else None
                    # the data is read from offset 0: the last seek before the fread is seek(0, Start)
                    if reads:
                        ls = last_seek_before(reads[0])
                        okrw = ls is not None and is_rewind(ls)
                        inst_rw = f'read() mode {mode}: the stream is rewound to offset 0 before the data is read'
                        if ls is None:
                            # nothing moved the stream: unless some call on it is unknown to this table, the read starts wherever an earlier read / seek left it
                            ri_ = E.index(reads[0])
                            NONPOS = ('fgetc', 'getc', 'feof', 'ferror', 'ftell', 'ftello', 'fread', 'fwrite', 'fflush', 'clearerr', 'fileno')
                            unknown_calls = [e for e in E[:ri_] if e.kind == 'call' and not strip_targs(e.name).startswith(f'{F}::') and e.name not in NONPOS and any(isinstance(a_, Sym) and a_.name in ('m_file', 'field:this.m_file') for a_ in (e.args or []))]
                            own = [e for e in E[:ri_] if e.kind == 'call' and strip_targs(e.name).startswith(f'{F}::') and strip_targs(e.name) not in (f'{F}::tell', f'{F}::size', f'{F}::read', f'{F}::isOpen')]
                            if unknown_calls or own: rep.inconclusive('FI.4', inst_rw, rd.shortloc(), f'no positioning call (File::seek / fseek / rewind) was recognised before the data is read, but {(unknown_calls or own)[0].name}() is applied to the stream: where the read starts is not followed')
                            else: rep.violation('FI.4', inst_rw, reads[0].site, 'nothing positions the stream before the data is read (size() restores the position it found): the read starts wherever an earlier read / seek left the stream, so after a partial read or a seek read() / readStr() return the wrong bytes', key='FI.4|rewind', fn=rd.name)
                        else: rep.check(okrw, 'FI.4', inst_rw, ls.site, f'the data is not read from offset 0: the last positioning before the read is {_pos(ls)}', key='FI.4|rewind', fn=rd.name)
                    if text:
                        iters = len(getcs)
                        fs = last_seek_before(getcs[0]) if getcs else None
                        okc = not sizes and bool(getcs) and fs is not None and is_rewind(fs)
                        inst_c = f'read() mode {mode}: counts bytes from offset 0 ({iters} fgetc on this path)'
                        if getcs and fs is None: rep.inconclusive('FI.4', inst_c, rd.shortloc(), 'no positioning call before the counting loop was found')
                        else: rep.check(okc, 'FI.4', inst_c, rd.shortloc(), 'text mode does not count the bytes from the start of the stream' + (f' (the last positioning before the count is {_pos(fs)})' if fs is not None and getcs else ''), key='FI.4|text', fn=rd.name)
                    elif reads and len(reads[0].args) >= 3:
                        cnt = reads[0].args[2]
                        nm = repr(cnt)
                        if any(nm == f'size@{x.node.id}' for x in sizes) and not getcs:
                            rep.ok('FI.4', f'read() mode {mode}: the byte count is size()', rd.shortloc())
                        elif any(nm in (f'tell@{x.node.id}', f'ret:ftell@{x.node.line}') for x in tells) and not getcs:
                            t0 = next(x for x in tells if nm in (f'tell@{x.node.id}', f'ret:ftell@{x.node.line}')); ls = last_seek_before(t0)
                            okt = ls is not None and is_toend(ls)
                            rep.check(okt, 'FI.4', f'read() mode {mode}: the byte count is the offset of the end of the stream (seek(0, End); tell())', t0.site, 'the byte count is a stream position that is not the end of the file', key='FI.4|binary', fn=rd.name)
                        elif getcs: rep.violation('FI.4', f'read() mode {mode}: the byte count is the size of the file', rd.shortloc(), 'binary mode counts with fgetc', key='FI.4|binary', fn=rd.name)
                        else: rep.inconclusive('FI.4', f'read() mode {mode}: the byte count is the size of the file', rd.shortloc(), f'the count handed to read() ({cnt}) is neither size() nor the end offset')
                    cons = [e for e in E if e.kind in ('construct',) and strip_targs(e.name).startswith('tulz::Array')]
                    if len(reads) == 1 and len(reads[0].args) >= 3:
                        a = reads[0].args
                        one = as_lin(a[1]) == Lin.const(1) or repr(a[1]) in ('sizeof(unsigned char)', 'sizeof(char)', 'sizeof(signed char)', 'sizeof(tulz::byte)', 'sizeof(byte)', 'sizeof(std::byte)')
                        ok = one and (cons and repr(cons[0].args[0]) == repr(a[2]) if cons else True)
                        rep.check(ok, 'FI.4', f'read() mode {mode}: read(buffer, 1, count) with the buffer sized count', reads[0].site, f'read({a[1]}, {a[2]}) into an Array of {cons[0].args[0] if cons else "?"}', key='FI.4|fread-args', fn=rd.name)
        # fread / fwrite argument order
        def _is_stream(x):
            # the stream member itself, or what the owning handle holds (`m_file.get()`)
            while x is not None and x.k == 'cast': x = x.n('sub')
            if x is None: return False
            if x.is_field('m_file'): return True
            return FileDomain.owning and x.k == 'call' and x.callee_base() == 'get' and x.n('object') is not None and x.n('object').is_field('m_file')
        for f in [g for g in facts.fns if g.d.get('class') == F]:
            for n in f.nodes():
                if n.k == 'call' and n.callee_base() == 'fread' and not n.callee_in_root:
                    a = n.ns('args'); ps = [p['decl'] for p in f.d['params']]
                    fwd = len(a) == 4 and len(ps) == 3 and all(x is not None and x.k == 'ref' and x.decl in ps for x in a[:3])
                    if fwd:
                        ok = [x.decl for x in a[:3]] == ps[:3] and _is_stream(a[3])
                        rep.check(ok, 'FI.4', 'read(buffer, size, count) -> fread(buffer, size, count, m_file)', n.shortloc(), f'fread arguments {[x.text()[:12] for x in a if x is not None]}', key='FI.4|fread', fn=f.name)
                    elif len(a) == 4 and a[3] is not None and not a[3].is_field('m_file') and a[3].k == 'member':
                        rep.violation('FI.4', f'{f.name}: fread reads from m_file', n.shortloc(), f'fread is given the stream `{a[3].text()[:30]}`', key='FI.4|fread', fn=f.name)
                    else:
                        rep.inconclusive('FI.4', f'{f.name}: fread(ptr, size, count, m_file)', n.shortloc(), f'fread is not called through the (buffer, size, count) overload: arguments {[x.text()[:14] for x in a if x is not None]} not followed')
                if n.k == 'call' and n.callee_base() == 'fwrite' and not n.callee_in_root:
                    a = n.ns('args'); ps = [p['decl'] for p in f.d['params']]
                    fwd = len(a) == 4 and len(ps) == 3 and all(x is not None and x.k == 'ref' and x.decl in ps for x in a[:3])
                    if fwd:
                        ok = [x.decl for x in a[:3]] == [ps[0], ps[2], ps[1]] and _is_stream(a[3])
                        rep.check(ok, 'FI.4', 'write(data, size, elementSize) -> fwrite(data, elementSize, size, m_file)', n.shortloc(), f'fwrite arguments {[x.text()[:12] for x in a if x is not None]}', key='FI.4|fwrite', fn=f.name)
                    else:
                        rep.inconclusive('FI.4', f'{f.name}: fwrite(data, elementSize, size, m_file)', n.shortloc(), f'fwrite is not called through the (data, size, elementSize) overload: arguments {[x.text()[:14] for x in a if x is not None]} not followed')
        ws = [f for f in facts.by_name.get(f'{F}::write', []) if len(f.d['params']) == 1 and 'basic_string' in f.d['params'][0]['ctype']]
        for f in ws:
            calls = [n for n in f.nodes() if n.k == 'call' and strip_targs(n.calleeq or '') == f'{F}::write']
            ok = len(calls) == 1 and len(calls[0].ns('args')) >= 2 and calls[0].ns('args')[1] is not None and calls[0].ns('args')[1].k == 'call' and calls[0].ns('args')[1].callee_base() in ('length', 'size')
            rep.check(ok, 'FI.4', 'write(string) writes length() bytes (embedded NULs kept)', f.shortloc(), 'write(string) derives the length from the C string (stops at the first NUL)', key='FI.4|write-string', fn=f.name)
        rs = fns['readStr'][0]
        cons = [n for n in rs.nodes() if n.k in ('construct', 'initlist') and len([a for a in n.ns('args') if a is not None]) >= 2 and 'basic_string' in (n.d.get('class') or n.type or '')]
        ok = any(any(x.k == 'call' and x.callee_base() in ('size', 'length') for a in c.ns('args')[1:2] if a is not None for x in a.walk()) for c in cons)
        # refutation: a std::string built from a lone `const char *` (or anything measured with strlen)
        def real_args(n): return [a for a in n.ns('args') if a is not None and not (a.type or '').startswith('std::allocator<')]
        one_arg = [n for n in rs.nodes() if n.k in ('construct', 'initlist') and 'basic_string' in (n.d.get('class') or n.type or '') and len(real_args(n)) == 1
                   and ((real_args(n)[0].type or '').replace('const ', '').strip() in ('char *', 'unsigned char *', 'signed char *'))]
        strl = [n for n in rs.nodes() if n.k == 'call' and n.callee_base() in ('strlen', 'strnlen')]
        # readStr() returns the whole content: what it reads itself (not through read(), which rewinds) is read from offset 0
        for mode_ in ('Read', 'ReadText'):
            try: res_ = run_paths(facts, rs, FileDomain(dict(mode=mode_)))
            except Inconclusive: res_ = []
            for P_, E_ in res_:
                raw = [e for e in E_ if e.kind == 'call' and ((strip_targs(e.name) == f'{F}::read' and len(e.args) >= 3) or e.name in ('fread',))]
                for r_ in raw:
                    i_ = E_.index(r_)
                    pos_ = [e for e in E_[:i_] if e.kind == 'call' and ((strip_targs(e.name) == f'{F}::seek') or e.name in ('fseek', 'fseeko', 'rewind') or (strip_targs(e.name) == f'{F}::read' and len(e.args) < 3))]
                    inst_ = f'readStr() mode {mode_}: the bytes it reads itself are read from offset 0'
                    if not pos_: rep.violation('FI.4', inst_, r_.site, 'readStr() reads the data itself (not through read(), which rewinds) and nothing positions the stream first: it returns what follows the current position, not the whole content (a second readStr() returns an empty string)', key='FI.4|readstr-rewind', fn=rs.name)
                    else:
                        l_ = pos_[-1]
                        a0 = l_.args[1:] if l_.name in ('fseek', 'fseeko') else l_.args
                        zero = l_.name == 'rewind' or (strip_targs(l_.name) == f'{F}::read') or (a0 and as_lin(a0[0]) == Lin.const(0) and (len(a0) < 2 or repr(a0[1]).endswith('Start') or (as_lin(a0[1]) is not None and as_lin(a0[1]) == Lin.const(0))))
                        if zero: rep.ok('FI.4', inst_, l_.site)
                        else: rep.inconclusive('FI.4', inst_, l_.site, f'the positioning before the read ({l_.name}({", ".join(repr(x) for x in l_.args)})) is not a rewind to offset 0: not followed')
        inst = 'readStr() builds the string with an explicit length — NUL-safe'
        if ok: rep.ok('FI.4', inst, rs.shortloc())
        elif one_arg or strl: rep.violation('FI.4', inst, (one_arg or strl)[0].shortloc(), 'readStr() builds the string from a C string (stops at the first NUL)', key='FI.4|readstr', fn=rs.name)
        else: rep.inconclusive('FI.4', inst, rs.shortloc(), 'how readStr() builds its result was not recognised (neither (pointer, size) nor a lone C string)')
    # ---- FI.6: the existence / directory tests of open() describe the same object fopen() will open ------------------------------------------
    import C18 as _c18
    rep.rule('PA.7', 'premise of FI.2: Path::exists() / isDirectory(), on which open() bases NotFound / NotFile, follow symbolic links exactly as the fopen() that opens the file does (no lstat / readlink)')
    _c18._link_rules(facts, rep)
    # ---- FI.5 ----------------------------------------------------------------------------------------------------------------------
    cl = fns['close'][0]
    for is_open in (True, False):
        dom = FileDomain(dict(is_open=is_open))
        for P, E in run_paths(facts, cl, dom):
            fc = [e for e in E if e.kind == 'call' and e.name == 'fclose']
            w = [e for e in E if e.kind == 'write' and e.obj == 'm_file']
            if is_open:
                # fclose exactly once on the handle that was open; m_file is null when close() returns (before or after the call: std::exchange)
                arg = fc[0].args[0] if fc and fc[0].args else None
                closes_open = len(fc) == 1 and arg is not None and not (isinstance(arg, Lin) and arg.is_const() and arg.c == 0) and not (isinstance(arg, int) and arg == 0)
                ok = closes_open and bool(w) and as_lin(w[-1].val) == Lin.const(0)
                rep.check(ok, 'FI.5', 'close() on an open file: fclose once on the open handle, and the handle is null afterwards', cl.shortloc(), f'{len(fc)} fclose (argument {arg}) / {len(w)} handle writes', key='FI.5|close', fn=cl.name)
            else:
                rep.check(not fc, 'FI.5', 'close() on a closed file does not call fclose', cl.shortloc(), 'fclose(NULL)', key='FI.5|close-null', fn=cl.name)
    dt = [f for f in facts.fns if f.d.get('class') == F and f.d.get('dtor')]
    if FileDomain.owning and (not dt or dt[0].d.get('defaulted') or dt[0].body is None or not any(True for _ in dt[0].body.children())):
        rep.ok('FI.5', '~File(): the owning handle closes an open stream when the object is destroyed (member destructor -> deleter -> fclose)', hf[0]['loc'])
    elif dt:
        for is_open in (True, False):
            dom = FileDomain(dict(is_open=is_open))
            for P, E in run_paths(facts, dt[0], dom):
                c = [e for e in E if e.kind == 'call' and strip_targs(e.name) == f'{F}::close']
                rep.check((len(c) == 1) == is_open, 'FI.5', f'~File() closes an open file (open={is_open})', dt[0].shortloc(), 'the stream is not closed on destruction' if is_open else 'closes a closed file', key='FI.5|dtor', fn=dt[0].name)
