"""C07 — ThreadPool runs every task at most once and owns it until destroyed once."""
import threadpool
TUS = threadpool.TUS
def run(facts, rep, tier):
    threadpool.emit(facts, rep, ['TP.1', 'TP.2', 'TP.3', 'TP.4', 'TP.5', 'TP.6c', 'TP.6d', 'TP.7', 'TP.8', 'TP.10'],
                    {'TP.1': 6, 'TP.2': 2, 'TP.3': 1, 'TP.4': 2, 'TP.5': 4, 'TP.6c': 2, 'TP.6d': 1, 'TP.7': 4, 'TP.8': 2, 'TP.10': 1})
