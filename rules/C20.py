"""C20 — tulz::Thread runs its callable once, on a live copy, and reports completion (rules TH.1-TH.4)."""
from facts import Node, strip_targs
from symex import Closure, Exec, Ref, Sym, Record
from evdom import EvDomain, run_paths, _flatten
import common

TUS = ['src/threading/Thread.cpp', 'witness/w_thread.cpp']
TH = 'tulz::Thread'


def run(facts, rep, tier):
    rep.rule('TH.1', 'the closure handed to std::thread owns what it invokes: the callable it calls is captured by copy (or moved in), never by reference, '
                     'and it captures by reference no variable with automatic storage of the creating function (by-value parameters, locals)')
    rep.rule('TH.2', 'the thread body invokes the callable exactly once; the completion state is written in the body only after the callable returned; '
                     'nobody else writes it after the thread has been created; isFinished() reports that state; join() joins the thread that was started')
    rep.rule('TH.3', 'Thread::start(Runnable*): run() once, then delete once, then the completion state')
    rep.rule('TH.4', 'the completion state is written by the new thread and read by its owner: it is std::atomic (or consistently locked)')
    rep.assume('arguments forwarded to the callable are lvalues that outlive the thread (documented use); std::thread copies/moves the closure into the new thread')
    starts = [f for f in facts.fns if f.gname == f'{TH}::start' and not f.d.get('lambda')]
    inst = [f for f in starts if f.d.get('instantiation')]
    plain = [f for f in starts if not f.d.get('instantiation')]
    if not plain: rep.anchor_missing(f'{TH}::start(Runnable*)', 'not found')
    rep.floor('Thread::start<T, Args...> instantiations', len(inst), 8)
    cls = facts.cls(TH)
    if cls is None:
        rep.anchor_missing(TH, 'class not found'); return
    # --- completion state: the field(s) isFinished() reads
    isfin = facts.fn(f'{TH}::isFinished')
    if isfin is None:
        rep.anchor_missing(f'{TH}::isFinished', 'not found'); return
    def fields_read(fn, depth=0, seen=None):
        seen = seen if seen is not None else set()
        if fn.name in seen or depth > 3: return set()
        seen.add(fn.name)
        out = {n.name for n in fn.nodes() if n.is_field(cls=TH)}
        for n in fn.nodes():
            if n.k == 'call' and n.callee_in_root and (n.n('object') is None or n.n('object').k == 'this'):
                for t_ in facts.resolve(n):
                    if t_.d.get('class') == TH: out |= fields_read(t_, depth + 1, seen)
        return out
    state_fields = sorted(fields_read(isfin))
    if not state_fields:
        rep.anchor_missing(f'{TH}::isFinished', 'reads no field'); return
    rep.note(f'completion state field(s): {state_fields}')

    bodies = 0
    auto_decls = {}           # decl id -> (name, type) of every variable with automatic storage in a start() function: by-value parameters, non-reference locals
    all_auto = {}
    for f in starts:
        tun = f.tu.name
        for p_ in f.d['params']:
            if not p_.get('isref'): all_auto[(tun, p_['decl'])] = (p_['name'], p_.get('ctype'))
        for n in f.nodes():
            if n.k == 'decl':
                for v in n.vars:
                    if not v.get('isref'): all_auto[(tun, v['decl'])] = (v['name'], v.get('ctype'))
    for f in starts:
        inst_label = f.name[:110]
        is_runnable = not f.d.get('instantiation')
        auto_decls = {d: v for (t_, d), v in all_auto.items() if t_ == f.tu.name}       # declaration ids are per translation unit
        res = run_paths(facts, f, EvDomain())
        for P, E in res:
            if P.end not in ('exit', 'return'): continue
            ths = [e for e in E if e.kind == 'thread']
            if len(ths) != 1:
                rep.violation('TH.2', f'{inst_label}: {len(ths)} std::thread constructions on a path', f.shortloc(), 'start() must create exactly one thread', key=f'TH.2|threads|{f.gname}', fn=f.name)
                continue
            t = ths[0]; ti = E.index(t)
            body = t.val
            # --- the created thread ends up in m_thread
            stored = [e for e in E[ti:] if e.kind == 'call' and e.obj == 'm_thread' and e.name.split('::')[-1] in ('operator=', 'swap')]
            if stored: rep.ok('TH.2', f'{inst_label}: the created thread is stored in m_thread', stored[0].site)
            else: rep.violation('TH.2', f'{inst_label}: the created thread is stored in m_thread', t.site, 'the std::thread is not stored in m_thread: join() cannot wait for it', key=f'TH.2|store|{f.gname}', fn=f.name)
            # --- nobody else writes the completion state once the thread exists
            for e in E[ti:]:
                if e.kind == 'write' and e.name == 'field' and e.obj in state_fields:
                    rep.violation('TH.2', f'{inst_label}: start() writes the completion state only before the thread is created', e.site,
                                  f'the completion state is written after the std::thread construction at {t.site}: it races with the body\'s own write and can overwrite "finished", isFinished() then never becomes true',
                                  key=f'TH.2|ownerwrite|{f.gname}', fn=f.name)
            # --- the body
            ex = Exec(facts, EvDomain())
            lam = None; caps = {}
            if isinstance(body, Closure) and body.fn is not None:
                lam = body.lam if hasattr(body, 'lam') else None
                # the body starts in the state start() had built when it created the thread (members it filled in: a stored task closure)
                from symex import State as _State
                st0 = _State(); st0.store = {k_: v_ for k_, v_ in P.store.items() if k_[0] == 'f'}
                body_paths = ex.run_closure(body, this_path=('this',), state=st0)
                body_site = body.fn.shortloc()
            elif isinstance(body, Record):
                a0 = t.node.ns('args')[0] if t.node is not None and t.node.ns('args') else None
                ty = (a0.type or '') if a0 is not None else ''
                ops = [g for g in facts.fns if g.d.get('classfull') == ty and g.qname.endswith('::operator()')] or [g for g in facts.fns if g.d.get('class') == ty and g.qname.endswith('::operator()')]
                if len(ops) != 1:
                    rep.inconclusive('TH.2', inst_label, t.site, f'std::thread is given an object of type {ty}: its call operator was not found'); continue
                from symex import State
                st0 = State()
                for k_, v_ in body.f.items(): st0.store[('f', ('functor', k_))] = v_
                body_paths = ex.run(ops[0], this_path=('functor',), state=st0)
                body_site = ops[0].shortloc()
                # TH.1 for a function object: what it invokes must be a by-value member, what it refers to must not be automatic
                for k_, v_ in body.f.items():
                    if isinstance(v_, Ref) and v_.loc[0] == 'l' and v_.loc[-1] in auto_decls:
                        nm, ty_ = auto_decls[v_.loc[-1]]
                        rep.violation('TH.1', f'{inst_label}: member `{k_}` of the thread\'s function object refers to `{nm}`', t.site,
                                      f'`{nm}` ({ty_}) has automatic storage in start(): it is gone when start() returns, the new thread reads a dangling reference however late it is scheduled',
                                      key=f'TH.1|auto|{f.gname}|{nm}', fn=f.name)
                    else: rep.ok('TH.1', f'{inst_label}: member `{k_}` of the thread\'s function object does not refer to automatic storage of start()', t.site)
            else:
                rep.inconclusive('TH.1', inst_label, t.site, f'std::thread is given {body!r}: neither a lambda nor a function object the analysis can follow'); continue
            bodies += 1
            # TH.1 for a lambda: captures
            if isinstance(body, Closure):
                n_ref = 0
                # by-reference captures of the thread's closure, and of every closure it holds by value (a thunk handed to a launch helper
                # and moved into the thread's function object keeps its own captures)
                envs = [(body, dk, mv) for dk, mv in body.env.items()]
                stack_ = [v_ for dk_, (m_, v_) in body.env.items() if isinstance(v_, Closure)]
                seen_c = set()
                while stack_:
                    c_ = stack_.pop()
                    if id(c_) in seen_c: continue
                    seen_c.add(id(c_))
                    envs += [(c_, dk, mv) for dk, mv in c_.env.items()]
                    stack_ += [v_ for dk_, (m_, v_) in c_.env.items() if isinstance(v_, Closure)]
                for clo_, dk, (mode, v) in envs:
                    if mode != 'ref': continue
                    n_ref += 1
                    loc = v.loc if isinstance(v, Ref) else v
                    # follow references: a by-reference capture of a reference variable designates what that variable refers to
                    seen_ = 0
                    while isinstance(loc, tuple) and loc and loc[0] == 'l' and isinstance(P.store.get(loc), Ref) and seen_ < 5:
                        loc = P.store[loc].loc; seen_ += 1
                    dcl = loc[-1] if isinstance(loc, tuple) and loc and loc[0] == 'l' else None
                    var = next((c['var'] for c in (clo_.lam.captures if getattr(clo_, 'lam', None) is not None else []) or [] if c.get('decl') == dk), dk)
                    held_ = P.store.get(loc) if isinstance(loc, tuple) else None
                    tmp_param = None
                    if dcl is not None and dcl not in auto_decls and (isinstance(held_, Closure) or isinstance(getattr(held_, 'f', None), dict)):
                        # a reference parameter of a helper that start() calls, bound there to a temporary (a lambda expression, a function object built in
                        # the argument list): the temporary dies at the end of that call expression
                        for g_ in facts.fns:
                            for pr_ in g_.d.get('params') or []:
                                if pr_.get('decl') == dcl and (pr_.get('ctype') or '').rstrip().endswith('&') and g_.name != f.name: tmp_param = (g_, pr_)
                    if tmp_param is not None:
                        g_, pr_ = tmp_param
                        rep.violation('TH.1', f'{inst_label}: captures `{var}` by reference', body_site,
                                      f'`{pr_["name"]}` is a reference parameter of {g_.name.split("::")[-1]}() bound to a temporary that start() creates in the argument list ({type(held_).__name__.lower()}): the temporary is destroyed when '
                                      f'{g_.name.split("::")[-1]}() has returned, the new thread calls through a dangling reference however late it is scheduled', key=f'TH.1|tmp|{f.gname}|{pr_["name"]}', fn=f.name)
                    elif dcl in auto_decls:
                        nm, ty_ = auto_decls[dcl]
                        rep.violation('TH.1', f'{inst_label}: captures `{var}` by reference', body_site,
                                      f'`{nm}` ({ty_}) has automatic storage in start(): it is gone when start() returns, the new thread reads a dangling reference however late it is scheduled',
                                      key=f'TH.1|auto|{f.gname}|{nm}', fn=f.name)
                    else:
                        rep.ok('TH.1', f'{inst_label}: `{var}` is a reference to a caller lvalue (argument)', body_site)
            for BP in body_paths:
                B = _flatten(BP)
                calls = [e for e in B if e.kind in ('opaque', 'run')]
                dels = [e for e in B if e.kind == 'delete']
                fin = [e for e in B if e.kind == 'write' and e.name == 'field' and e.obj in state_fields]
                if not calls:
                    rep.violation('TH.2', f'{inst_label}: the thread body invokes nothing', body_site, 'the callable is never called', key=f'TH.2|nocall|{f.gname}', fn=f.name); continue
                # TH.1: the invoked callable lives in the closure / function object
                if isinstance(body, Closure):
                    for c_ in calls:
                        if c_.kind != 'opaque': continue
                        m_ = next(((mode, v) for dk, (mode, v) in body.env.items() if any(c.get('decl') == dk and c.get('var') == c_.obj for c in (getattr(body, 'lam', None).captures if getattr(body, 'lam', None) is not None else []) or [])), None)
                        if m_ is None: continue
                        if m_[0] == 'ref':
                            rep.violation('TH.1', f'{inst_label}: the callable `{c_.obj}` is captured by reference', body_site,
                                          f'the thread body invokes `{c_.obj}` through a reference to the caller\'s object: a temporary closure or a caller local is destroyed before a late-scheduled thread runs; the thread must own a copy',
                                          key=f'TH.1|callable|{f.gname}|{c_.obj}', fn=f.name)
                        else:
                            rep.ok('TH.1', f'{inst_label}: the invoked callable `{c_.obj}` is owned by the closure', body_site)
                ok_once = len(calls) == 1
                rep.check(ok_once, 'TH.2', f'{inst_label}: the callable is invoked exactly once in the thread body', calls[0].site if calls else body_site,
                          f'{len(calls)} invocations on a path of the thread body', key=f'TH.2|once|{f.gname}', fn=f.name)
                ok_fin = bool(fin) and bool(calls) and all(B.index(x) > B.index(calls[-1]) for x in fin)
                rep.check(ok_fin, 'TH.2', f'{inst_label}: completion state {state_fields} is written after the callable returned', fin[0].site if fin else body_site,
                          'the completion state is ' + ('never written by the thread body: isFinished() never becomes true' if not fin else 'written before the callable has returned: isFinished() is true while the callable still runs'),
                          key=f'TH.2|order|{f.gname}', fn=f.name)
                if is_runnable:
                    ok3 = len(calls) == 1 and calls[0].kind == 'run' and len(dels) == 1 and B.index(dels[0]) > B.index(calls[0]) and repr(dels[0].val) == repr(calls[0].val)
                    rep.check(ok3, 'TH.3', 'start(Runnable*): run() once, then delete of the same object once', dels[0].site if dels else body_site,
                              f'{len(calls)} run() / {len(dels)} delete on a path of the thread body' + (', delete before run' if calls and dels and B.index(dels[0]) < B.index(calls[0]) else ''),
                              key='TH.3|typestate', fn=f.name)
    rep.floor('thread bodies analysed', bodies, 9)
    # isFinished / join
    rets = [n for n in isfin.nodes() if n.k == 'return']
    rep.check(bool(rets), 'TH.2', f'isFinished() returns a value derived from {state_fields}', isfin.shortloc(), 'no return', key='TH.2|isfinished')
    jn = facts.fn(f'{TH}::join')
    if jn is None: rep.anchor_missing(f'{TH}::join', 'not found')
    else:
        joins = [n for n in jn.nodes() if n.is_call('std::thread::join') and n.n('object') is not None and n.n('object').is_field('m_thread', TH)]
        if len(joins) != 1: rep.check(False, 'TH.2', 'join() joins m_thread', jn.shortloc(), 'join() does not join the stored thread', key='TH.2|join')
        else:
            pos = jn.cfg.position(joins[0])
            if pos is not None and pos[0] in jn.cfg.pdom.get(jn.cfg.entry, ()): rep.ok('TH.2', 'join() joins m_thread on every path', joins[0].shortloc())
            else:
                # a path that returns without joining: acceptable only if it is taken when the completion state says the callable has returned
                # (TH.2 orders that write after the call; a Thread object that is started a second time is outside what C20 quantifies over)
                conds = [c_ for b_ in jn.cfg.blocks.values() if b_.cond is not None for c_ in [b_.cond]]
                only_state = bool(conds) and all(all((not y.is_field(cls=TH)) or y.name in state_fields or y.name == 'm_thread' for y in c_.walk()) and any(y.is_field(cls=TH) and y.name in state_fields for y in c_.walk()) or
                                                 all((not y.is_field(cls=TH)) or y.name == 'm_thread' for y in c_.walk()) for c_ in conds)
                if only_state: rep.ok('TH.2', f'join() returns without joining only on a path guarded by the completion state {state_fields} (the callable has returned by then)', joins[0].shortloc())
                else: rep.inconclusive('TH.2', 'join() joins m_thread on every path', joins[0].shortloc(), 'join() has a path that does not join the thread, under a condition that is not the completion state')
    # TH.4
    for sf in state_fields:
        fld = facts.field(TH, sf)
        ok = fld is not None and fld['atomic']
        rep.check(ok, 'TH.4', f'{TH}::{sf} is std::atomic', fld['loc'] if fld else '', f'{sf} has type {fld["ctype"] if fld else "?"}: written by the new thread, read by the owner without synchronisation', key=f'TH.4|{sf}')
    # ctor template forwards to start
    ctors = [f for f in facts.fns if f.gname == f'{TH}::Thread' and f.d.get('instantiation')]
    for c in ctors:
        calls = [n for n in c.nodes() if n.k == 'call' and n.callee_in_root and strip_targs(n.calleeq or '') == f'{TH}::start']
        rep.check(len(calls) == 1, 'TH.2', f'{c.name[:100]}: forwards to start()', c.shortloc(), 'constructor does not start the thread exactly once', key='TH.2|ctor', fn=c.name)
    # TH.1 at the call sites: what start() copies into the closure must itself own the callable.  A std::reference_wrapper (std::ref / std::cref)
    # to an object with automatic storage of the caller is a reference in disguise: the closure's copy refers to a dead object once the caller returns
    # --- TH.2: the std::thread handle and the completion state stay with the Thread object the body reports to
    thr_fields = {x['name'] for x in cls['fields'] if (x.get('ctype') or '').replace('const ', '').strip() in ('std::thread', 'std::jthread')}
    body_this = any(n_.k == 'lambda' and any(c_.get('mode') in ('this', 'starthis') for c_ in (n_.captures or [])) for s_ in starts for n_ in s_.nodes())
    n_tr = 0
    for g in facts.fns:
        if g.d.get('class') != TH or g.d.get('lambda'): continue
        for n in g.nodes():
            if n.k == 'member' and (n.name in thr_fields or n.name in state_fields) and n.n('base') is not None and n.n('base').k != 'this':
                b_ = n.n('base')
                while b_ is not None and b_.k in ('cast', 'paren', 'unop') and b_.n('sub') is not None: b_ = b_.n('sub')
                if b_ is None or b_.k == 'this': continue
                n_tr += 1
                what = 'std::thread handle' if n.name in thr_fields else 'completion state'
                if not body_this:
                    rep.inconclusive('TH.2', f'{g.name.split("::")[-1][:40]}(): moves `{n.name}` between Thread objects', n.shortloc(), 'the thread body was not seen to capture `this`: whether the transfer separates a handle from its completion state is not followed'); continue
                rep.violation('TH.2', f'{g.name.split("::")[-1][:40]}(): the {what} stays with the Thread object whose body reports to it', n.shortloc(),
                              f'{g.name.split("::")[-1][:40]}() moves / exchanges `{n.name}` between two Thread objects (`{n.text()[:40]}`): the body of a running thread holds the `this` it was started on and writes the completion '
                              f'state there — after the transfer a Thread object\'s isFinished() reports another task\'s completion, and join() waits for a thread other than the one whose completion it reports',
                              key=f'TH.2|transfer|{g.gname}|{n.name}', fn=g.name)
    if not n_tr: rep.ok('TH.2', 'no member function moves the std::thread handle or the completion state between Thread objects', cls.get('loc', ''))
    for g in facts.fns:
        if g.d.get('lambda'): continue
        for n in g.nodes():
            if n.k != 'call' or not n.callee_in_root or strip_targs(n.calleeq or '') != f'{TH}::start': continue
            for a in n.ns('args'):
                x = a
                while x is not None and x.k in ('cast', 'paren', 'materialize', 'bindtemp') and x.n('sub') is not None: x = x.n('sub')
                if x is None or not ((x.k == 'call' and strip_targs(x.calleeq or '') in ('std::ref', 'std::cref')) or (x.k == 'construct' and (x.d.get('class') or '').startswith('std::reference_wrapper'))): continue
                inner = [y for y in x.ns('args') if y is not None]
                t0 = inner[0] if inner else None
                while t0 is not None and t0.k in ('cast', 'paren') and t0.n('sub') is not None: t0 = t0.n('sub')
                inst_ = f'{g.name[:90]}: what is handed to start() owns the callable'
                if t0 is not None and t0.k == 'ref' and t0.dk in ('param', 'local') and not (t0.d.get('decltype') or t0.type or '').rstrip().endswith('&'):
                    rep.violation('TH.1', inst_, x.shortloc(), f'start() is given std::ref({t0.name}): the closure copies only the reference_wrapper, which refers to `{t0.name}`, a {"by-value parameter" if t0.dk == "param" else "local"} of {g.name.split("::")[-1][:40]} '
                                  'that is destroyed when that function returns — the new thread, however late it runs, calls through a dangling reference', key='TH.1|ref-wrapper', fn=g.name)
                else:
                    rep.inconclusive('TH.1', inst_, x.shortloc(), f'start() is given a std::reference_wrapper to `{t0.text()[:40] if t0 is not None else "?"}`: whether its referent outlives the thread is not followed')
    rep.count('start_instantiations', len(inst)); rep.count('thread_bodies', bodies)
