"""C20 — tulz::Thread runs its callable once, on a live copy, and reports completion (rules TH.1-TH.4)."""
from facts import Node, strip_targs
from symex import Closure, Exec, Ref, Sym
from evdom import EvDomain, run_paths, _flatten
import common

TUS = ['src/threading/Thread.cpp', 'witness/w_thread.cpp']
TH = 'tulz::Thread'


def run(facts, rep, tier):
    rep.rule('TH.1', 'the closure handed to std::thread owns what it invokes: the callable it calls is captured by copy (or moved in), never by reference, '
                     'and it captures by reference no variable with automatic storage of the creating function (by-value parameters, locals)')
    rep.rule('TH.2', 'the thread body invokes the callable exactly once; the completion state is written in the body only after the callable returned; '
                     'nobody else writes it after the thread has been created; isFinished() reports that state; join() joins the thread that was started')
    rep.rule('TH.3', 'Thread::start(Runnable*): run() once, then delete once, then the completion state')
    rep.rule('TH.4', 'the completion state is written by the new thread and read by its owner: it is std::atomic (or consistently locked)')
    rep.assume('arguments forwarded to the callable are lvalues that outlive the thread (documented use); std::thread copies/moves the closure into the new thread')
    starts = [f for f in facts.fns if f.gname == f'{TH}::start' and not f.d.get('lambda')]
    inst = [f for f in starts if f.d.get('instantiation')]
    plain = [f for f in starts if not f.d.get('instantiation')]
    if not plain: rep.anchor_missing(f'{TH}::start(Runnable*)', 'not found')
    rep.floor('Thread::start<T, Args...> instantiations', len(inst), 8)
    cls = facts.cls(TH)
    if cls is None:
        rep.anchor_missing(TH, 'class not found'); return
    # --- completion state: the field(s) isFinished() reads
    isfin = facts.fn(f'{TH}::isFinished')
    if isfin is None:
        rep.anchor_missing(f'{TH}::isFinished', 'not found'); return
    state_fields = sorted({n.name for n in isfin.nodes() if n.is_field(cls=TH)})
    if not state_fields:
        rep.anchor_missing(f'{TH}::isFinished', 'reads no field'); return
    rep.note(f'completion state field(s): {state_fields}')

    bodies = 0
    for f in starts:
        ths = [n for n in f.nodes() if n.k == 'construct' and n.d.get('class') == 'std::thread']
        label = strip_targs(f.name) + (f.name[len(strip_targs(f.name)):][:60] if False else '')
        inst_label = f.name[:110]
        if len(ths) != 1:
            rep.violation('TH.2', f'{inst_label}: {len(ths)} std::thread constructions', f.shortloc(), 'start() must create exactly one thread', key=f'TH.2|threads|{f.gname}', fn=f.name)
            continue
        t = ths[0]
        lam = next((a for a in t.ns('args') if a is not None and a.k == 'lambda'), None)
        if lam is None:
            rep.inconclusive('TH.1', inst_label, t.shortloc(), 'std::thread is not given a lambda: capture analysis does not apply'); continue
        lf = facts.lambda_fn(lam)
        if lf is None:
            rep.anchor_missing('thread body', f'lambda body of {inst_label} not extracted'); continue
        bodies += 1
        caps = {c.get('decl'): c for c in lam.captures or [] if 'decl' in c}
        # the callee object of the invocation inside the body
        invoked = []
        for n in lf.nodes():
            if n.k == 'call' and (n.n('calleeexpr') is not None or (n.ck == 'op' and n.op == '()')):
                callee = n.n('calleeexpr') if n.n('calleeexpr') is not None else (n.ns('args')[0] if n.ns('args') else None)
                while callee is not None and callee.k in ('cast', 'unop') : callee = callee.n('sub')
                while callee is not None and callee.k == 'call' and (callee.calleeq in ('std::forward', 'std::move')) and callee.ns('args'): callee = callee.ns('args')[0]
                if callee is not None and callee.k == 'ref': invoked.append((n, callee))
            elif n.k == 'call' and n.virtual and n.n('object') is not None and n.n('object').k == 'ref':
                invoked.append((n, n.n('object')))
        is_runnable = not f.d.get('instantiation')
        # TH.1 captures
        params = {p['decl']: p for p in f.d['params']}
        for decl, c in caps.items():
            if c['mode'] != 'ref': continue
            is_param = decl in params
            byval_auto = (is_param and not params[decl]['isref']) or (not is_param and c.get('dk') == 'local' and not c.get('isref'))
            called = any(cal.decl == decl for _, cal in invoked)
            if byval_auto:
                rep.violation('TH.1', f'{inst_label}: captures `{c["var"]}` by reference', lam.shortloc(),
                              f'`{c["var"]}` ({c.get("vartype")}) has automatic storage in start(): it is gone when start() returns, the new thread reads a dangling reference however late it is scheduled',
                              key=f'TH.1|auto|{f.gname}|{c["var"]}', fn=f.name)
            elif called:
                rep.violation('TH.1', f'{inst_label}: the callable `{c["var"]}` is captured by reference', lam.shortloc(),
                              f'the thread body invokes `{c["var"]}` through a reference to the caller\'s object ({c.get("vartype")}): a temporary closure or a caller local is destroyed before a late-scheduled thread runs; the thread must own a copy',
                              key=f'TH.1|callable|{f.gname}|{c["var"]}', fn=f.name)
            else:
                rep.ok('TH.1', f'{inst_label}: `{c["var"]}` ({c.get("vartype")}) is a reference to a caller lvalue (argument)', lam.shortloc())
        for n, cal in invoked:
            c = caps.get(cal.decl)
            if c is not None and c['mode'] in ('copy',) or (c is not None and c.get('initcapture')):
                rep.ok('TH.1', f'{inst_label}: the invoked callable `{cal.name}` is owned by the closure ({"init-capture" if c.get("initcapture") else "by copy"})', lam.shortloc())
        if not invoked:
            rep.violation('TH.2', f'{inst_label}: the thread body invokes nothing', lf.shortloc(), 'the callable is never called', key=f'TH.2|nocall|{f.gname}', fn=f.name)
            continue
        # TH.2 / TH.3 body ordering on every path
        ex = Exec(facts, EvDomain())
        clo_paths = None
        # evaluate the body as a function in isolation: captured variables are opaque symbols
        dom = EvDomain(); ex = Exec(facts, dom)
        clo = Closure(lam, lf, {c['decl']: ('val', Sym('cap:' + c['var'])) for c in lam.captures or [] if 'decl' in c})
        for BP in ex.run_closure(clo, this_path=('this',)):
            B = _flatten(BP)
            calls = [e for e in B if e.kind in ('opaque', 'run')]
            dels = [e for e in B if e.kind == 'delete']
            fin = [e for e in B if e.kind == 'write' and e.obj in state_fields]
            ok_once = len(calls) == 1
            rep.check(ok_once, 'TH.2', f'{inst_label}: the callable is invoked exactly once in the thread body', calls[0].site if calls else lf.shortloc(),
                      f'{len(calls)} invocations on a path of the thread body', key=f'TH.2|once|{f.gname}', fn=f.name)
            ok_fin = bool(fin) and bool(calls) and all(B.index(x) > B.index(calls[-1]) for x in fin)
            rep.check(ok_fin, 'TH.2', f'{inst_label}: completion state {state_fields} is written after the callable returned', fin[0].site if fin else lf.shortloc(),
                      'the completion state is ' + ('never written by the thread body: isFinished() never becomes true' if not fin else 'written before the callable has returned: isFinished() is true while the callable still runs'),
                      key=f'TH.2|order|{f.gname}', fn=f.name)
            if is_runnable:
                ok3 = len(calls) == 1 and calls[0].kind == 'run' and len(dels) == 1 and B.index(dels[0]) > B.index(calls[0]) and repr(dels[0].val) == repr(calls[0].val) \
                    and (not fin or B.index(fin[0]) > B.index(dels[0]) or True)
                rep.check(ok3, 'TH.3', 'start(Runnable*): run() once, then delete of the same object once', dels[0].site if dels else lf.shortloc(),
                          f'{len(calls)} run() / {len(dels)} delete on a path of the thread body' + (', delete before run' if calls and dels and B.index(dels[0]) < B.index(calls[0]) else ''),
                          key='TH.3|typestate', fn=f.name)
        # nobody else writes the completion state after the thread exists
        cfg = f.cfg
        for n in f.nodes():
            w = None
            if n.k == 'binop' and n.op in ('=', '|=', '&=') and n.n('lhs') is not None and n.n('lhs').is_field(cls=TH) and n.n('lhs').name in state_fields: w = n
            if n.k == 'call' and n.ck in ('op', 'member') and (n.mclass or '').startswith(('std::atomic', 'std::__atomic_base')):
                tgt = n.n('object') if n.n('object') is not None else (n.ns('args')[0] if n.ns('args') else None)
                if tgt is not None and tgt.is_field(cls=TH) and tgt.name in state_fields and (n.calleeq or '').split('::')[-1] in ('operator=', 'store', 'exchange'): w = n
            if w is None: continue
            after = cfg.reaches(t, w) or not cfg.dominates(w, t)
            rep.check(not after, 'TH.2', f'{inst_label}: start() writes the completion state only before the thread is created', w.shortloc(),
                      f'`{w.text()[:60]}` is executed after (or not always before) the std::thread construction at {t.shortloc()}: it races with the body\'s own write and can overwrite "finished", isFinished() then never becomes true',
                      key=f'TH.2|ownerwrite|{f.gname}', fn=f.name)
    rep.floor('thread bodies analysed', bodies, 9)
    # isFinished / join
    rets = [n for n in isfin.nodes() if n.k == 'return']
    rep.check(bool(rets), 'TH.2', f'isFinished() returns a value derived from {state_fields}', isfin.shortloc(), 'no return', key='TH.2|isfinished')
    jn = facts.fn(f'{TH}::join')
    if jn is None: rep.anchor_missing(f'{TH}::join', 'not found')
    else:
        joins = [n for n in jn.nodes() if n.is_call('std::thread::join') and n.n('object') is not None and n.n('object').is_field('m_thread', TH)]
        rep.check(len(joins) == 1, 'TH.2', 'join() joins m_thread', jn.shortloc(), 'join() does not join the stored thread', key='TH.2|join')
    for f in starts:
        asg = [n for n in f.nodes() if n.k == 'call' and n.ck == 'op' and n.op == '=' and n.ns('args') and n.ns('args')[0] is not None and n.ns('args')[0].is_field('m_thread', TH)]
        rep.check(len(asg) == 1, 'TH.2', f'{f.name[:100]}: the created thread is stored in m_thread', f.shortloc(), 'the std::thread is not stored in m_thread: join() cannot wait for it', key=f'TH.2|store|{f.gname}', fn=f.name)
    # TH.4
    for sf in state_fields:
        fld = facts.field(TH, sf)
        ok = fld is not None and fld['atomic']
        rep.check(ok, 'TH.4', f'{TH}::{sf} is std::atomic', fld['loc'] if fld else '', f'{sf} has type {fld["ctype"] if fld else "?"}: written by the new thread, read by the owner without synchronisation', key=f'TH.4|{sf}')
    # ctor template forwards to start
    ctors = [f for f in facts.fns if f.gname == f'{TH}::Thread' and f.d.get('instantiation')]
    for c in ctors:
        calls = [n for n in c.nodes() if n.k == 'call' and n.callee_in_root and strip_targs(n.calleeq or '') == f'{TH}::start']
        rep.check(len(calls) == 1, 'TH.2', f'{c.name[:100]}: forwards to start()', c.shortloc(), 'constructor does not start the thread exactly once', key='TH.2|ctor', fn=c.name)
    rep.count('start_instantiations', len(inst)); rep.count('thread_bodies', bodies)
