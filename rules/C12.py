"""C12 — rwp::Resource lets readers share: no reader waits without a writer; consecutive readers are granted together."""
import resource
TUS = resource.TUS
def run(facts, rep, tier):
    resource.emit(facts, rep, 'C12', ['RES.2c', 'RES.3', 'RES.5', 'RES.7', 'RES.10', 'RES.11', 'RES.13', 'RES.15b', 'RES.16'],
                  {'RES.2c': 2, 'RES.3': 8, 'RES.5': 6, 'RES.7': 1, 'RES.10': 2, 'RES.11': 8, 'RES.13': 8, 'RES.15b': 2})
