"""C14 — Array has value semantics: contents, copies and element lifetimes are exact."""
import containers
TUS = containers.TUS
def run(facts, rep, tier):
    containers.array_rules(facts, rep)
