"""C14 — Array has value semantics: contents, copies and element lifetimes are exact."""
import containers
TUS = containers.TUS
def run(facts, rep, tier):
    if tier == 'thorough':
        containers.MODEL_BOUND.update(ring=8, sizes=5)          # deeper bounded decisions: every buffer state with capacity <= 8, sizes <= 5
        rep.note('small-model bounds raised for the thorough tier: ring capacity <= 8, sizes <= 5')
    containers.array_rules(facts, rep)
