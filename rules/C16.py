"""C16 — Observable notifies exactly on change, with the new value (rules OB.1-OB.5)."""
from facts import Node, strip_targs
from symex import Lin, Unknown, Ref, Closure, Sym, Exec, as_lin
from evdom import EvDomain, Ev, run_paths
import common

TUS = ['witness/w_observer.cpp']
OB = 'tulz::Observable'
COMPOUND = {'operator+=': '+=', 'operator-=': '-=', 'operator*=': '*=', 'operator/=': '/='}


class ObDomain(EvDomain):
    loop_unroll = 1
    max_depth = 5

    def opaque(self, n):
        q = strip_targs(n.d.get('calleeq') or '')
        if q == 'tulz::Subject::notify': return True
        return super().opaque(n)

    def opaque_result(self, ex, n, on, vals, st, fr):
        if on == 'm_eq':
            return self.atom('eq')
        return None


def m_val_writes(E):
    out = []
    for i, e in enumerate(E):
        if e.kind == 'write' and e.obj == 'm_val': out.append(i)
        elif e.kind == 'call' and e.obj == 'm_val' and e.name.split('::')[-1] in ('operator=', 'operator+=', 'operator-=', 'operator*=', 'operator/=', 'operator++', 'operator--', 'assign', 'append', 'clear', 'swap'): out.append(i)
    return out


def notifies(E):
    return [i for i, e in enumerate(E) if e.kind == 'call' and strip_targs(e.name) == 'tulz::Subject::notify']


def held_values(f, E, upto):
    """(value of m_val on entry, value of m_val just before event index `upto`) as abstract values"""
    node = next((n for n in f.nodes() if n.is_field('m_val')), None)
    init = ObDomain().init_field(('this', 'm_val'), node)
    cur = init
    for e in E[:upto]:
        if e.kind == 'write' and e.obj == 'm_val' and e.name == 'field': cur = e.val
    return init, cur


def late_mutators(E, idx):
    """opaque callables (user code held in a member) that are handed the held value as a non-const lvalue after event `idx`"""
    out = []
    for e in E[idx + 1:]:
        if e.kind != 'opaque' or e.obj in ('m_eq',) or e.node is None: continue
        if not any(a is not None and a.is_field('m_val') and a.cat == 'l' for a in e.node.ns('args')): continue
        q = e.node.d.get('calleeq') or ''
        sig = q[q.find('(') + 1:q.rfind(')')] if '(' in q else ''
        if sig and ('const' in sig or '&' not in sig): continue          # by value or by const reference: cannot change it
        out.append(e)
    return out


def is_m_val(v):
    return isinstance(v, Ref) and v.loc[0] == 'f' and v.loc[1][-1] == 'm_val'


def run(facts, rep, tier):
    rep.rule('OB.1', 'apply(): the old value is copied before the callable runs; after it, subscribers are notified exactly once iff !eq(old, current); nobody is notified when eq holds')
    rep.rule('OB.2', 'operator=: store and notify are both control-dependent on !eq(current, new); the store precedes the notify; the new value is compared before it can be moved from')
    rep.rule('OB.3', 'every notify argument is the lvalue m_val (the post-operation value), never a saved copy or the parameter')
    rep.rule('OB.4', '++/--: write, then notify unconditionally exactly once on every path; prefix returns m_val, postfix the copy taken before')
    rep.rule('OB.5', 'sibling table: operator⊕= applies exactly ⊕= to the held value inside its closure, with the operand owned by the closure, and delegates to apply()')
    rep.assume('arithmetic of T and the comparator are trusted; an opaque callable handed T& may change the value')
    # "each subscriber exactly once" is Subject's part of the property (its anchors include Subject.h): one invocation per live id, ids
    # never reused, list and id set change together
    import observer
    observer.emit(facts, rep, ['SUB.1', 'SUB.2', 'SUB.5', 'SUB.6'], {'SUB.1': 7, 'SUB.2': 14, 'SUB.5': 14, 'SUB.6': 14})
    classes = sorted(c for c in facts.classes if strip_targs(c) == OB)
    rep.floor('Observable instantiations', len(classes), 3)
    n_fn = 0
    for C in classes:
        short = C.replace('std::basic_string<char>', 'std::string')
        fns = [f for f in facts.fns if f.d.get('classfull') == C and not f.d.get('lambda') and not f.d.get('ctor') and not f.d.get('dtor')]
        for f in fns:
            base = strip_targs(f.qname.split('::')[-1]) if not f.qname.split('::')[-1].startswith('operator') else f.qname.split('::')[-1]
            base = strip_targs(base) if not base.startswith('operator<') else base
            label = f'{short}::{f.name.split("::")[-1][:60]}'
            if base == 'operator=' and not f.d.get('copyassign') and not f.d.get('moveassign'):
                n_fn += 1; assign_rules(facts, rep, f, label)
            elif base == 'apply':
                n_fn += 1; apply_rules(facts, rep, f, label)
            elif base in ('operator++', 'operator--'):
                n_fn += 1; incdec_rules(facts, rep, f, label, base)
            elif base in COMPOUND:
                n_fn += 1; compound_rules(facts, rep, f, label, base)
    rep.count('functions', n_fn)
    rep.floor('operator instances analysed', n_fn, 20)


def notify_args_ok(rep, E, label, f):
    for i in notifies(E):
        e = E[i]
        ok = len(e.args) == 1 and e.node.ns('args') and e.node.ns('args')[0] is not None and e.node.ns('args')[0].is_field('m_val') and e.node.ns('args')[0].cat == 'l'
        rep.check(ok, 'OB.3', f'{label}: notify(m_val)', e.site, f'notify is given `{e.node.ns("args")[0].text()[:40] if e.node.ns("args") and e.node.ns("args")[0] is not None else "?"}` instead of the held value: subscribers record something else than value()',
                  key=f'OB.3|{strip_targs(f.qname)}', fn=f.name)


def assign_rules(facts, rep, f, label):
    for eq in (True, False):
        res = run_paths(facts, f, ObDomain(dict(eq=eq)))
        for P, E in res:
            w = m_val_writes(E); n = notifies(E)
            cmp_ = [i for i, e in enumerate(E) if e.kind == 'opaque' and e.obj == 'm_eq']
            if len(cmp_) != 1:
                rep.inconclusive('OB.2', f'{label} row eq={eq}', f.shortloc(), f'{len(cmp_)} comparator calls on the path'); continue
            if eq:
                ok = not w and not n
                rep.check(ok, 'OB.2', f'{label} row eq=true: the value is left untouched and nobody is notified', E[(w or n or [0])[0]].site if (w or n) else f.shortloc(),
                          ('an Eq-equal assignment still overwrites the stored value' if w else 'an Eq-equal assignment notifies subscribers'), key=f'OB.2|eq|{strip_targs(f.qname)}', fn=f.name)
            else:
                ok = len(w) == 1 and len(n) == 1 and w[0] < n[0] and w[0] > cmp_[0]
                why = ''
                if not ok:
                    why = f'{len(w)} store(s) and {len(n)} notification(s) on the changing path' + (', notification before the store (subscribers see the old value)' if w and n and n[0] < w[0] else '')
                rep.check(ok, 'OB.2', f'{label} row eq=false: store once, then notify once', E[n[0]].site if n else f.shortloc(), why, key=f'OB.2|neq|{strip_targs(f.qname)}', fn=f.name)
            lm = late_mutators(E, cmp_[0])
            if lm:
                rep.violation('OB.2', f'{label}: what is stored and notified is what was compared', lm[0].site,
                              f'`{(lm[0].node.text() or "")[:40]}` (user code) is handed the held value after eq() has compared it: the value that ends up stored is not the one the comparison saw — an assignment that this step maps back '
                              f'onto the current value notifies although nothing changed, and one it maps elsewhere is judged by the raw argument', key=f'OB.2|late-mutator|{strip_targs(f.qname)}', fn=f.name)
            c = E[cmp_[0]]
            a0 = c.node.ns('args')[1] if c.node.ck == 'op' and len(c.node.ns('args')) >= 3 else None
            a1 = c.node.ns('args')[2] if c.node.ck == 'op' and len(c.node.ns('args')) >= 3 else None
            while a1 is not None and a1.k in ('construct', 'cast') and (a1.ns('args') if a1.k == 'construct' else [a1.n('sub')]):
                nxt = (a1.ns('args')[0] if a1.k == 'construct' else a1.n('sub'))
                if nxt is None: break
                a1 = nxt
            # by value: the comparator sees {the held value, the new value}
            init, cur = held_values(f, E, cmp_[0])
            newv = 'param:' + f.d['params'][0]['name'] if f.d.get('params') else None
            got = {repr(x) for x in c.args}
            inst = f'{label}: compares the held value with the new value'
            if len(c.args) == 2 and repr(cur) in got and any(newv in g for g in got): rep.ok('OB.2', inst, c.site)
            elif len(c.args) == 2 and (len(got) == 1 or not any(newv in g for g in got)) and all(('m_val' in g or 'param:' in g) for g in got):
                rep.violation('OB.2', inst, c.site, f'compares {sorted(got)}: not the held value against the new one', key=f'OB.2|cmpargs|{strip_targs(f.qname)}', fn=f.name)
            elif a0 is not None and a1 is not None and a0.is_field('m_val') and a1.k == 'ref' and a1.dk == 'param': rep.ok('OB.2', inst, c.site)      # a converted copy of the parameter
            else: rep.inconclusive('OB.2', inst, c.site, f'comparator operands {sorted(got)} not followed')
            if a0 is not None and a1 is not None:
                SCAL = {'int', 'unsigned int', 'long', 'unsigned long', 'short', 'unsigned short', 'char', 'unsigned char', 'bool', 'float', 'double', 'long double', 'long long', 'unsigned long long'}
                pty = (a1.d.get('decltype') or '').replace('&&', '').replace('&', '').replace('const ', '').strip()
                if a1.k == 'ref' and pty not in SCAL:
                    # the new value must not have been consumed (moved from) before the comparison
                    consumed = []
                    for x in f.nodes():
                        if x.k == 'call' and (x.calleeq or '') in ('std::forward', 'std::move') and x.cat == 'x' and x.ns('args') and x.ns('args')[0] is not None \
                                and x.ns('args')[0].k == 'ref' and x.ns('args')[0].decl == a1.decl and f.cfg.reaches(x, c.node):
                            consumed.append(x)
                    rep.check(not consumed, 'OB.2', f'{label}: the new value is compared before it can be moved from', consumed[0].shortloc() if consumed else c.site,
                              f'`{a1.name}` is forwarded as an rvalue at {consumed[0].shortloc() if consumed else ""} before eq(m_val, {a1.name}) runs: for an rvalue argument the comparison sees a moved-from object — a change to/from the empty value is lost or an equal value notifies',
                              key=f'OB.2|consumed|{strip_targs(f.qname)}', fn=f.name)
            notify_args_ok(rep, E, label, f)


def apply_rules(facts, rep, f, label):
    for eq in (True, False):
        res = run_paths(facts, f, ObDomain(dict(eq=eq)))
        for P, E in res:
            n = notifies(E)
            cmp_ = [i for i, e in enumerate(E) if e.kind == 'opaque' and e.obj == 'm_eq']
            calls = [i for i, e in enumerate(E) if (e.kind == 'opaque' and e.obj != 'm_eq') or e.kind == 'enter']
            if len(cmp_) != 1:
                rep.check(False, 'OB.1', f'{label} row eq={eq}', f.shortloc(), f'{len(cmp_)} comparisons of old and new value', key=f'OB.1|cmp|{strip_targs(f.qname)}', fn=f.name); continue
            c = E[cmp_[0]]
            ok_order = bool(calls) and calls[0] < cmp_[0]
            init, cur = held_values(f, E, cmp_[0])
            other_members = {}
            for fl in (facts.cls(f.d.get('classfull')) or {}).get('fields', []):
                if fl['name'] not in ('m_val', 'm_eq', 'm_subject'): other_members[fl['name']] = fl['name']; other_members['$field:this.' + fl['name']] = fl['name']
            got = [repr(x) for x in c.args]
            inst = f'{label}: eq(copy taken before the callable, current value)'
            changed = repr(init) != repr(cur)
            if len(got) == 2 and set(got) == {repr(init), repr(cur)} and changed and ok_order: rep.ok('OB.1', inst, c.site)
            elif len(got) == 2 and changed and len(set(got)) == 1 and got[0] in (repr(init), repr(cur)):
                rep.violation('OB.1', inst, c.site, 'the comparison does not use a copy of the value taken before the callable ran' + f' (both operands are {got[0]})', key=f'OB.1|old|{strip_targs(f.qname)}', fn=f.name)
            elif not ok_order and calls:
                rep.violation('OB.1', inst, c.site, 'the comparison runs before the callable: the change is never seen', key=f'OB.1|old|{strip_targs(f.qname)}', fn=f.name)
            elif len(got) == 2 and changed and repr(cur) in got and any(g in other_members for g in got):
                other = other_members[next(g for g in got if g in other_members)]
                rep.violation('OB.1', inst, c.site, f'the current value is compared with the member {other}, not with a copy of the value taken before the callable ran: a change made earlier through value() / operator* shifts the baseline (an unchanged value notifies, a changed one may not)', key=f'OB.1|old|{strip_targs(f.qname)}', fn=f.name)
            else:
                # class-type values: copies are not distinguishable by value; fall back to the shape `eq(local copy made before the callable, m_val)`
                a0 = c.node.ns('args')[1] if c.node.ck == 'op' and len(c.node.ns('args')) >= 3 else None
                a1 = c.node.ns('args')[2] if c.node.ck == 'op' and len(c.node.ns('args')) >= 3 else None
                good = a0 is not None and a1 is not None and a0.k == 'ref' and a0.dk == 'local' and a1.is_field('m_val')
                if good:
                    decl = None
                    for x in f.nodes():
                        if x.k == 'decl':
                            for v in x.vars:
                                if v['decl'] == a0.decl: decl = (x, v)
                    init_ok = decl is not None and decl[1].get('init') and any(y.is_field('m_val') for y in Node(f.tu, decl[1]['init']).walk()) and not decl[1].get('isref')
                    callable_nodes = [E[i].node for i in calls if E[i].node is not None]
                    before = decl is not None and callable_nodes and f.cfg.reaches(decl[0], callable_nodes[0]) if decl is not None else False
                    good = bool(init_ok) and (before or not callable_nodes)
                if good and ok_order: rep.ok('OB.1', inst, c.site)
                else: rep.inconclusive('OB.1', inst, c.site, f'comparator operands {got} not followed (held value before {init}, after {cur})')
            lm = late_mutators(E, cmp_[0])
            if lm:
                rep.violation('OB.1', f'{label}: the value that is notified is the value that was compared', lm[0].site,
                              f'`{(lm[0].node.text() or "")[:40]}` (user code) is handed the held value after it has been compared with the copy taken before: the decision to notify was made on another value', key=f'OB.1|late-mutator|{strip_targs(f.qname)}', fn=f.name)
            ok = (len(n) == 0) if eq else (len(n) == 1 and n[0] > cmp_[0])
            rep.check(ok, 'OB.1', f'{label} row eq={eq}: {"nobody is notified" if eq else "subscribers are notified exactly once, after the change"}', E[n[0]].site if n else f.shortloc(),
                      (f'{len(n)} notification(s) although the value did not change' if eq else f'{len(n)} notification(s) for a change'), key=f'OB.1|notify|{eq}|{strip_targs(f.qname)}', fn=f.name)
            notify_args_ok(rep, E, label, f)


def incdec_rules(facts, rep, f, label, base):
    postfix = len(f.d['params']) == 1
    for eq in (True, False):
        res = run_paths(facts, f, ObDomain(dict(eq=eq)))
        for P, E in res:
            w = m_val_writes(E); n = notifies(E)
            ok = len(n) == 1 and len(w) >= 1 and w[0] < n[0]
            why = ''
            if not ok:
                why = (f'{"increment" if base == "operator++" else "decrement"} does not always notify: on the path where the comparator calls old and new value equal (e.g. a tolerance above 1, or x+1 == x in floating point) nobody is notified'
                       if not n else f'{len(n)} notifications / {len(w)} writes')
            rep.check(ok, 'OB.4', f'{label} (comparator says equal={eq}): write, then exactly one notification', E[n[0]].site if n else f.shortloc(), why, key=f'OB.4|always|{strip_targs(f.qname)}|{postfix}', fn=f.name)
            r = P.ret
            if postfix:
                okr = not is_m_val(r) and r is not None
                rep.check(okr, 'OB.4', f'{label}: postfix returns the value before the change', f.shortloc(), 'postfix form returns the updated value', key=f'OB.4|ret|post|{strip_targs(f.qname)}', fn=f.name)
            else:
                okr = is_m_val(r)
                rep.check(okr, 'OB.4', f'{label}: prefix returns m_val', f.shortloc(), f'prefix form returns {r}', key=f'OB.4|ret|pre|{strip_targs(f.qname)}', fn=f.name)
            notify_args_ok(rep, E, label, f)


def compound_rules(facts, rep, f, label, base):
    """operator(+)=: on every path the held value is modified exactly once, by `(+)=` (wherever the operation is written: inline, in a
    closure handed to apply(), through a helper), subscribers are notified once afterwards iff the comparator says the value changed"""
    op = COMPOUND[base]
    key_ = strip_targs(f.qname)
    for eq in (True, False):
        res = run_paths(facts, f, ObDomain(dict(eq=eq)))
        for P, E in res:
            if P.end in ('throw', 'noreturn'): continue
            mods = []
            for i, e in enumerate(E):
                if e.kind == 'write' and e.obj == 'm_val' and e.name == 'field' and e.node is not None:
                    n = e.node
                    if n.k == 'binop' and n.op in COMPOUND.values(): mods.append((i, n.op))
                    elif n.k == 'binop' and n.op == '=':
                        r = n.n('rhs')
                        while r is not None and r.k == 'cast': r = r.n('sub')
                        if r is not None and r.k == 'binop' and r.op + '=' in COMPOUND.values() and r.n('lhs') is not None and (r.n('lhs').is_field('m_val') or r.n('lhs').k == 'ref'): mods.append((i, r.op + '='))
                        else: mods.append((i, '= ?'))
                    else: mods.append((i, '?'))
                elif e.kind == 'call' and e.obj == 'm_val' and e.name.split('::')[-1].startswith('operator') and e.name.split('::')[-1][8:] in COMPOUND.values():
                    mods.append((i, e.name.split('::')[-1][8:]))
                elif e.kind == 'call' and e.obj == 'm_val' and e.name.split('::')[-1] in ('operator=', 'assign', 'swap', 'clear', 'append'): mods.append((i, '?'))
            inst = f'{label} row eq={eq}: the held value is modified exactly once, by `{op}`'
            ops = [m[1] for m in mods]
            site = E[mods[0][0]].site if mods else f.shortloc()
            if ops == [op]: rep.ok('OB.5', inst, site)
            elif ops and all(o in COMPOUND.values() for o in ops):
                rep.violation('OB.5', inst, site, f'applies {ops} instead of `{op}`', key=f'OB.5|op|{base}', fn=f.name)
            elif not ops: rep.inconclusive('OB.5', inst, site, 'no modification of m_val was seen on this path (operation not followed)')
            else: rep.inconclusive('OB.5', inst, site, f'm_val is modified by {ops}: not recognised as `{op}`')
            n = notifies(E)
            if ops == [op]:
                want = 0 if eq else 1
                okn = len(n) == want and (not n or n[0] > mods[0][0])
                rep.check(okn, 'OB.5', f'{label} row eq={eq}: {"nobody is notified" if eq else "subscribers are notified exactly once, after the operation"}', E[n[0]].site if n else f.shortloc(),
                          f'{len(n)} notification(s)' + (' before the operation' if n and n[0] < mods[0][0] else ''), key=f'OB.5|notify|{base}|{eq}', fn=f.name)
            notify_args_ok(rep, E, label, f)
    # the operand must be owned by whatever closure carries it (no reference to a by-value parameter / local)
    for lam in [n for n in f.nodes() if n.k == 'lambda']:
        byref = [c for c in lam.captures or [] if c['mode'] == 'ref' and c.get('dk') in ('param', 'local') and not c.get('isref')]
        rep.check(not byref, 'OB.5', f'{label}: the operand is owned by the closure', lam.shortloc(), f'captures {byref[0]["var"] if byref else ""} by reference', key=f'OB.5|cap|{base}', fn=f.name)
