"""Role inference: recognise the parts of a component by type and use instead of by name, and present the facts to the
rules under canonical names.  A rename-only refactoring (members, private helpers) then leaves every verdict unchanged;
if the roles cannot be identified unambiguously the caller reports the anchors as missing (exit 2)."""
import json, re
from facts import Node, Facts, strip_targs

INTEGRAL = ('long', 'unsigned long', 'int', 'unsigned int', 'long long', 'unsigned long long', 'size_t')


def _is_int(t): return t.replace('const ', '').strip() in INTEGRAL


def infer_resource(facts, cls='tulz::rwp::Resource'):
    """returns (field_map, entry_map, fn_map, why) with actual -> canonical names, or (None, None, None, reason)"""
    c = facts.cls(cls)
    if c is None: return None, None, None, f'class {cls} not found'
    fields = c['fields']
    mut = [f for f in fields if f['ctype'] == 'std::mutex']
    cvs = [f for f in fields if f['ctype'] == 'std::condition_variable']
    qs = [f for f in fields if re.match(r'std::(deque|list|vector)<', f['ctype'])]
    if len(mut) != 1 or len(cvs) != 1 or len(qs) != 1:
        return None, None, None, f'{len(mut)} mutex / {len(cvs)} condition-variable / {len(qs)} queue fields (re-designed lock)'
    m = re.match(r'std::(?:deque|list|vector)<([^,>]+)', qs[0]['ctype'])
    entry_cls = m.group(1).strip() if m else None
    ec = facts.cls(entry_cls) if entry_cls else None
    if ec is None or len(ec['fields']) not in (2, 3): return None, None, None, 'queue entries are not a two- or three-member record'
    e_enum = [f for f in ec['fields'] if not _is_int(f['ctype'])]
    e_int = [f for f in ec['fields'] if _is_int(f['ctype'])]
    if len(e_enum) != 1 or len(e_int) != len(ec['fields']) - 1: return None, None, None, 'queue entry is not {operation type, integral bound [, request count]}'
    enum_t = e_enum[0]['ctype']
    ops = [f for f in fields if f['ctype'] == enum_t]
    ints = [f for f in fields if _is_int(f['ctype'])]
    if len(ops) != 1 or len(ints) != 3: return None, None, None, f'{len(ops)} operation-type fields and {len(ints)} integral fields (expected 1 and 3)'
    methods = [f for f in facts.fns if f.d.get('class') == cls and not f.d.get('lambda') and not f.d.get('ctor') and not f.d.get('dtor')]

    def calls(f, pred):
        out = []
        for n in f.nodes():
            if n.k == 'call' and pred(n): out.append(n)
        for l in [x for x in f.nodes() if x.k == 'lambda']:
            lf = facts.lambda_fn(l)
            if lf is not None:
                for n in lf.nodes():
                    if n.k == 'call' and pred(n): out.append(n)
        return out
    is_wait = lambda n: (n.calleeq or '').startswith('std::condition_variable::wait')
    is_notify = lambda n: (n.calleeq or '').startswith('std::condition_variable::notify')
    lock_fn = [f for f in methods if calls(f, is_wait)]
    unlock_fn = [f for f in methods if calls(f, is_notify)]
    if len(lock_fn) != 1 or len(unlock_fn) != 1: return None, None, None, f'{len(lock_fn)} waiting / {len(unlock_fn)} notifying member functions'
    lock_fn, unlock_fn = lock_fn[0], unlock_fn[0]
    # the operation is the outermost member function taking the operation type on the way to the wait / the notification: helpers that
    # do part of the work (a slow path, a hand-over) are evaluated inlined into it
    def climb(f):
        for _ in range(4):
            callers = [m for m in methods if m is not f and any(n.k == 'call' and (n.callee or '') == f.name for n in m.nodes())]
            cand = [m for m in callers if len(m.d['params']) == 1 and m.d['params'][0]['ctype'].endswith(enum_t.split('::')[-1])]
            if len(cand) != 1: break
            f = cand[0]
        return f
    lock_fn, unlock_fn = climb(lock_fn), climb(unlock_fn)
    if lock_fn is unlock_fn: return None, None, None, 'the waiting and the notifying member function are the same'
    qname = qs[0]['name']
    pops = [f for f in methods if any(n.k == 'call' and n.n('object') is not None and n.n('object').is_field(qname, cls) and n.callee_base() in ('pop_front', 'pop_back', 'erase') for n in f.nodes())]
    pushes = [f for f in methods if any(n.k == 'call' and n.n('object') is not None and n.n('object').is_field(qname, cls) and n.callee_base() in ('push_back', 'emplace_back', 'push_front', 'emplace_front', 'insert') for n in f.nodes())]
    fn_map = {lock_fn.qname.split('::')[-1]: 'lock', unlock_fn.qname.split('::')[-1]: 'unlock'}
    if len(pops) == 1 and pops[0] is not unlock_fn: fn_map[pops[0].qname.split('::')[-1]] = 'select'
    elif len(pops) != 1: return None, None, None, f'{len(pops)} member functions remove from the queue'
    if len(pushes) == 1 and pushes[0] is not lock_fn: fn_map[pushes[0].qname.split('::')[-1]] = 'enqueue'
    # integral fields by use: the bound is what a waiting request compares its ticket with; the ticket counter is incremented
    # by the function that enqueues; the holder count is decremented by the notifying function
    def fields_in(nodes): return {n.name for n in nodes if n.k == 'member' and n.field and n.d.get('class') == cls}
    wait_nodes = []
    for f in [lock_fn]:
        for n in f.nodes():
            if n.k in ('while', 'do') and any(x.k == 'call' and is_wait(x) for x in n.walk()) and n.n('c') is not None: wait_nodes += list(n.n('c').walk())
        for l in [x for x in f.nodes() if x.k == 'lambda']:
            lf = facts.lambda_fn(l)
            if lf is not None: wait_nodes += list(lf.nodes())
    int_names = {f['name'] for f in ints}
    bound = fields_in(wait_nodes) & int_names
    dec = set()
    for n in unlock_fn.nodes():
        if (n.k == 'unop' and n.op == '--') or (n.k == 'binop' and n.op == '-='):
            tgt = n.n('sub') if n.k == 'unop' else n.n('lhs')
            if tgt is not None and tgt.k == 'member' and tgt.field: dec.add(tgt.name)
        if n.k == 'call' and (n.mclass or '').startswith(('std::atomic', 'std::__atomic_base')) and n.callee_base() in ('operator--', 'fetch_sub'):
            tgt = n.n('object') if n.n('object') is not None else (n.ns('args')[0] if n.ns('args') else None)
            if tgt is not None and tgt.k == 'member' and tgt.field: dec.add(tgt.name)
    count = dec & int_names
    if len(bound) != 1 or len(count) != 1 or bound == count:
        return None, None, None, f'cannot tell the integral fields apart (bound candidates {sorted(bound)}, holder-count candidates {sorted(count)})'
    nxt = int_names - bound - count
    if len(nxt) != 1: return None, None, None, 'ticket counter not identified'
    field_map = {mut[0]['name']: 'm_mutex', cvs[0]['name']: 'm_cv', qs[0]['name']: 'm_queue', ops[0]['name']: 'm_activeOp',
                 list(count)[0]: 'm_activeCount', list(nxt)[0]: 'm_idCounter', list(bound)[0]: 'm_upperUnlockBound'}
    entry_map = {e_enum[0]['name']: 'type', e_int[0]['name']: 'upperBound'}
    # what the integral member of a queue entry holds, by what is stored into it: the ticket counter (an upper bound on the tickets
    # of the batch) or small constants / increments (the number of requests in the batch)
    nxt_name = list(nxt)[0]
    def mentions_counter(x): return x is not None and any(y.k == 'member' and y.field and y.name == nxt_name and y.d.get('class') == cls for y in x.walk())
    def is_small(x):
        while x is not None and x.k == 'cast': x = x.n('sub')
        return x is None or x.k in ('int', 'valueinit')          # a member left out of the initialiser is value-initialised (0)
    def votes_for(ename):
        votes = set()
        for f in methods:
            for n in f.nodes():
                if n.k == 'initlist' and n.d.get('fields') and ename in n.d['fields']:
                    a = n.ns('args'); i = n.d['fields'].index(ename)
                    v = a[i] if i < len(a) else None
                    votes.add('bound' if mentions_counter(v) else ('count' if is_small(v) else '?'))
                if n.k == 'binop' and n.op in ('=', '+=') and n.n('lhs') is not None and n.n('lhs').k == 'member' and n.n('lhs').field and n.n('lhs').name == ename and n.n('lhs').d.get('class') == entry_cls:
                    v = n.n('rhs')
                    votes.add('bound' if (mentions_counter(v) and n.op == '=') else ('count' if (is_small(v) and n.op == '+=') or (is_small(v) and n.op == '=') else '?'))
                if n.k == 'unop' and n.op == '++' and n.n('sub') is not None and n.n('sub').k == 'member' and n.n('sub').field and n.n('sub').name == ename and n.n('sub').d.get('class') == entry_cls:
                    votes.add('count')
        return votes
    if len(e_int) == 1:
        ename = e_int[0]['name']; votes = votes_for(ename)
        if votes == {'bound'}: rep_ = 'bound'
        elif votes == {'count'}: rep_ = 'count'
        else: return None, None, None, f'what the integral member {ename} of a queue entry holds is not recognised (stores: {sorted(votes)})'
    else:
        # both kept side by side: the ticket bound of the batch and the number of its requests
        kinds = {f_['name']: votes_for(f_['name']) for f_ in e_int}
        b_ = [k for k, v in kinds.items() if v == {'bound'}]; c_ = [k for k, v in kinds.items() if v == {'count'}]
        if len(b_) != 1 or len(c_) != 1: return None, None, None, f'what the integral members of a queue entry hold is not recognised ({ {k: sorted(v) for k, v in kinds.items()} })'
        entry_map = {e_enum[0]['name']: 'type', b_[0]: 'upperBound', c_[0]: 'count'}
        rep_ = 'dual'
    return field_map, (entry_cls, entry_map, rep_), fn_map, ''


def is_identity(*maps):
    return all(all(k == v for k, v in m.items()) for m in maps)


def renamed_facts(facts, facts_dir, cls, field_map, entry, fn_map):
    """a second Facts view in which the members of `cls` carry their canonical names"""
    entry_cls, entry_map = entry[:2]

    def tr(d):
        for nid, n in d['exprs'].items():
            if n.get('k') == 'member' and n.get('field'):
                if n.get('class') == cls and n['name'] in field_map: n['name'] = field_map[n['name']]
                elif n.get('class') == entry_cls and n['name'] in entry_map: n['name'] = entry_map[n['name']]
            if n.get('k') == 'initlist' and n.get('fields') and set(n['fields']) <= set(entry_map) and n['fields']: n['fields'] = [entry_map[x] for x in n['fields']]
            for key in ('callee', 'calleeq'):
                v = n.get(key)
                if isinstance(v, str) and v.startswith(cls + '::'):
                    b = v[len(cls) + 2:]
                    base = b.split('(')[0]
                    if base in fn_map: n[key] = cls + '::' + fn_map[base] + b[len(base):]
        for c in d['classes']:
            if c['fullname'] == cls:
                for f in c['fields']:
                    if f['name'] in field_map: f['name'] = field_map[f['name']]
                for m in c.get('methods', []):
                    b = m['name'].split('::')[-1]
                    if b in fn_map: m['name'] = cls + '::' + fn_map[b]
            if c['fullname'] == entry_cls:
                for f in c['fields']:
                    if f['name'] in entry_map: f['name'] = entry_map[f['name']]
        for f in d['functions']:
            if f.get('class') == cls:
                b = f['qname'].split('::')[-1]
                if b in fn_map:
                    f['qname'] = cls + '::' + fn_map[b]; f['name'] = cls + '::' + fn_map[b]
            for i in f.get('inits') or []:
                if i.get('class') == cls and i.get('field') in field_map: i['field'] = field_map[i['field']]
            for b in (f.get('cfg') or {}).get('blocks', []):
                for e in b['elems']:
                    if e.get('class') == cls and e.get('initfield') in field_map: e['initfield'] = field_map[e['initfield']]
        return d
    return Facts(facts_dir, [t.name for t in facts.tus], transform=tr)


# ---- containers ------------------------------------------------------------------------------------------------------------
def _returned_field(facts, cls_full, fname):
    """name of the field of cls_full that member function fname returns directly (`return m_x;`), else None"""
    for f in facts.fns:
        if f.d.get('classfull') == cls_full and f.qname.split('::')[-1] == fname and not f.d.get('params'):
            rets = [n for n in f.nodes() if n.k == 'return' and n.n('sub') is not None]
            if len(rets) == 1:
                r = rets[0].n('sub')
                while r is not None and r.k == 'cast': r = r.n('sub')
                if r is not None and r.k == 'member' and r.field: return r.name
    return None


def infer_containers(facts):
    """{generic class: {actual field: canonical field}} for RingBuffer (m_data, m_size, m_capacity, m_pos), Array (m_array, m_size)
    and RandomAccessIndexIterator (m_container, m_index); a class whose fields cannot be told apart is left out"""
    out = {}
    by_g = {}
    for cn, c in facts.classes.items(): by_g.setdefault(strip_targs(cn), []).append((cn, c))
    for g, want in (('tulz::RingBuffer', 4), ('tulz::Array', 2), ('tulz::RandomAccessIndexIterator', 2)):
        for cn, c in by_g.get(g, [])[:1]:
            fields = c['fields']
            if len(fields) != want: continue
            ptr = [f for f in fields if f['ctype'].rstrip().endswith('*')]
            ints = [f for f in fields if _is_int(f['ctype']) or f['ctype'] in ('ssize_t', 'size_t', 'std::size_t', 'std::ptrdiff_t', 'ptrdiff_t', '__ssize_t')]
            refs = [f for f in fields if f.get('isref')]
            m = {}
            if g == 'tulz::RingBuffer':
                sz = _returned_field(facts, cn, 'size'); cap = _returned_field(facts, cn, 'capacity')
                rest = [f['name'] for f in fields if f['name'] not in (sz, cap) and f not in ptr]
                if len(ptr) == 1 and sz and cap and sz != cap and len(rest) == 1:
                    m = {ptr[0]['name']: 'm_data', sz: 'm_size', cap: 'm_capacity', rest[0]: 'm_pos'}
            elif g == 'tulz::Array':
                sz = _returned_field(facts, cn, 'size')
                if len(ptr) == 1 and sz and sz != ptr[0]['name']: m = {ptr[0]['name']: 'm_array', sz: 'm_size'}
            else:
                other = [f for f in fields if f not in refs]
                if len(refs) == 1 and len(other) == 1: m = {refs[0]['name']: 'm_container', other[0]['name']: 'm_index'}
            if m: out[g] = m
    return out


def renamed_fields(facts, maps):
    """Facts view with the fields of the given (generic) classes renamed: maps = {generic class: {actual: canonical}}"""
    def tr(d):
        for nid, n in d['exprs'].items():
            if n.get('k') == 'member' and n.get('field'):
                m = maps.get(strip_targs(n.get('classfull') or n.get('class') or ''))
                if m and n['name'] in m: n['name'] = m[n['name']]
        for c in d['classes']:
            m = maps.get(strip_targs(c['fullname']))
            if m:
                for f in c['fields']:
                    if f['name'] in m: f['name'] = m[f['name']]
        for f in d['functions']:
            m = maps.get(strip_targs(f.get('classfull') or f.get('class') or ''))
            if not m: continue
            for i in f.get('inits') or []:
                if i.get('field') in m: i['field'] = m[i['field']]
            for b in (f.get('cfg') or {}).get('blocks', []):
                for e in b['elems']:
                    if e.get('initfield') in m: e['initfield'] = m[e['initfield']]
        return d
    return Facts(facts.dir, [t.name for t in facts.tus], transform=tr)


# ---- Subject -----------------------------------------------------------------------------------------------------------
SEQ = ('std::forward_list<', 'std::list<', 'std::vector<', 'std::deque<')
SETS = ('std::set<', 'std::unordered_set<', 'std::multiset<')
ID_TYPES = INTEGRAL + ('tulz::SubscriptionId', 'SubscriptionId', 'unsigned short', 'short', 'std::size_t', 'uint32_t', 'uint64_t', 'std::uint32_t', 'std::uint64_t')


def infer_subject(facts, cls_full):
    """({actual field: canonical}, (entry class, {actual: canonical}), reason): the observer table (sequence of records holding a
    shared_ptr to the observer and an id), the set of active ids, the id counter"""
    c = facts.cls(cls_full)
    if c is None: return None, None, 'class not found'
    fields = c['fields']
    seqs = [f for f in fields if f['ctype'].startswith(SEQ)]
    sets = [f for f in fields if f['ctype'].startswith(SETS)]
    ints = [f for f in fields if f['ctype'].replace('const ', '') in ID_TYPES]
    sub = [f for f in facts.fns if f.d.get('classfull') == cls_full and f.qname.split('::')[-1] == 'subscribe' and not f.d.get('lambda')]
    if sub and (len(seqs) > 1 or len(ints) > 1 or len(sets) > 1):
        # several candidates (e.g. an added buffer): the table is the sequence subscribe() inserts into, the counter the one it steps
        touched = set()
        for n in sub[0].nodes():
            if n.k == 'member' and n.field and n.n('base') is not None and n.n('base').k == 'this': touched.add(n.name)
        seqs = [f for f in seqs if f['name'] in touched] or seqs
        ints = [f for f in ints if f['name'] in touched] or ints
        sets = [f for f in sets if f['name'] in touched] or sets
    if len(ints) > 1:
        # an id counter only ever grows; a member that is also stepped down (or set from a size) counts something else (entries, removals)
        down = set()
        for g in [f for f in facts.fns if f.d.get('classfull') == cls_full]:
            for n in g.nodes():
                tgt = None
                if n.k == 'unop' and n.op == '--': tgt = n.n('sub')
                elif n.k == 'binop' and n.op in ('-=',): tgt = n.n('lhs')
                elif n.k == 'binop' and n.op == '=' and n.n('rhs') is not None and any(x.k == 'call' and x.callee_base() in ('size', 'distance', 'count_if') for x in n.n('rhs').walk()): tgt = n.n('lhs')
                while tgt is not None and tgt.k == 'cast': tgt = tgt.n('sub')
                if tgt is not None and tgt.k == 'member' and tgt.field: down.add(tgt.name)
        keep = [f for f in ints if f['name'] not in down]
        if len(keep) == 1: ints = keep
    if len(seqs) == 1 and len(sets) == 1 and len(ints) == 0:
        ints = [dict(name='m_subscriptionCounter')]          # no counter at all: the rules report what the id is derived from
    if len(seqs) != 1 or len(sets) != 1 or len(ints) != 1:
        return None, None, f'fields {[f["name"] + ": " + f["ctype"][:40] for f in fields]}: not (sequence of observer entries, set of active ids, id counter) — re-designed subject'
    m = re.match(r'std::\w+<(.*?)(?:, std::allocator<.*)?>$', seqs[0]['ctype'])
    entry = m.group(1).strip() if m else None
    ec = facts.cls(entry) if entry else None
    emap = {}
    if ec is not None:
        sp = [f for f in ec['fields'] if f['ctype'].startswith(('std::shared_ptr<', 'std::unique_ptr<'))]
        idf = [f for f in ec['fields'] if f['ctype'].replace('const ', '') in ID_TYPES]
        if len(sp) == 1 and len(idf) == 1 and len(ec['fields']) == 2: emap = {sp[0]['name']: 'observer', idf[0]['name']: 'subscriptionId'}
        else: return None, None, f'entries of {seqs[0]["name"]} are not (smart pointer to the observer, id)'
    elif entry and entry.startswith('std::pair<'): emap = {}
    else: return None, None, f'entry type of {seqs[0]["name"]} not found'
    return {seqs[0]['name']: 'm_observers', sets[0]['name']: 'm_activeSubscriptions', ints[0]['name']: 'm_subscriptionCounter'}, (entry, emap), ''


def _subject_tr(per_class):
    def tr(d):
        for nid, n in d['exprs'].items():
            if n.get('k') == 'member' and n.get('field'):
                cl = n.get('classfull') or n.get('class') or ''
                for S, (fm, (ecls, em)) in per_class.items():
                    if cl == S and n['name'] in fm: n['name'] = fm[n['name']]
                    elif cl == ecls and n['name'] in em: n['name'] = em[n['name']]
            if n.get('k') == 'initlist' and n.get('fields'):
                for S, (fm, (ecls, em)) in per_class.items():
                    if em and set(n['fields']) == set(em): n['fields'] = [em[x] for x in n['fields']]
        for c in d['classes']:
            for S, (fm, (ecls, em)) in per_class.items():
                if c['fullname'] == S:
                    for f in c['fields']:
                        if f['name'] in fm: f['name'] = fm[f['name']]
                if c['fullname'] == ecls:
                    for f in c['fields']:
                        if f['name'] in em: f['name'] = em[f['name']]
        for f in d['functions']:
            for S, (fm, (ecls, em)) in per_class.items():
                if (f.get('classfull') or f.get('class')) == S:
                    for i in f.get('inits') or []:
                        if i.get('field') in fm: i['field'] = fm[i['field']]
                    for b in (f.get('cfg') or {}).get('blocks', []):
                        for e in b['elems']:
                            if e.get('initfield') in fm: e['initfield'] = fm[e['initfield']]
        return d
    return tr


def renamed_subject_facts(facts, per_class):
    """per_class: {Subject class: (field map, (entry class, entry map))}"""
    return Facts(facts.dir, [t.name for t in facts.tus], transform=_subject_tr(per_class))


_subj_cache = {}


def subject_canonical(facts, rep=None):
    """facts in which every Subject<...> instantiation carries the canonical member names (observer table, active ids, counter) and
    the canonical names of its two private helpers (the one that removes an id from both containers, the one that tests the active
    set); identity if nothing differs / roles cannot be told"""
    key = id(facts)
    if key in _subj_cache: return _subj_cache[key]
    per = {}; fnmaps = {}
    for S in sorted(c for c in facts.classes if strip_targs(c) == 'tulz::Subject' and c != 'tulz::Subject'):
        fm, entry, why = infer_subject(facts, S)
        if fm is None: continue
        per[S] = (fm, entry)
        obs = next(k for k, v in fm.items() if v == 'm_observers'); act = next(k for k, v in fm.items() if v == 'm_activeSubscriptions')
        rem = []; tst = []
        for f in facts.fns:
            if f.d.get('classfull') != S or f.d.get('lambda') or f.d.get('access') == 'public': continue
            calls = [(n.n('object').name if n.n('object') is not None and n.n('object').k == 'member' else (n.ns('args')[0].name if n.ns('args') and n.ns('args')[0] is not None and n.ns('args')[0].k == 'member' else None), n.callee_base()) for n in f.nodes() if n.k == 'call']
            if any(o == act and b in ('erase',) for o, b in calls) and any(o == obs and b in ('remove_if', 'erase', 'erase_if', 'erase_after', 'remove') for o, b in calls): rem.append(f)
            elif any(o == act and b in ('contains', 'count', 'find') for o, b in calls) and not any(o == obs for o, b in calls): tst.append(f)
        fn = {}
        if len(rem) == 1: fn[rem[0].qname.split('::')[-1]] = 'unsubscribeById'
        if len(tst) == 1: fn[tst[0].qname.split('::')[-1]] = 'isSubscriptionIdValid'
        fnmaps[S] = fn
    changed = any(k != v for S, (fm, (e, em)) in per.items() for k, v in list(fm.items()) + list(em.items())) or any(k != v for fn in fnmaps.values() for k, v in fn.items())
    if not changed:
        _subj_cache.clear(); _subj_cache[key] = facts; return facts
    def tr(d):
        d = _subject_tr(per)(d)
        for S, fn in fnmaps.items():
            if not fn: continue
            for nid, n in d['exprs'].items():
                for k_ in ('callee', 'calleeq'):
                    v = n.get(k_)
                    if isinstance(v, str) and v.startswith(S + '::'):
                        b = v[len(S) + 2:]; b0 = b.split('(')[0]
                        if b0 in fn: n[k_] = S + '::' + fn[b0] + b[len(b0):]
                    elif isinstance(v, str) and k_ == 'calleeq' and v.startswith('tulz::Subject::') and v[len('tulz::Subject::'):] in fn and (n.get('mclassfull') == S or n.get('class') == S):
                        n[k_] = 'tulz::Subject::' + fn[v[len('tulz::Subject::'):]]
            for f in d['functions']:
                if (f.get('classfull') or f.get('class')) == S:
                    b = f['qname'].split('::')[-1]
                    if b in fn:
                        f['qname'] = f['qname'][:-len(b)] + fn[b]; f['name'] = f['name'].replace('::' + b, '::' + fn[b])
        return d
    f2 = Facts(facts.dir, [t.name for t in facts.tus], transform=tr)
    ren = sorted({f'{k} = {v}' for S, (fm, (e, em)) in per.items() for k, v in list(fm.items()) + list(em.items()) if k != v} | {f'{k}() = {v}()' for fn in fnmaps.values() for k, v in fn.items() if k != v})
    if rep is not None and ren: rep.assume('Subject members recognised by role, reported under their canonical names: ' + ', '.join(ren))
    _subj_cache.clear(); _subj_cache[key] = f2
    return f2


# ---- every other class: fields by type (and, where two fields share a type, by use) ---------------------------------------------
def _t(f): return (f['ctype'] or '').replace('const ', '').strip()
def _is_bool(f): return _t(f) in ('bool', '_Bool', 'std::atomic<bool>', 'std::atomic_bool', 'volatile bool')
def _is_num(f): return _is_int(_t(f)) or _t(f) in ('ssize_t', 'size_t', 'std::size_t', 'int64_t', 'std::int64_t', 'long long', 'std::atomic<long>', 'std::atomic<int>', 'unsigned int', 'tulz::SubscriptionId')
def _is_str(f): return _t(f).startswith(('std::basic_string<', 'std::string'))
def _ptr_to(name): return lambda f: _t(f).rstrip().endswith(('*', '&')) and name in _t(f) or (_t(f).startswith(('std::unique_ptr<', 'std::shared_ptr<')) and name in _t(f))


SIMPLE = {
    'tulz::ConcurrentSubjectRouter': [('m_router', lambda f: _t(f) == 'tulz::SubjectRouter'), ('m_resource', lambda f: _t(f) != 'tulz::SubjectRouter')],
    'tulz::ConcurrentSubjectRouter::Subscription::ConcurrentInvoker': [('m_resource', lambda f: f.get('isref') or f.get('isptr') or _t(f).rstrip().endswith(('*', '&')))],
    'tulz::File': [('m_file', lambda f: 'FILE' in _t(f)), ('m_mode', lambda f: _t(f).endswith('File::Mode'))],
    'tulz::Observer': [('m_func', lambda f: _t(f).startswith('std::function<')), ('m_params', lambda f: _t(f).endswith('::Params'))],
    'tulz::Observer::Params': [('mute', _is_bool)],
    'tulz::Path': [('m_path', _is_str)],
    'tulz::PooledRunnable': [('m_threadPool', _ptr_to('tulz::ThreadPool')), ('m_pooledThread', _ptr_to('tulz::PooledThread'))],
    'tulz::PooledThread': [('m_lastActiveTime', _is_num)],
    'tulz::RoutingLevelView': [('m_key', lambda f: 'RoutingKey' in _t(f)), ('m_level', _is_num)],
    'tulz::RoutingKey': [('m_levels', lambda f: _t(f).startswith(('std::vector<', 'std::deque<', 'std::list<')))],
    'tulz::RoutingKeyBuilder': [('m_key', lambda f: _t(f) == 'tulz::RoutingKey')],
    'tulz::SubjectRouter': [('m_rootNode', lambda f: _t(f).endswith('SubjectRouter::Node'))],
    'tulz::SubjectRouter::Node': [('m_name', _is_str), ('m_subject', lambda f: 'tulz::Subject<' in _t(f)), ('m_children', lambda f: _t(f).startswith(('std::map<', 'std::unordered_map<', 'std::multimap<')))],
    'tulz::Subscription': [('m_id', _is_num), ('m_subject', lambda f: 'tulz::Subject<' in _t(f)), ('m_observer', lambda f: 'tulz::Observer<' in _t(f))],
    'tulz::Thread': [('m_thread', lambda f: _t(f) in ('std::thread', 'std::jthread')), ('m_isFinished', _is_bool)],
    'tulz::rwp::ReadLock': [('m_resource', lambda f: 'rwp::Resource' in _t(f))],
    'tulz::rwp::WriteLock': [('m_resource', lambda f: 'rwp::Resource' in _t(f))],
    'tulz::USubscription': [('m_invoker', lambda f: 'Invoker' in _t(f))],
    'tulz::USubscription::DefaultInvoker': [('m_subscription', lambda f: 'tulz::Subscription<' in _t(f))],
    'tulz::EternalObserver': [('m_isValid', _is_bool)],
}


def _assign(fields, spec):
    """{actual: canonical} if every role is matched by exactly one field and every field by at most one role, else None"""
    m = {}
    for canon, pred in spec:
        hit = [f for f in fields if pred(f)]
        if len(hit) != 1 or hit[0]['name'] in m: return None
        m[hit[0]['name']] = canon
    return m


def infer_all(facts):
    """{generic class: {actual field: canonical field}} for the classes of SIMPLE plus ThreadPool, Observable, DirectoryVisitor;
    a class is only listed if all its instantiations agree"""
    out = {}
    by_g = {}
    for cn, c in facts.classes.items(): by_g.setdefault(strip_targs(cn), []).append((cn, c))
    for g, spec in SIMPLE.items():
        maps = [_assign(c['fields'], spec) for cn, c in by_g.get(g, []) if c['fields']]
        if maps and all(m is not None and m == maps[0] for m in maps): out[g] = maps[0]
    # Observable<T, Eq, SubjectType>: the held value has the first template argument's type
    maps = []
    for cn, c in by_g.get('tulz::Observable', []):
        if len(c['fields']) != 3: maps.append(None); continue
        subj = [f for f in c['fields'] if 'Subject<' in _t(f)]
        inner = cn[cn.index('<') + 1:]
        depth = 0; T = ''
        for ch in inner:
            if ch == '<': depth += 1
            if ch == '>': depth -= 1
            if (ch == ',' and depth == 0) or depth < 0: break
            T += ch
        val = [f for f in c['fields'] if f not in subj and _t(f) == T.strip().replace('const ', '')]
        rest = [f for f in c['fields'] if f not in subj and f not in val]
        maps.append({subj[0]['name']: 'm_subject', val[0]['name']: 'm_val', rest[0]['name']: 'm_eq'} if len(subj) == 1 and len(val) == 1 and len(rest) == 1 else None)
    if maps and all(m is not None and m == maps[0] for m in maps): out['tulz::Observable'] = maps[0]
    # DirectoryVisitor: the saved directory is the one that receives getWorkingDirectory()
    for cn, c in by_g.get('tulz::DirectoryVisitor', []):
        ps = [f for f in c['fields'] if _t(f) == 'tulz::Path']
        if len(ps) != 2 or len(c['fields']) != 2: continue
        saved = set()
        for f in facts.fns:
            if f.d.get('class') != cn: continue
            for n in f.nodes():
                if n.k == 'call' and n.ck == 'op' and n.op == '=' and n.ns('args') and n.ns('args')[0] is not None and n.ns('args')[0].k == 'member' and n.ns('args')[0].field \
                        and any(x.k == 'call' and (x.calleeq or '').endswith('getWorkingDirectory') for a in n.ns('args')[1:] if a is not None for x in a.walk()):
                    saved.add(n.ns('args')[0].name)
                if f.d.get('dtor') and n.k == 'call' and (n.calleeq or '').endswith('setWorkingDirectory'):
                    for x in n.walk():
                        if x.k == 'member' and x.field and x.name in [p['name'] for p in ps]: saved.add(x.name)
        if len(saved) == 1:
            old = next(iter(saved)); other = [p['name'] for p in ps if p['name'] != old][0]
            out['tulz::DirectoryVisitor'] = {old: 'm_oldDir', other: 'm_dir'}
    # ThreadPool
    for cn, c in by_g.get('tulz::ThreadPool', []):
        fs = c['fields']
        pool = [f for f in fs if _t(f).startswith(SEQ) and 'Thread' in _t(f) and 'Runnable' not in _t(f)]
        queue = [f for f in fs if _t(f).startswith(SEQ) and 'Runnable' in _t(f)]
        cv = [f for f in fs if _t(f) == 'std::condition_variable']
        run = [f for f in fs if _is_bool(f)]
        mx = [f for f in fs if _t(f) == 'std::mutex']
        ints = [f for f in fs if _is_num(f)]
        if not (len(pool) == len(queue) == len(cv) == len(run) == 1 and len(mx) == 2 and len(ints) == 2): continue
        mt = _returned_field(facts, cn, 'getMaxThreadCount'); et = _returned_field(facts, cn, 'getExpiryTimeout')
        if not mt or not et or mt == et or {mt, et} != {f['name'] for f in ints}: continue
        qm = set()
        for f in facts.fns:
            if f.d.get('class') != cn or f.d.get('lambda'): continue
            guards = [n for n in f.nodes() if n.k == 'construct' and (n.d.get('class') or '').startswith(('std::scoped_lock', 'std::lock_guard', 'std::unique_lock')) and n.ns('args') and n.ns('args')[0] is not None and n.ns('args')[0].k == 'member']
            touches_q = any(n.k == 'member' and n.field and n.name == queue[0]['name'] for n in f.nodes())
            touches_p = any(n.k == 'member' and n.field and n.name == pool[0]['name'] for n in f.nodes())
            if len(guards) == 1 and touches_q and not touches_p: qm.add(guards[0].ns('args')[0].name)
        if len(qm) != 1: continue
        q_m = next(iter(qm)); p_m = [f['name'] for f in mx if f['name'] != q_m]
        if len(p_m) != 1: continue
        out['tulz::ThreadPool'] = {pool[0]['name']: 'm_pool', queue[0]['name']: 'm_queue', cv[0]['name']: 'm_condition', run[0]['name']: 'm_isRunning',
                                  mt: 'm_maxThreadCount', et: 'm_expiryTimeout', q_m: 'm_queueMutex', p_m[0]: 'm_poolMutex'}
    return out


_all_cache = {}


def canonical_all(facts, rep=None):
    """the facts with every recognised member under its canonical name (containers and the classes above); identity if nothing differs"""
    key = id(facts)
    if key in _all_cache: return _all_cache[key]
    maps = dict(infer_all(facts)); maps.update(infer_containers(facts))
    ren = {g: {k: v for k, v in m.items() if k != v} for g, m in maps.items()}
    ren = {g: m for g, m in ren.items() if m}
    f2 = facts
    if ren:
        f2 = renamed_fields(facts, maps)
        if rep is not None:
            rep.assume('members recognised by role (type and use), reported under their canonical names: ' + '; '.join(f'{g.split("::")[-1]}: ' + ', '.join(f'{k} = {v}' for k, v in sorted(m.items())) for g, m in sorted(ren.items())))
    _all_cache.clear(); _all_cache[key] = f2
    return f2
