"""Role inference: recognise the parts of a component by type and use instead of by name, and present the facts to the
rules under canonical names.  A rename-only refactoring (members, private helpers) then leaves every verdict unchanged;
if the roles cannot be identified unambiguously the caller reports the anchors as missing (exit 2)."""
import json, re
from facts import Node, Facts, strip_targs

INTEGRAL = ('long', 'unsigned long', 'int', 'unsigned int', 'long long', 'unsigned long long', 'size_t')


def _is_int(t): return t.replace('const ', '').strip() in INTEGRAL


def infer_resource(facts, cls='tulz::rwp::Resource'):
    """returns (field_map, entry_map, fn_map, why) with actual -> canonical names, or (None, None, None, reason)"""
    c = facts.cls(cls)
    if c is None: return None, None, None, f'class {cls} not found'
    fields = c['fields']
    mut = [f for f in fields if f['ctype'] == 'std::mutex']
    cvs = [f for f in fields if f['ctype'] == 'std::condition_variable']
    qs = [f for f in fields if re.match(r'std::(deque|list|vector)<', f['ctype'])]
    if len(mut) != 1 or len(cvs) != 1 or len(qs) != 1:
        return None, None, None, f'{len(mut)} mutex / {len(cvs)} condition-variable / {len(qs)} queue fields (re-designed lock)'
    m = re.match(r'std::(?:deque|list|vector)<([^,>]+)', qs[0]['ctype'])
    entry_cls = m.group(1).strip() if m else None
    ec = facts.cls(entry_cls) if entry_cls else None
    if ec is None or len(ec['fields']) != 2: return None, None, None, 'queue entries are not a two-member record'
    e_enum = [f for f in ec['fields'] if not _is_int(f['ctype'])]
    e_int = [f for f in ec['fields'] if _is_int(f['ctype'])]
    if len(e_enum) != 1 or len(e_int) != 1: return None, None, None, 'queue entry is not {operation type, integral bound}'
    enum_t = e_enum[0]['ctype']
    ops = [f for f in fields if f['ctype'] == enum_t]
    ints = [f for f in fields if _is_int(f['ctype'])]
    if len(ops) != 1 or len(ints) != 3: return None, None, None, f'{len(ops)} operation-type fields and {len(ints)} integral fields (expected 1 and 3)'
    methods = [f for f in facts.fns if f.d.get('class') == cls and not f.d.get('lambda') and not f.d.get('ctor') and not f.d.get('dtor')]

    def calls(f, pred):
        out = []
        for n in f.nodes():
            if n.k == 'call' and pred(n): out.append(n)
        for l in [x for x in f.nodes() if x.k == 'lambda']:
            lf = facts.lambda_fn(l)
            if lf is not None:
                for n in lf.nodes():
                    if n.k == 'call' and pred(n): out.append(n)
        return out
    is_wait = lambda n: (n.calleeq or '').startswith('std::condition_variable::wait')
    is_notify = lambda n: (n.calleeq or '').startswith('std::condition_variable::notify')
    lock_fn = [f for f in methods if calls(f, is_wait)]
    unlock_fn = [f for f in methods if calls(f, is_notify)]
    if len(lock_fn) != 1 or len(unlock_fn) != 1: return None, None, None, f'{len(lock_fn)} waiting / {len(unlock_fn)} notifying member functions'
    lock_fn, unlock_fn = lock_fn[0], unlock_fn[0]
    qname = qs[0]['name']
    pops = [f for f in methods if any(n.k == 'call' and n.n('object') is not None and n.n('object').is_field(qname, cls) and n.callee_base() in ('pop_front', 'pop_back', 'erase') for n in f.nodes())]
    pushes = [f for f in methods if any(n.k == 'call' and n.n('object') is not None and n.n('object').is_field(qname, cls) and n.callee_base() in ('push_back', 'emplace_back', 'push_front', 'emplace_front', 'insert') for n in f.nodes())]
    fn_map = {lock_fn.qname.split('::')[-1]: 'lock', unlock_fn.qname.split('::')[-1]: 'unlock'}
    if len(pops) == 1 and pops[0] is not unlock_fn: fn_map[pops[0].qname.split('::')[-1]] = 'select'
    elif len(pops) != 1: return None, None, None, f'{len(pops)} member functions remove from the queue'
    if len(pushes) == 1 and pushes[0] is not lock_fn: fn_map[pushes[0].qname.split('::')[-1]] = 'enqueue'
    # integral fields by use: the bound is what a waiting request compares its ticket with; the ticket counter is incremented
    # by the function that enqueues; the holder count is decremented by the notifying function
    def fields_in(nodes): return {n.name for n in nodes if n.k == 'member' and n.field and n.d.get('class') == cls}
    wait_nodes = []
    for f in [lock_fn]:
        for n in f.nodes():
            if n.k in ('while', 'do') and any(x.k == 'call' and is_wait(x) for x in n.walk()) and n.n('c') is not None: wait_nodes += list(n.n('c').walk())
        for l in [x for x in f.nodes() if x.k == 'lambda']:
            lf = facts.lambda_fn(l)
            if lf is not None: wait_nodes += list(lf.nodes())
    int_names = {f['name'] for f in ints}
    bound = fields_in(wait_nodes) & int_names
    dec = set()
    for n in unlock_fn.nodes():
        if (n.k == 'unop' and n.op == '--') or (n.k == 'binop' and n.op == '-='):
            tgt = n.n('sub') if n.k == 'unop' else n.n('lhs')
            if tgt is not None and tgt.k == 'member' and tgt.field: dec.add(tgt.name)
        if n.k == 'call' and (n.mclass or '').startswith(('std::atomic', 'std::__atomic_base')) and n.callee_base() in ('operator--', 'fetch_sub'):
            tgt = n.n('object') if n.n('object') is not None else (n.ns('args')[0] if n.ns('args') else None)
            if tgt is not None and tgt.k == 'member' and tgt.field: dec.add(tgt.name)
    count = dec & int_names
    if len(bound) != 1 or len(count) != 1 or bound == count:
        return None, None, None, f'cannot tell the integral fields apart (bound candidates {sorted(bound)}, holder-count candidates {sorted(count)})'
    nxt = int_names - bound - count
    if len(nxt) != 1: return None, None, None, 'ticket counter not identified'
    field_map = {mut[0]['name']: 'm_mutex', cvs[0]['name']: 'm_cv', qs[0]['name']: 'm_queue', ops[0]['name']: 'm_activeOp',
                 list(count)[0]: 'm_activeCount', list(nxt)[0]: 'm_idCounter', list(bound)[0]: 'm_upperUnlockBound'}
    entry_map = {e_enum[0]['name']: 'type', e_int[0]['name']: 'upperBound'}
    return field_map, (entry_cls, entry_map), fn_map, ''


def is_identity(*maps):
    return all(all(k == v for k, v in m.items()) for m in maps)


def renamed_facts(facts, facts_dir, cls, field_map, entry, fn_map):
    """a second Facts view in which the members of `cls` carry their canonical names"""
    entry_cls, entry_map = entry

    def tr(d):
        for nid, n in d['exprs'].items():
            if n.get('k') == 'member' and n.get('field'):
                if n.get('class') == cls and n['name'] in field_map: n['name'] = field_map[n['name']]
                elif n.get('class') == entry_cls and n['name'] in entry_map: n['name'] = entry_map[n['name']]
            if n.get('k') == 'initlist' and n.get('fields') and set(n['fields']) == set(entry_map): n['fields'] = [entry_map[x] for x in n['fields']]
            for key in ('callee', 'calleeq'):
                v = n.get(key)
                if isinstance(v, str) and v.startswith(cls + '::'):
                    b = v[len(cls) + 2:]
                    base = b.split('(')[0]
                    if base in fn_map: n[key] = cls + '::' + fn_map[base] + b[len(base):]
        for c in d['classes']:
            if c['fullname'] == cls:
                for f in c['fields']:
                    if f['name'] in field_map: f['name'] = field_map[f['name']]
                for m in c.get('methods', []):
                    b = m['name'].split('::')[-1]
                    if b in fn_map: m['name'] = cls + '::' + fn_map[b]
            if c['fullname'] == entry_cls:
                for f in c['fields']:
                    if f['name'] in entry_map: f['name'] = entry_map[f['name']]
        for f in d['functions']:
            if f.get('class') == cls:
                b = f['qname'].split('::')[-1]
                if b in fn_map:
                    f['qname'] = cls + '::' + fn_map[b]; f['name'] = cls + '::' + fn_map[b]
            for i in f.get('inits') or []:
                if i.get('class') == cls and i.get('field') in field_map: i['field'] = field_map[i['field']]
            for b in (f.get('cfg') or {}).get('blocks', []):
                for e in b['elems']:
                    if e.get('class') == cls and e.get('initfield') in field_map: e['initfield'] = field_map[e['initfield']]
        return d
    return Facts(facts_dir, [t.name for t in facts.tus], transform=tr)


# ---- containers ------------------------------------------------------------------------------------------------------------
def _returned_field(facts, cls_full, fname):
    """name of the field of cls_full that member function fname returns directly (`return m_x;`), else None"""
    for f in facts.fns:
        if f.d.get('classfull') == cls_full and f.qname.split('::')[-1] == fname and not f.d.get('params'):
            rets = [n for n in f.nodes() if n.k == 'return' and n.n('sub') is not None]
            if len(rets) == 1:
                r = rets[0].n('sub')
                while r is not None and r.k == 'cast': r = r.n('sub')
                if r is not None and r.k == 'member' and r.field: return r.name
    return None


def infer_containers(facts):
    """{generic class: {actual field: canonical field}} for RingBuffer (m_data, m_size, m_capacity, m_pos), Array (m_array, m_size)
    and RandomAccessIndexIterator (m_container, m_index); a class whose fields cannot be told apart is left out"""
    out = {}
    by_g = {}
    for cn, c in facts.classes.items(): by_g.setdefault(strip_targs(cn), []).append((cn, c))
    for g, want in (('tulz::RingBuffer', 4), ('tulz::Array', 2), ('tulz::RandomAccessIndexIterator', 2)):
        for cn, c in by_g.get(g, [])[:1]:
            fields = c['fields']
            if len(fields) != want: continue
            ptr = [f for f in fields if f['ctype'].rstrip().endswith('*')]
            ints = [f for f in fields if _is_int(f['ctype']) or f['ctype'] in ('ssize_t', 'size_t', 'std::size_t', 'std::ptrdiff_t', 'ptrdiff_t', '__ssize_t')]
            refs = [f for f in fields if f.get('isref')]
            m = {}
            if g == 'tulz::RingBuffer':
                sz = _returned_field(facts, cn, 'size'); cap = _returned_field(facts, cn, 'capacity')
                rest = [f['name'] for f in fields if f['name'] not in (sz, cap) and f not in ptr]
                if len(ptr) == 1 and sz and cap and sz != cap and len(rest) == 1:
                    m = {ptr[0]['name']: 'm_data', sz: 'm_size', cap: 'm_capacity', rest[0]: 'm_pos'}
            elif g == 'tulz::Array':
                sz = _returned_field(facts, cn, 'size')
                if len(ptr) == 1 and sz and sz != ptr[0]['name']: m = {ptr[0]['name']: 'm_array', sz: 'm_size'}
            else:
                other = [f for f in fields if f not in refs]
                if len(refs) == 1 and len(other) == 1: m = {refs[0]['name']: 'm_container', other[0]['name']: 'm_index'}
            if m: out[g] = m
    return out


def renamed_fields(facts, maps):
    """Facts view with the fields of the given (generic) classes renamed: maps = {generic class: {actual: canonical}}"""
    def tr(d):
        for nid, n in d['exprs'].items():
            if n.get('k') == 'member' and n.get('field'):
                m = maps.get(strip_targs(n.get('classfull') or n.get('class') or ''))
                if m and n['name'] in m: n['name'] = m[n['name']]
        for c in d['classes']:
            m = maps.get(strip_targs(c['fullname']))
            if m:
                for f in c['fields']:
                    if f['name'] in m: f['name'] = m[f['name']]
        for f in d['functions']:
            m = maps.get(strip_targs(f.get('classfull') or f.get('class') or ''))
            if not m: continue
            for i in f.get('inits') or []:
                if i.get('field') in m: i['field'] = m[i['field']]
            for b in (f.get('cfg') or {}).get('blocks', []):
                for e in b['elems']:
                    if e.get('initfield') in m: e['initfield'] = m[e['initfield']]
        return d
    return Facts(facts.dir, [t.name for t in facts.tus], transform=tr)


# ---- Subject -----------------------------------------------------------------------------------------------------------
SEQ = ('std::forward_list<', 'std::list<', 'std::vector<', 'std::deque<')
SETS = ('std::set<', 'std::unordered_set<', 'std::multiset<')
ID_TYPES = INTEGRAL + ('tulz::SubscriptionId', 'SubscriptionId', 'unsigned short', 'short', 'std::size_t', 'uint32_t', 'uint64_t', 'std::uint32_t', 'std::uint64_t')


def infer_subject(facts, cls_full):
    """({actual field: canonical}, (entry class, {actual: canonical}), reason): the observer table (sequence of records holding a
    shared_ptr to the observer and an id), the set of active ids, the id counter"""
    c = facts.cls(cls_full)
    if c is None: return None, None, 'class not found'
    fields = c['fields']
    seqs = [f for f in fields if f['ctype'].startswith(SEQ)]
    sets = [f for f in fields if f['ctype'].startswith(SETS)]
    ints = [f for f in fields if f['ctype'].replace('const ', '') in ID_TYPES]
    sub = [f for f in facts.fns if f.d.get('classfull') == cls_full and f.qname.split('::')[-1] == 'subscribe' and not f.d.get('lambda')]
    if sub and (len(seqs) > 1 or len(ints) > 1 or len(sets) > 1):
        # several candidates (e.g. an added buffer): the table is the sequence subscribe() inserts into, the counter the one it steps
        touched = set()
        for n in sub[0].nodes():
            if n.k == 'member' and n.field and n.n('base') is not None and n.n('base').k == 'this': touched.add(n.name)
        seqs = [f for f in seqs if f['name'] in touched] or seqs
        ints = [f for f in ints if f['name'] in touched] or ints
        sets = [f for f in sets if f['name'] in touched] or sets
    if len(seqs) == 1 and len(sets) == 1 and len(ints) == 0:
        ints = [dict(name='m_subscriptionCounter')]          # no counter at all: the rules report what the id is derived from
    if len(seqs) != 1 or len(sets) != 1 or len(ints) != 1:
        return None, None, f'fields {[f["name"] + ": " + f["ctype"][:40] for f in fields]}: not (sequence of observer entries, set of active ids, id counter) — re-designed subject'
    m = re.match(r'std::\w+<(.*?)(?:, std::allocator<.*)?>$', seqs[0]['ctype'])
    entry = m.group(1).strip() if m else None
    ec = facts.cls(entry) if entry else None
    emap = {}
    if ec is not None:
        sp = [f for f in ec['fields'] if f['ctype'].startswith(('std::shared_ptr<', 'std::unique_ptr<'))]
        idf = [f for f in ec['fields'] if f['ctype'].replace('const ', '') in ID_TYPES]
        if len(sp) == 1 and len(idf) == 1 and len(ec['fields']) == 2: emap = {sp[0]['name']: 'observer', idf[0]['name']: 'subscriptionId'}
        else: return None, None, f'entries of {seqs[0]["name"]} are not (smart pointer to the observer, id)'
    elif entry and entry.startswith('std::pair<'): emap = {}
    else: return None, None, f'entry type of {seqs[0]["name"]} not found'
    return {seqs[0]['name']: 'm_observers', sets[0]['name']: 'm_activeSubscriptions', ints[0]['name']: 'm_subscriptionCounter'}, (entry, emap), ''


def _subject_tr(per_class):
    def tr(d):
        for nid, n in d['exprs'].items():
            if n.get('k') == 'member' and n.get('field'):
                cl = n.get('classfull') or n.get('class') or ''
                for S, (fm, (ecls, em)) in per_class.items():
                    if cl == S and n['name'] in fm: n['name'] = fm[n['name']]
                    elif cl == ecls and n['name'] in em: n['name'] = em[n['name']]
            if n.get('k') == 'initlist' and n.get('fields'):
                for S, (fm, (ecls, em)) in per_class.items():
                    if em and set(n['fields']) == set(em): n['fields'] = [em[x] for x in n['fields']]
        for c in d['classes']:
            for S, (fm, (ecls, em)) in per_class.items():
                if c['fullname'] == S:
                    for f in c['fields']:
                        if f['name'] in fm: f['name'] = fm[f['name']]
                if c['fullname'] == ecls:
                    for f in c['fields']:
                        if f['name'] in em: f['name'] = em[f['name']]
        for f in d['functions']:
            for S, (fm, (ecls, em)) in per_class.items():
                if (f.get('classfull') or f.get('class')) == S:
                    for i in f.get('inits') or []:
                        if i.get('field') in fm: i['field'] = fm[i['field']]
                    for b in (f.get('cfg') or {}).get('blocks', []):
                        for e in b['elems']:
                            if e.get('initfield') in fm: e['initfield'] = fm[e['initfield']]
        return d
    return tr


def renamed_subject_facts(facts, per_class):
    """per_class: {Subject class: (field map, (entry class, entry map))}"""
    return Facts(facts.dir, [t.name for t in facts.tus], transform=_subject_tr(per_class))


_subj_cache = {}


def subject_canonical(facts, rep=None):
    """facts in which every Subject<...> instantiation carries the canonical member names (observer table, active ids, counter) and
    the canonical names of its two private helpers (the one that removes an id from both containers, the one that tests the active
    set); identity if nothing differs / roles cannot be told"""
    key = id(facts)
    if key in _subj_cache: return _subj_cache[key]
    per = {}; fnmaps = {}
    for S in sorted(c for c in facts.classes if strip_targs(c) == 'tulz::Subject' and c != 'tulz::Subject'):
        fm, entry, why = infer_subject(facts, S)
        if fm is None: continue
        per[S] = (fm, entry)
        obs = next(k for k, v in fm.items() if v == 'm_observers'); act = next(k for k, v in fm.items() if v == 'm_activeSubscriptions')
        rem = []; tst = []
        for f in facts.fns:
            if f.d.get('classfull') != S or f.d.get('lambda') or f.d.get('access') == 'public': continue
            calls = [(n.n('object').name if n.n('object') is not None and n.n('object').k == 'member' else (n.ns('args')[0].name if n.ns('args') and n.ns('args')[0] is not None and n.ns('args')[0].k == 'member' else None), n.callee_base()) for n in f.nodes() if n.k == 'call']
            if any(o == act and b in ('erase',) for o, b in calls) and any(o == obs and b in ('remove_if', 'erase', 'erase_if', 'erase_after', 'remove') for o, b in calls): rem.append(f)
            elif any(o == act and b in ('contains', 'count', 'find') for o, b in calls) and not any(o == obs for o, b in calls): tst.append(f)
        fn = {}
        if len(rem) == 1: fn[rem[0].qname.split('::')[-1]] = 'unsubscribeById'
        if len(tst) == 1: fn[tst[0].qname.split('::')[-1]] = 'isSubscriptionIdValid'
        fnmaps[S] = fn
    changed = any(k != v for S, (fm, (e, em)) in per.items() for k, v in list(fm.items()) + list(em.items())) or any(k != v for fn in fnmaps.values() for k, v in fn.items())
    if not changed:
        _subj_cache.clear(); _subj_cache[key] = facts; return facts
    def tr(d):
        d = _subject_tr(per)(d)
        for S, fn in fnmaps.items():
            if not fn: continue
            for nid, n in d['exprs'].items():
                for k_ in ('callee', 'calleeq'):
                    v = n.get(k_)
                    if isinstance(v, str) and v.startswith(S + '::'):
                        b = v[len(S) + 2:]; b0 = b.split('(')[0]
                        if b0 in fn: n[k_] = S + '::' + fn[b0] + b[len(b0):]
                    elif isinstance(v, str) and k_ == 'calleeq' and v.startswith('tulz::Subject::') and v[len('tulz::Subject::'):] in fn and (n.get('mclassfull') == S or n.get('class') == S):
                        n[k_] = 'tulz::Subject::' + fn[v[len('tulz::Subject::'):]]
            for f in d['functions']:
                if (f.get('classfull') or f.get('class')) == S:
                    b = f['qname'].split('::')[-1]
                    if b in fn:
                        f['qname'] = f['qname'][:-len(b)] + fn[b]; f['name'] = f['name'].replace('::' + b, '::' + fn[b])
        return d
    f2 = Facts(facts.dir, [t.name for t in facts.tus], transform=tr)
    ren = sorted({f'{k} = {v}' for S, (fm, (e, em)) in per.items() for k, v in list(fm.items()) + list(em.items()) if k != v} | {f'{k}() = {v}()' for fn in fnmaps.values() for k, v in fn.items() if k != v})
    if rep is not None and ren: rep.assume('Subject members recognised by role, reported under their canonical names: ' + ', '.join(ren))
    _subj_cache.clear(); _subj_cache[key] = f2
    return f2
