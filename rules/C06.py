"""C06 — SubjectRouter reaches exactly the observers whose key matches the pattern."""
import router, observer
TUS = router.TUS + ['witness/w_observer.cpp']
def run(facts, rep, tier):
    a = router.analyse(facts, rep, 'C06+C13')
    observer.emit(facts, rep, ['RT.1', 'RT.2', 'RT.3', 'RT.4', 'RT.5'], {'RT.1': 40, 'RT.2': 2, 'RT.3': 40, 'RT.4': 6, 'RT.5': 5}, text=router.RULE_TEXT, res=a.res)
    # delivery also depends on shrink never dropping a key that still has a live subscription (the removal rules of C13)
    observer.emit(facts, rep, ['SH.1', 'SH.2', 'SH.3'], {'SH.1': 2, 'SH.2': 6, 'SH.3': 5}, text=router.RULE_TEXT, res=a.res)
    # arguments must also survive the fan-out inside one subject (SUB.4) and reach live observers once (SUB.2)
    observer.emit(facts, rep, ['SUB.4', 'SUB.2'], {'SUB.4': 5, 'SUB.2': 14})
    rep.count('Node::notify instantiations', getattr(a, 'n_notify', 0))
    rep.floor('Node::notify<A...> instantiations', getattr(a, 'n_notify', 0), 7)
    rep.assume('std::regex semantics; subscriber and notifier agree on the argument signature (documented precondition)')
