"""C18 — Path agrees with the filesystem (the statically visible part) and DirectoryVisitor restores the cwd (PA.1-PA.6)."""
import itertools, re
from facts import Node, strip_targs, Inconclusive
from symex import Lin, Unknown, Ref, Sym, Exec, as_lin
from evdom import EvDomain, Ev, run_paths
from strtab import StrEval, Unsupported, literals_in, table
import common

TUS = ['src/Path.cpp', 'src/DirectoryVisitor.cpp']
P = 'tulz::Path'
OPEN = {'fopen': 'fclose', 'opendir': 'closedir', 'fdopen': 'fclose', 'open': 'close'}


class PathDomain(EvDomain):
    loop_unroll = 1
    max_depth = 4

    def opaque(self, n):
        q = strip_targs(n.d.get('calleeq') or '')
        if q.startswith('tulz::Path::') and q.split('::')[-1] in ('exists', 'isFile', 'isDirectory', 'listChildren', 'size', 'join', 'toString', 'getWorkingDirectory', 'setWorkingDirectory') and not getattr(self, 'inline_all', False):
            return True
        if q.startswith('tulz::Exception'): return True
        if q.startswith('tulz::Path::operator=') or (n.k == 'construct' and (n.d.get('class') or '') == 'tulz::Path' and (n.copy or n.move)): return True      # user-written copy / move of a Path: the value travels
        return super().opaque(n)

    def call_result(self, ex, n, q, base, on, ov, vals, st, fr):
        if isinstance(ov, Ref):
            ov_ = st.store.get(ov.loc)
            if isinstance(ov_, Ref): ov_ = st.store.get(ov_.loc)
            if ov_ is not None: ov = ov_
        if q == 'tulz::Path::getWorkingDirectory': return Sym(f'cwd@{n.id}')
        if q in ('tulz::Path::exists',): return self._b('exists', n)
        if q in ('tulz::Path::isFile',): return self._b('is_file', n)
        if q in ('tulz::Path::isDirectory',): return self._b('is_dir', n)
        if q == 'tulz::Path::size': return Lin.sym(f'size@{n.id}')
        if base in OPEN: return Sym(f'handle:{base}@{n.id}')
        if base == 'readdir': return Sym(f'ent@{n.id}')
        if base == 'empty' and on in ('m_dir', 'm_oldDir', 'm_path'):
            v = self.atom(on + '.empty'); return v if v is not None else Unknown((on + '.empty', n.id))
        if q == 'tulz::Path::toString':
            if isinstance(ov, Sym) and ov.name.startswith('cwd@'): return Sym(ov.name + '.str')         # the text of the directory getWorkingDirectory() returned
            return Sym(f'str:{on}')
        if base == 'empty' and isinstance(ov, Sym) and ov.name.startswith('str:'):
            v = self.atom(ov.name[4:] + '.empty'); return v if v is not None else Unknown((ov.name, n.id))
        return super().call_result(ex, n, q, base, on, ov, vals, st, fr)

    def _b(self, key, n):
        v = self.atom(key); return v if v is not None else Unknown((key, n.id))

    def decide(self, ex, cond, value, st, fr):
        if isinstance(value, Sym) and value.name.startswith('handle:'): return self.atom('open_ok')
        return None

    def compare(self, ex, op, l, r, n, st, fr):
        for a, b in ((l, r), (r, l)):
            if isinstance(a, Sym) and a.name.startswith('handle:') and (isinstance(b, Lin) and b == Lin.const(0)):
                v = self.atom('open_ok')
                if v is None: return None
                return (not v) if op == '==' else v
        return None


def run(facts, rep, tier):
    rep.rule('PA.1', 'descriptor pairing: every successful fopen / opendir is closed exactly once on every path of the function that opened it; a failed open is never closed')
    rep.rule('PA.2', 'listChildren: exactly one entry is recorded per readdir result except exactly the names "." and ".." (filter evaluated on an exhaustive table of names); documented exceptions')
    rep.rule('PA.3', 'size: a file is measured by seek(END)+tell on a stream that is closed afterwards; a directory is the sum of join(*this, child).size() over every child; isFile <=> exists && !isDirectory')
    rep.rule('PA.4', 'join (evaluated on an exhaustive table of short strings over the separator alphabet): empty p1 -> p2; absolute p2 (leading separator on this platform) -> p2; otherwise p1, one separator iff p1 does not end with one, p2')
    rep.rule('PA.7', 'exists() / isFile() / isDirectory() answer for what the path *leads to*: every primitive they (and the helpers they call) use follows symbolic links, as the fopen / opendir of '
                     'File::open, size() and listChildren() do; lstat / readlink / AT_SYMLINK_NOFOLLOW describe the link itself')
    rep.rule('PA.6', 'getWorkingDirectory(): the buffer handed to getcwd is at least PATH_MAX bytes (every working directory the process can be in fits) and not smaller than the length passed')
    rep.rule('PA.5', 'DirectoryVisitor: visit() saves getWorkingDirectory() before setWorkingDirectory(m_dir); the destructor restores the saved directory whenever one was saved')
    rep.assume('the operating system and libc (fopen / opendir / readdir / chdir / getcwd) behave as documented; POSIX build')
    rep.note('not decided: agreement with the real filesystem (OS behaviour); name / parent are judged for join(d, n) only (PA.8), as the property states')
    fn = {}
    for name in ('exists', 'isFile', 'isDirectory', 'size', 'listChildren'):
        f = facts.fn(f'{P}::{name}')
        if f is None: rep.anchor_missing(f'{P}::{name}', 'not found')
        fn[name] = f
    if rep.broken: return
    # ---- PA.1 -----------------------------------------------------------------------------------------------------------
    nopen = 0
    for f in [g for g in facts.fns if g.file.endswith(('Path.cpp', 'DirectoryVisitor.cpp')) and not g.d.get('lambda')]:
        has_open = any(n.k == 'call' and n.callee_base() in OPEN and not n.callee_in_root for n in f.nodes())
        if not has_open: continue
        for open_ok in (True, False):
            rows = [dict(open_ok=open_ok, exists=True, is_file=v, is_dir=not v) for v in (True, False)]
            for row in rows:
                dom = PathDomain(row)
                try: res = run_paths(facts, f, dom)
                except Inconclusive as e:
                    rep.inconclusive('PA.1', f.name, f.shortloc(), str(e)); continue
                for Pth, E in res:
                    opens = [e for e in E if e.kind == 'call' and e.name.split('::')[-1] in OPEN]
                    for o in opens:
                        nopen += 1
                        want = OPEN[o.name.split('::')[-1]]
                        hname = f'handle:{o.name.split("::")[-1]}@{o.node.id}'
                        closes = [e for e in E[E.index(o):] if e.kind == 'call' and e.name.split('::')[-1] == want and e.args and isinstance(e.args[0], Sym) and e.args[0].name == hname]
                        ended = Pth.end
                        if open_ok and not closes:
                            # ownership handed on: returned inside a unique_ptr whose deleter calls the matching close (checked), or returned raw (caller's duty: not decided)
                            rv = Pth.ret
                            returned = isinstance(rv, Sym) and rv.name == hname and ((f.d.get('ret') or '').rstrip().endswith('*') or 'unique_ptr<' in (f.d.get('ret') or '') or 'shared_ptr<' in (f.d.get('ret') or ''))
                            m_ = None
                            if returned:
                                import re as _re
                                m_ = _re.match(r'std::unique_ptr<[^,]+,\s*([\w:]+)\s*>', f.d.get('ret') or '')
                            if returned and m_:
                                dels = [g for g in facts.fns if (g.d.get('classfull') or g.d.get('class')) == m_.group(1) and g.qname.endswith('::operator()')]
                                okd = bool(dels) and any(x.k == 'call' and x.callee_base() == want for x in dels[0].nodes())
                                rep.check(okd, 'PA.1', f'{f.name}: the result of {o.name}() is returned in a {m_.group(0)[:60]} whose deleter calls {want}()', o.site,
                                          f'the deleter {m_.group(1)} does not call {want}()', key=f'PA.1|deleter|{f.name}', fn=f.name)
                                continue
                            if returned:
                                rep.inconclusive('PA.1', f'{f.name}: {o.name}() at line {o.node.line}', o.site, 'the open handle is returned to the caller: who closes it is not followed'); continue
                        if open_ok and not closes:
                            # the handle goes straight into a local owning smart pointer: closed once, when that goes out of scope, if its deleter is the matching close
                            own = _owner_of(facts, f, o.node, want)
                            if own is not None:
                                okd, whyd, inst = own
                                if okd is True: rep.ok('PA.1', f'{f.name}: the result of {o.name}() at line {o.node.line} is owned by {inst}, whose deleter calls {want}() once at scope exit', o.site)
                                elif okd is False: rep.violation('PA.1', f'{f.name}: {o.name}() at line {o.node.line} is released by its owner with the matching close', o.site, whyd, key=f'PA.1|owner|{f.name}', fn=f.name)
                                else: rep.inconclusive('PA.1', f'{f.name}: {o.name}() at line {o.node.line}', o.site, whyd)
                                continue
                        if open_ok:
                            ok = len(closes) == 1
                            rep.check(ok, 'PA.1', f'{f.name}: {o.name}() at line {o.node.line} succeeded -> {want}() exactly once on this path (ends: {ended})', o.site,
                                      f'{len(closes)} {want}() call(s) on a path that {"throws" if ended == "throw" else "returns"}: ' + ('the descriptor leaks — a deep directory tree exhausts descriptors' if not closes else 'double close'),
                                      key=f'PA.1|{f.name}|{o.node.line - f.line}|{ended}', fn=f.name)
                        elif 'open_ok' in dom.consulted:
                            rep.check(not closes, 'PA.1', f'{f.name}: failed {o.name}() is not closed', o.site, f'{want}(NULL) on the failure path', key=f'PA.1|null|{f.name}', fn=f.name)
                        else:
                            rep.note(f'{f.name}: the result of {o.name}() at line {o.node.line} is used without a null test (the file was verified to exist just before); a failing open is outside what the property states and is not reported')
    rep.floor('open sites x paths', nopen, 8)
    # ---- PA.2 -----------------------------------------------------------------------------------------------------------------
    lc = fn['listChildren']
    loops = [n for n in lc.nodes() if n.k in ('while', 'for', 'do') and any(x.k == 'call' and x.callee_base() == 'readdir' for x in n.walk())]
    if len(loops) != 1:
        rep.anchor_missing('readdir loop', f'{len(loops)} loops calling readdir in listChildren')
    else:
        loop = loops[0]
        body = loop.n('body')
        skips = [n for n in body.walk() if n.k == 'if' and n.n('t') is not None and any(x.k == 'continue' for x in n.n('t').walk())]
        adds = [n for n in body.walk() if n.k == 'call' and n.callee_base() in ('emplace_front', 'push_front', 'emplace_back', 'push_back', 'emplace_after', 'insert') and n.n('object') is not None]
        rep.check(len(adds) == 1, 'PA.2', 'exactly one insertion into the result per directory entry', adds[0].shortloc() if adds else loop.shortloc(), f'{len(adds)} insertions in the loop body', key='PA.2|one-insert', fn=lc.name)
        # the string variable(s) the filter talks about: locals initialised from ent->d_name
        names = {}
        for n in body.walk():
            if n.k == 'decl':
                for v in n.vars:
                    if v.get('init') and any(x.k == 'member' and x.name in ('d_name', 'cFileName') for x in Node(lc.tu, v['init']).walk()): names[v['decl']] = v['name']
        if len(adds) == 1:
            # the conditions under which the insertion is reached within one iteration (`if (dot) continue;`, `if (!dot) add`, nested ifs ...)
            lc_c = loop.n('c')
            conds = [(c, pol) for c, pol in common.conditions_at(lc, adds[0]) if any(x.id == c.id for x in body.walk())]
            if not conds:
                rep.violation('PA.2', 'dot filter', adds[0].shortloc(), 'every directory entry is recorded unconditionally: "." and ".." are returned (size() recurses forever / counts the parent)', key='PA.2|filter-count', fn=lc.name)
            else:
                chars = {'.'}
                for c, _ in conds: chars |= literals_in([c])[0]
                rows = 0; bad = None
                try:
                    for s_ in table(chars, 4):
                        env = {d: s_ for d in names}
                        ev = StrEval(env, facts)
                        added = all(_eval_with_member(ev, c, s_) == pol for c, pol in conds)
                        rows += 1
                        want = s_ not in ('.', '..')
                        if added != want and bad is None: bad = (s_, not added)
                    rep.check(bad is None, 'PA.2', f'an entry is skipped exactly when its name is "." or ".." ({rows} names over the alphabet {sorted(chars)} + other, length <= 4)', conds[0][0].shortloc(),
                              '' if bad is None else (f'the entry named {bad[0]!r} is {"skipped" if bad[1] else "not skipped"}: ' + ('listChildren misses a real entry (and a directory\'s size loses that subtree)' if bad[1] else 'the pseudo entry is returned (size() recurses forever / counts the parent)')),
                              key='PA.2|filter-table', fn=lc.name)
                except Unsupported as e:
                    rep.inconclusive('PA.2', 'dot filter', conds[0][0].shortloc(), f'condition outside the string-table vocabulary: {e}')
        # the inserted value is the entry name
        if adds:
            a = adds[0].ns('args')
            ok = a and a[-1] is not None and (any(x.k == 'ref' and x.decl in names for x in a[-1].walk()) or any(x.k == 'member' and x.name == 'd_name' for x in a[-1].walk()))
            rep.check(ok, 'PA.2', 'the recorded value is the entry\'s name', adds[0].shortloc(), 'something else than the entry name is recorded', key='PA.2|value', fn=lc.name)
    def with_helpers(fn_, depth=0):
        out = list(fn_.nodes())
        if depth < 2:
            for n in fn_.nodes():
                if n.k == 'call' and n.callee_in_root and not strip_targs(n.calleeq or '').startswith(f'{P}::'):
                    for t in facts.resolve(n): out += with_helpers(t, depth + 1)
        return out
    lc_nodes = with_helpers(lc)
    thr = [n for n in lc_nodes if n.k == 'throw']
    kinds = set()
    for t in thr:
        for x in t.walk():
            if x.k == 'ref' and x.dk == 'enum': kinds.add(x.name)
    for n in lc.nodes():
        pass
    chk = [n for n in lc_nodes if n.k == 'call' and strip_targs(n.calleeq or '') == f'{P}::exists']
    rep.check('NotDirectory' in kinds and bool(chk), 'PA.2', f'listChildren throws NotFound (missing) / NotDirectory (not a directory): {sorted(kinds)}', lc.shortloc(), 'documented exceptions missing', key='PA.2|exceptions', fn=lc.name)
    # ---- PA.3 -----------------------------------------------------------------------------------------------------------------------
    isf = fn['isFile']
    for ex_, isd in itertools.product([True, False], repeat=2):
        dom = PathDomain(dict(exists=ex_, is_dir=isd))
        vals = {Pp.ret if isinstance(Pp.ret, bool) else repr(Pp.ret) for Pp, E in run_paths(facts, isf, dom)}
        want = ex_ and not isd
        rep.check(vals == {want}, 'PA.3', f'isFile() row (exists={ex_}, isDirectory={isd}) = {sorted(map(str, vals))}', isf.shortloc(), f'expected {want}', key='PA.3|isFile', fn=isf.name)
    sz = fn['size']
    try: sz_end = int((sz.d.get('endloc') or '').split(':')[1])
    except Exception: sz_end = sz.line
    sz_scope = [sz] + [g for g in facts.fns if g.d.get('lambda') and g.file == sz.file and sz.line <= g.line <= sz_end]
    recursive = any(n.k == 'call' and strip_targs(n.calleeq or '') == f'{P}::size' for g in sz_scope for n in g.nodes())
    in_lambda = recursive and not any(n.k == 'call' and strip_targs(n.calleeq or '') == f'{P}::size' for n in sz.nodes())
    if in_lambda:
        fold = _size_fold(facts, sz, sz_scope)
        if fold is None: rep.inconclusive('PA.3', 'size() of a directory', sz.shortloc(), 'the recursive size() call sits in a closure handed to a std algorithm: the per-child table is not followed')
        else:
            okf, site_, why_, key_ = fold
            rep.check(okf, 'PA.3', 'size() of a directory: std::accumulate over listChildren() adds join(*this, child).size() for every child, in an accumulator as wide as the result', site_, why_, key=key_, fn=sz.name)
        recursive = False; sz_skip = True
    else: sz_skip = False
    if not recursive and not sz_skip:
        worklist = [n for n in sz.nodes() if n.k == 'call' and n.callee_base() in ('push_back', 'emplace_back', 'push', 'push_front', 'emplace_front', 'emplace') and n.n('object') is not None and n.n('object').k == 'ref'
                    and any(x.k == 'call' and strip_targs(x.calleeq or '') == f'{P}::join' for x in n.walk())]
        helper = [n for n in sz.nodes() if n.k == 'call' and n.callee_in_root and not strip_targs(n.calleeq or '').startswith(f'{P}::') and any(t is not None and any(x.k == 'call' and strip_targs(x.calleeq or '') == f'{P}::listChildren' for x in t.nodes()) for t in facts.resolve(n))]
        if worklist or helper: rep.inconclusive('PA.3', 'size()', sz.shortloc(), 'size() is not written as a recursion over listChildren() (work-list / helper): the traversal is not followed')
        else: rep.violation('PA.3', 'size() of a directory: the size of every child is measured (recursively)', sz.shortloc(), 'size() neither calls itself on the children nor queues them: a directory\'s size is not the total of everything beneath it', key='PA.3|dir', fn=sz.name)
    for is_file in ((True, False) if recursive else ()):
        dom = PathDomain(dict(exists=True, is_file=is_file, is_dir=not is_file, open_ok=True))
        res = run_paths(facts, sz, dom)
        for Pp, E in res:
            if Pp.end == 'throw': continue
            if is_file:
                seek = [e for e in E if e.kind == 'call' and e.name == 'fseek']
                tell = [e for e in E if e.kind == 'call' and e.name == 'ftell']
                ok = len(seek) >= 1 and len(tell) == 1 and E.index(seek[0]) < E.index(tell[0]) and seek[0].node.ns('args')[2] is not None and seek[0].node.ns('args')[2].d.get('const', seek[0].node.ns('args')[2].d.get('v')) == 2
                rep.check(ok, 'PA.3', 'size() of a file: fseek(0, SEEK_END) then ftell', tell[0].site if tell else sz.shortloc(), 'file size is not taken from the end position', key='PA.3|file', fn=sz.name)
            else:
                lcs = [e for e in E if e.kind == 'call' and strip_targs(e.name) == f'{P}::listChildren']
                recs = [e for e in E if e.kind == 'call' and strip_targs(e.name) == f'{P}::size']
                loops = [n for n in sz.nodes() if n.k == 'rangefor']
                iters = 0
                for l in loops:
                    c = l.n('c')
                    iters += sum(1 for e in E if e.kind == 'branch' and c is not None and e.node is not None and e.node.id == c.id and e.val is True)
                # a child that is skipped because its name is exactly "." or ".." is this directory / its parent, not something beneath it
                # (listChildren() never reports them: PA.2)
                def _dot_test(c_):
                    lits = [x.v for x in c_.walk() if x.k == 'str']
                    return bool(lits) and all(v_ in ('.', '..') for v_ in lits) and (any(x.k == 'call' and ((x.ck == 'op' and x.op == '==') or x.callee_base() in ('strcmp', 'compare')) for x in c_.walk()) or (c_.k == 'binop' and c_.op == '=='))
                dot_skips = sum(1 for c_, v_, h_ in Pp.decisions if c_ is not None and v_ is True and _dot_test(c_))
                ok = len(lcs) == 1 and (len(recs) == iters or (len(recs) < iters and len(recs) + dot_skips >= iters))
                rep.check(ok, 'PA.3', f'size() of a directory: one recursive size() per child ({iters} children on this path)', sz.shortloc(), f'{len(recs)} recursive size() calls for {iters} children: a directory\'s size is not the total of everything beneath it', key='PA.3|dir', fn=sz.name)
                if ok and iters:
                    want = Lin.const(0)
                    for e in recs: want = want + Lin.sym(f'size@{e.node.id}')
                    r = as_lin(Pp.ret) if isinstance(Pp.ret, (Lin, int)) else None
                    rep.check(r == want, 'PA.3', 'size() of a directory returns the sum of the children\'s sizes', sz.shortloc(), f'returns {Pp.ret}', key='PA.3|dir-sum', fn=sz.name)
    def _this_path(a):
        """True if `a` designates this directory (`*this`, `m_path`, `toString()` of this object); False if it clearly designates
        something else (a literal, the child alone); None if not followed"""
        while a is not None and a.k in ('cast', 'paren', 'materialize', 'bindtemp', 'construct') and (a.n('sub') is not None or (a.k == 'construct' and a.ns('args'))):
            a = a.n('sub') if a.k != 'construct' else next((x for x in a.ns('args') if x is not None), None)
        if a is None: return None
        if a.k == 'unop' and a.op == '*' and a.n('sub') is not None and a.n('sub').k == 'this': return True
        if a.k == 'this': return True
        if a.k == 'member' and a.field and a.name == 'm_path' and a.n('base') is not None and a.n('base').k == 'this': return True
        if a.k == 'call' and a.callee_base() == 'toString' and a.n('object') is not None: return _this_path(a.n('object'))
        if a.k == 'str': return False
        if a.k in ('ref', 'member'): return False          # another object (the child, a parameter)
        return None
    recj = [n for n in sz.nodes() if n.k == 'call' and strip_targs(n.calleeq or '') == f'{P}::join']
    if not recj and sz_skip: recj = [n for g in sz_scope for n in g.nodes() if n.k == 'call' and strip_targs(n.calleeq or '') == f'{P}::join']
    okj = _this_path(recj[0].ns('args')[0]) if (recj and recj[0].ns('args')) else False
    if recursive or sz_skip:
        if okj is None: rep.inconclusive('PA.3', 'children are measured as join(*this, child)', recj[0].shortloc(), f'what `{recj[0].ns("args")[0].text()[:40]}` designates was not followed')
        else: rep.check(okj, 'PA.3', 'children are measured as join(*this, child)', recj[0].shortloc() if recj else sz.shortloc(), 'child sizes are not taken relative to this directory', key='PA.3|join', fn=sz.name)
    # ---- PA.4 -------------------------------------------------------------------------------------------------------------------------------
    joins = [f for f in facts.by_name.get(f'{P}::join', []) if len(f.d['params']) == 2 and 'basic_string' in f.d['params'][0]['ctype']]
    if len(joins) != 1: rep.anchor_missing(f'{P}::join(string, string)', f'{len(joins)} candidates')
    else:
        j = joins[0]
        chars, _ = literals_in([j.body])
        for g in facts.fns:
            if g.qname == 'tulz::isAbsolutePath': chars |= literals_in([g.body])[0]
        chars |= {'/'}
        sep = '/'
        d1, d2 = j.d['params'][0]['decl'], j.d['params'][1]['decl']
        bad = None; rows = 0
        try:
            for s1 in table(chars, 3):
                for s2 in table(chars, 3):
                    got = _interp_returns(j, {d1: s1, d2: s2}, facts)
                    rows += 1
                    if s1 == '': want = s2
                    elif s2.startswith(sep): want = s2
                    else: want = s1 + ('' if s1[-1] in ('/', sep) else sep) + s2
                    if got != want and bad is None: bad = (s1, s2, got, want)
            rep.check(bad is None, 'PA.4', f'join table: {rows} (p1, p2) pairs over the alphabet {sorted(chars)} + other', j.shortloc(),
                      '' if bad is None else f'join({bad[0]!r}, {bad[1]!r}) = {bad[2]!r}, specified {bad[3]!r}' + (': a separator-free name is treated as an absolute path, so the name of join(d, n) is not below d (a directory\'s size() then looks the child up outside the directory)' if bad[2] == bad[1] else ''),
                      key='PA.4|table', fn=j.name)
        except Unsupported as e:
            rep.inconclusive('PA.4', 'join', j.shortloc(), f'outside the string-table vocabulary: {e}')
    # ---- PA.5 ---------------------------------------------------------------------------------------------------------------------------------
    DV = 'tulz::DirectoryVisitor'
    visit = facts.fn(f'{DV}::visit'); dt = [f for f in facts.fns if f.d.get('class') == DV and f.d.get('dtor')]
    if visit is None or not dt: rep.anchor_missing(DV, 'visit / destructor not found')
    else:
        for empty in (True, False):
            dom = PathDomain({'m_dir.empty': empty, 'm_oldDir.empty': False}); dom.inline_all = False
            for Pp, E in run_paths(facts, visit, dom):
                gets = [i for i, e in enumerate(E) if e.kind == 'call' and strip_targs(e.name) == f'{P}::getWorkingDirectory']
                sets = [i for i, e in enumerate(E) if e.kind == 'call' and strip_targs(e.name) == f'{P}::setWorkingDirectory']
                saves = [i for i, e in enumerate(E) if (e.kind == 'write' and e.obj == 'm_oldDir') or (e.kind == 'call' and e.obj == 'm_oldDir' and e.name.split('::')[-1] == 'operator=')]
                if empty:
                    rep.check(not sets, 'PA.5', 'visit() with no directory set does not change the cwd', visit.shortloc(), 'chdir without a target', key='PA.5|visit-empty', fn=visit.name)
                else:
                    ok = len(gets) == 1 and len(sets) == 1 and gets[0] < sets[0] and bool(saves) and gets[0] < saves[0]
                    why = ''
                    if not ok: why = ('the working directory is read after it was changed: the "old" directory that is restored later is the visited one' if gets and sets and gets[0] > sets[0] else f'{len(gets)} getWorkingDirectory / {len(sets)} setWorkingDirectory / {len(saves)} saves')
                    rep.check(ok, 'PA.5', 'visit(): getWorkingDirectory() is saved into m_oldDir before setWorkingDirectory(m_dir)', E[sets[0]].site if sets else visit.shortloc(), why, key='PA.5|visit-order', fn=visit.name)
                    if sets:
                        a = E[sets[0]].node.ns('args'); av = E[sets[0]].args
                        v0 = av[0] if av else None
                        is_dir = (bool(a) and a[0] is not None and a[0].is_field('m_dir')) or (isinstance(v0, Sym) and v0.name in ('str:m_dir', 'field:this.m_dir')) or (isinstance(v0, Ref) and v0.loc == ('f', ('this', 'm_dir')))
                        other = isinstance(v0, Sym) and (v0.name.startswith(('str:', 'field:', 'cwd@')))
                        if is_dir: rep.ok('PA.5', 'visit() changes into m_dir', E[sets[0]].site)
                        elif other: rep.violation('PA.5', 'visit() changes into m_dir', E[sets[0]].site, f'changes into something else ({v0})', key='PA.5|visit-target', fn=visit.name)
                        else: rep.inconclusive('PA.5', 'visit() changes into m_dir', E[sets[0]].site, f'the directory passed to setWorkingDirectory ({v0}) was not followed')
                    if saves and gets:
                        sv = E[saves[0]]
                        vals_ = [sv.val] + list(sv.args)
                        from_get = any(isinstance(x, Sym) and x.name.startswith('cwd@') for x in vals_)
                        if from_get: rep.ok('PA.5', 'what visit() saves in m_oldDir is the directory getWorkingDirectory() returned', sv.site)
                        elif any(isinstance(x, Sym) and x.name.startswith(('str:', 'field:')) for x in vals_): rep.violation('PA.5', 'what visit() saves in m_oldDir is the directory getWorkingDirectory() returned', sv.site, f'm_oldDir receives {vals_}', key='PA.5|visit-saved', fn=visit.name)
        for saved in (True, False):
            dom = PathDomain({'m_oldDir.empty': not saved, 'm_dir.empty': False})
            dom.opaque = lambda n, _d=dom: (strip_targs(n.d.get('calleeq') or '') in (f'{P}::setWorkingDirectory', f'{P}::toString', f'{P}::getWorkingDirectory')) or EvDomain.opaque(_d, n)
            for Pp, E in run_paths(facts, dt[0], dom):
                sets = [e for e in E if e.kind == 'call' and strip_targs(e.name) == f'{P}::setWorkingDirectory']
                if saved:
                    v0 = sets[0].args[0] if sets and sets[0].args else None
                    to_old = len(sets) == 1 and ((sets[0].node.ns('args') and sets[0].node.ns('args')[0] is not None and sets[0].node.ns('args')[0].is_field('m_oldDir')) or (isinstance(v0, Sym) and v0.name in ('str:m_oldDir', 'field:this.m_oldDir')) or (isinstance(v0, Ref) and v0.loc == ('f', ('this', 'm_oldDir'))))
                    if to_old: rep.ok('PA.5', 'the destructor restores the saved working directory', sets[0].site)
                    elif not sets or len(sets) > 1 or (isinstance(v0, Sym) and v0.name.startswith(('str:', 'field:', 'cwd@'))):
                        rep.violation('PA.5', 'the destructor restores the saved working directory', sets[0].site if sets else dt[0].shortloc(), 'a DirectoryVisitor that changed the working directory does not restore it when destroyed', key='PA.5|dtor', fn=dt[0].name)
                    else: rep.inconclusive('PA.5', 'the destructor restores the saved working directory', sets[0].site, f'the directory passed to setWorkingDirectory ({v0}) was not followed')
                else:
                    rep.check(not sets, 'PA.5', 'nothing is restored when nothing was saved', dt[0].shortloc(), 'chdir to an empty path', key='PA.5|dtor-none', fn=dt[0].name)
    # ---- PA.8 ---------------------------------------------------------------------------------------------------------------------------------
    import pathseg
    pathseg.run_rules(facts, rep)
    # ---- PA.7 ---------------------------------------------------------------------------------------------------------------------------------
    _link_rules(facts, rep)
    # ---- PA.6 ---------------------------------------------------------------------------------------------------------------------------------
    gw = facts.fn(f'{P}::getWorkingDirectory')
    if gw is None: rep.anchor_missing(f'{P}::getWorkingDirectory', 'not found')
    else:
        def const_of(a):
            while a is not None and a.k in ('cast', 'paren') and a.n('sub') is not None: a = a.n('sub')
            if a is None: return None
            if a.k == 'int': return a.v
            if a.k == 'sizeof': return a.d.get('const', a.d.get('v'))
            if a.k == 'call' and a.callee_base() in ('size', 'max_size') and a.n('object') is not None:
                # std::array<char, N>::size()
                m0 = re.match(r'(?:const )?std::array<[^,]+,\s*(\d+)>', (a.n('object').type or a.n('object').d.get('decltype') or '').strip())
                if m0: return int(m0.group(1))
            if 'const' in a.d and a.k == 'ref' and a.dk not in ('local', 'param'): return a.d['const']
            return None
        seen_fns = set(); work = [gw]; n6 = 0
        while work:
            g = work.pop()
            if g.name in seen_fns: continue
            seen_fns.add(g.name)
            for n in g.nodes():
                if n.k != 'call': continue
                q = strip_targs(n.calleeq or '')
                if q == 'getcwd' and len(n.ns('args')) == 2:
                    n6 += 1
                    buf, ln = n.ns('args')
                    c = const_of(ln)
                    b0 = buf
                    while b0 is not None and b0.k in ('cast', 'paren') and b0.n('sub') is not None: b0 = b0.n('sub')
                    m_ = re.search(r'\[(\d+)\]$', (b0.d.get('decltype') or b0.d.get('type') or '') if b0 is not None else '')
                    cap = int(m_.group(1)) if m_ else None
                    if cap is None and b0 is not None and b0.k == 'call' and b0.callee_base() == 'data' and b0.n('object') is not None:
                        m1 = re.match(r'(?:const )?std::array<[^,]+,\s*(\d+)>', (b0.n('object').type or b0.n('object').d.get('decltype') or '').strip())
                        if m1: cap = int(m1.group(1))
                    growable = b0 is not None and any(re.match(r'(?:const )?std::(__cxx11::)?(basic_string|vector)<', (x.type or x.d.get('decltype') or '').strip()) for x in b0.walk())
                    inst = f'{g.name}: getcwd(buffer, {c if c is not None else ln.text()[:30]})'
                    if c is None:
                        v6, why6 = _grows_on_erange(facts, gw) if growable else (None, 'neither a constant nor the size of a container that can be enlarged')
                        if v6 is True: rep.ok('PA.6', f'{g.name}: getcwd into a buffer that is enlarged and retried while getcwd reports ERANGE', n.shortloc())
                        elif v6 is False: rep.violation('PA.6', inst, n.shortloc(), why6, key='PA.6|retry', fn=g.name)
                        else: rep.inconclusive('PA.6', inst, n.shortloc(), 'the length handed to getcwd is not a compile-time constant' + (f' ({why6})' if why6 else ''))
                    elif cap is not None and cap < c: rep.violation('PA.6', inst, n.shortloc(), f'getcwd may write {c} bytes into a buffer of {cap}', key='PA.6|overflow', fn=g.name)
                    elif c < PATH_MAX: rep.violation('PA.6', inst, n.shortloc(), f'the buffer holds {c} bytes but a working directory may be up to PATH_MAX = {PATH_MAX} bytes long: from a directory whose absolute path is longer, getcwd fails (ERANGE) and the directory that is saved - and restored later - is not the one the process was in', key='PA.6|short', fn=g.name)
                    else: rep.ok('PA.6', inst + f' >= PATH_MAX ({PATH_MAX})', n.shortloc())
                elif q in ('get_current_dir_name', 'std::filesystem::current_path'):
                    n6 += 1; rep.ok('PA.6', f'{g.name}: {q}() has no length limit', n.shortloc())
                elif n.callee_in_root and n.callee:
                    h = facts.fn(n.callee)
                    if h is not None: work.append(h)
        if n6 == 0: rep.inconclusive('PA.6', 'getWorkingDirectory()', gw.shortloc(), 'no getcwd / get_current_dir_name / std::filesystem::current_path call found: how the working directory is read is not recognised')


def _owner_of(facts, f, open_call, want):
    """the std::unique_ptr / std::shared_ptr that is constructed directly from the result of `open_call`, judged by its deleter:
    (True / False / None, why, description) or None if there is no such owner"""
    for c in f.nodes():
        if c.k != 'construct' or not (c.d.get('class') or '').startswith(('std::unique_ptr', 'std::shared_ptr')): continue
        args = [a for a in c.ns('args') if a is not None]
        if not args or not any(x.id == open_call.id for x in args[0].walk()): continue
        cls = c.d.get('classfull') or c.d.get('class') or ''
        inst = f'a local {cls[:70]}'
        if any(x.k == 'ref' and x.dk == 'func' and (x.qname or x.name or '').split('::')[-1] == want for a in args[1:] for x in a.walk()): return True, '', inst
        others = [x for a in args[1:] for x in a.walk() if x.k == 'ref' and x.dk == 'func']
        if others: return False, f'the deleter handed to the owner is {others[0].name}(), not {want}()', inst
        m_ = re.match(r'std::(?:unique|shared)_ptr<[^,]+,\s*([\w:<> ]+?)\s*>$', cls)
        if m_:
            dels = [g for g in facts.fns if (g.d.get('classfull') or g.d.get('class')) == m_.group(1).strip() and g.qname.endswith('::operator()')]
            if dels:
                okd = any(x.k == 'call' and x.callee_base() == want for x in dels[0].nodes())
                return (True, '', inst) if okd else (False, f'the deleter {m_.group(1)} does not call {want}()', inst)
            return None, f'the deleter {m_.group(1)} of the owner was not followed', inst
        if len(args) == 1 and cls.startswith('std::unique_ptr') and ',' not in cls:
            return False, f'the owner has the default deleter: the handle is released with `delete`, never with {want}()', inst
        return None, 'the deleter of the owner was not recognised', inst
    return None


ERANGE = 34            # <asm-generic/errno-base.h>: what getcwd sets when the buffer is too small


def _grows_on_erange(facts, gw):
    """getWorkingDirectory() with a buffer whose size is not a constant: follow the path on which the first getcwd fails with
    errno == ERANGE (the working directory does not fit).  True: the path calls getcwd again with a buffer it enlarged; False: it gives
    up (returns / throws) without retrying; None: not followed."""
    class D(EvDomain):
        loop_unroll = 2
        max_depth = 4
        def opaque(self, n): return EvDomain.opaque(self, n)
        def call_result(self, ex, n, q, base, on, ov, vals, st, fr):
            if base == 'getcwd':
                prior = sum(1 for e in st.events if e[0] == 'ev' and e[2].kind == 'call' and e[2].name.split('::')[-1] == 'getcwd')
                return Lin.const(0) if prior <= 1 else Sym('cwd-buffer')
            if base == '__errno_location': return Sym('&errno')
            return super().call_result(ex, n, q, base, on, ov, vals, st, fr)
        def deref(self, ex, n, v, st, fr):
            if isinstance(v, Sym) and v.name == '&errno': return Lin.const(ERANGE)
            return None
    try:
        res = run_paths(facts, gw, D())
    except Inconclusive as e:
        return None, str(e)
    verdicts = []
    for Pp, E in res:
        calls = [i for i, e in enumerate(E) if e.kind == 'call' and e.name.split('::')[-1] == 'getcwd']
        if not calls: return None, 'a path without getcwd'
        if any(h == 'fork' and c_ is not None and 'errno' in (c_.text() or '') for c_, v_, h in Pp.decisions): return None, 'a test of errno was not decided'
        if len(calls) >= 2:
            grew = [e for e in E[calls[0]:calls[1]] if e.kind == 'call' and e.name.split('::')[-1] in ('resize', 'reserve', 'realloc', 'assign', 'append', 'push_back')] or [e for e in E[calls[0]:calls[1]] if e.kind in ('new', 'alloc')]
            verdicts.append(True if grew else None)
        else:
            site = next((e.site for e in reversed(E) if e.kind in ('return', 'throw') and e.site), gw.shortloc())
            verdicts.append((False, f'when the working directory does not fit the buffer getcwd fails with errno == ERANGE ({ERANGE}); on that path the function gives up at {site} instead of enlarging the buffer and trying again '
                                    f'(path: {"; ".join(((c_.text() or "")[:40] + " = " + str(v_)) for c_, v_, h in Pp.decisions if c_ is not None)[:160]}): the directory that is saved - and restored later - is not the one the process was in'))
    if any(isinstance(v, tuple) for v in verdicts): return next(v for v in verdicts if isinstance(v, tuple))
    if verdicts and all(v is True for v in verdicts): return True, ''
    return None, 'the retry was not followed'


PATH_MAX = 4096        # <linux/limits.h> of the build platform (what FILENAME_MAX expands to in glibc)


def _size_fold(facts, sz, scope):
    """size() of a directory written as  std::accumulate(children.begin(), children.end(), init, [this](total, child) { return total +
    join(*this, child).size(); }):  (ok, site, why, key), or None when it is not of that form"""
    strip = lambda x: (strip(x.n('sub')) if x is not None and x.k in ('cast', 'paren', 'materialize', 'bindtemp') and x.n('sub') is not None else x)
    acc = [n for n in sz.nodes() if n.k == 'call' and strip_targs(n.calleeq or '') == 'std::accumulate' and len(n.ns('args')) == 4]
    if len(acc) != 1: return None
    a = acc[0]; first, last, init, lam = a.ns('args')
    lam = strip(lam)
    if lam is None or lam.k != 'lambda': return None
    g = next((h for h in scope if h.d.get('lambda') and h.name == lam.d.get('fn') and h.shortloc().split(':')[:2] == (lam.d.get('fnloc') or '').split(':')[:2]), None) or next((h for h in scope if h.d.get('lambda') and h.name == lam.d.get('fn')), None)
    if g is None or len(g.d['params']) != 2: return None
    # the range is the whole of one local that holds listChildren()
    ends = [strip(first), strip(last)]
    if not all(e is not None and e.k == 'call' and e.n('object') is not None for e in ends): return None
    if [e.callee_base() for e in ends] not in (['begin', 'end'], ['cbegin', 'cend']): return None
    objs = [strip(e.n('object')) for e in ends]
    if not all(o is not None and o.k == 'ref' for o in objs) or objs[0].decl != objs[1].decl: return None
    holder = next((v for n in sz.nodes() if n.k == 'decl' for v in n.vars if v['decl'] == objs[0].decl), None)
    hinit = None
    for n in sz.nodes():
        if n.k == 'decl' and any(v['decl'] == objs[0].decl for v in n.vars): hinit = n
    if hinit is None or not any(x.k == 'call' and strip_targs(x.calleeq or '') == f'{P}::listChildren' for x in hinit.walk()): return None
    rets = [n for n in g.nodes() if n.k == 'return']
    if len(rets) != 1: return None
    e = strip(rets[0].n('value') if rets[0].n('value') is not None else rets[0].n('sub'))
    if e is None or e.k != 'binop' or e.op != '+': return None
    l, r = strip(e.n('lhs')), strip(e.n('rhs'))
    p0, p1 = g.d['params'][0]['decl'], g.d['params'][1]['decl']
    if r is not None and r.k == 'ref' and r.decl == p0: l, r = r, l
    if not (l is not None and l.k == 'ref' and l.decl == p0): return None
    if not (r is not None and r.k == 'call' and strip_targs(r.calleeq or '') == f'{P}::size'): return None
    j = strip(r.n('object'))
    if not (j is not None and j.k == 'call' and strip_targs(j.calleeq or '') == f'{P}::join' and len(j.ns('args')) == 2): return None
    j0, j1 = strip(j.ns('args')[0]), strip(j.ns('args')[1])
    if not (j0 is not None and j0.k == 'unop' and j0.op == '*' and j0.n('sub') is not None and j0.n('sub').k == 'this' and j1 is not None and j1.k == 'ref' and j1.decl == p1): return None
    ty = (a.d.get('type') or '').replace('const ', '')
    narrow = {'int', 'unsigned int', 'short', 'unsigned short', 'char', 'signed char', 'unsigned char', 'bool', 'float'}
    if ty in narrow:
        return False, a.shortloc(), f'std::accumulate adds the children\'s sizes in an accumulator of type `{ty}` (the type of its initial value): the total of a directory is truncated / overflows beyond what `{ty}` holds, although size() returns {sz.d.get("ret") or "size_t"}', 'PA.3|dir-accumulator'
    if ty not in ('unsigned long', 'size_t', 'std::size_t', 'unsigned long long', 'long', 'long long', 'uintmax_t'): return None
    return True, a.shortloc(), '', 'PA.3|dir'


def _eval_with_member(ev, cond, s):
    """evaluate cond where `ent->d_name` (member access) also stands for the string s"""
    orig = ev.s
    def s2(n):
        if n.k == 'member' and n.name in ('d_name', 'cFileName'): return s
        if n.k == 'cast' and n.n('sub') is not None and n.n('sub').k == 'member' and n.n('sub').name in ('d_name',): return s
        return orig(n)
    ev.s = s2
    return ev.b(cond)


def _interp_returns(f, env, facts):
    """interpret a function of the shape { if (c) return e; ... return e; } on concrete strings (guard/return table)"""
    ev = StrEval(env, facts)
    body = f.body
    for st in body.ns('stmts'):
        if st is None: continue
        if st.k == 'if':
            c = ev.b(st.n('c'))
            br = st.n('t') if c else st.n('f')
            if br is None: continue
            r = [x for x in br.walk() if x.k == 'return']
            if not r: raise Unsupported('branch without return')
            return ev.s(r[0].n('sub'))
        if st.k == 'return': return ev.s(st.n('sub'))
        if st.k == 'decl':
            # const locals (`const bool p2Absolute = isAbsolutePath(p2);`, `const char last = p1.back();`) are bound on the way
            for v in st.vars:
                if not v.get('init'): raise Unsupported(f'uninitialised local {v["name"]}')
                init = Node(f.tu, v['init'])
                for f_ in (ev.b, ev.s, ev.i, ev.c):
                    try: ev.env[v['decl']] = f_(init); break
                    except Unsupported: continue
                else: raise Unsupported(f'local {v["name"]} = {init.text()[:40]}')
            continue
        if any(x.k == 'call' and (x.calleeq or '').split('::')[-1] in ('__assert_fail', '__assert', '_assert', 'abort') for x in st.walk()) and not any(x.k == 'return' for x in st.walk()):
            continue          # an assert: no effect on what is returned (release builds compile it out)
        raise Unsupported(f'statement {st.k} in join')
    raise Unsupported('no return')


NOFOLLOW = {'lstat', 'lstat64', 'readlink', 'readlinkat', 'std::filesystem::symlink_status', 'std::filesystem::is_symlink', 'std::filesystem::read_symlink'}
FOLLOW = {'fopen', 'opendir', 'stat', 'stat64', 'access', 'open', 'std::filesystem::status', 'std::filesystem::exists', 'std::filesystem::is_directory', 'std::filesystem::is_regular_file'}


def _link_rules(facts, rep):
    for name in ('exists', 'isDirectory', 'isFile'):
        f0 = facts.fn(f'{P}::{name}')
        if f0 is None: continue
        seen = set(); work = [f0]; prims = []
        while work:
            g = work.pop()
            if g.name in seen or len(seen) > 20: continue
            seen.add(g.name)
            for n in g.nodes():
                if n.k != 'call': continue
                q = strip_targs(n.calleeq or '')
                if q in NOFOLLOW or q in FOLLOW: prims.append((q, n, g))
                elif q in ('fstatat', 'fstatat64') : prims.append((('lstat' if any('NOFOLLOW' in (a.text() or '') or a.d.get('const') == 0x100 for a in n.ns('args') if a is not None) else 'stat'), n, g))
                elif n.callee_in_root:
                    for t in facts.resolve(n):
                        if t.file == f0.file and t.cfg is not None: work.append(t)
        bad = [(q, n, g) for q, n, g in prims if q in NOFOLLOW]
        inst = f'{P.split("::")[-1]}::{name}() is decided by primitives that follow symbolic links'
        if bad:
            q, n, g = bad[0]
            rep.violation('PA.7', inst, n.shortloc(), f'{g.name.split("::")[-1]}() uses {q}(), which describes a symbolic link itself instead of what it leads to: for a link to a directory / a dangling link {name}() disagrees with the fopen / opendir '
                          'that File::open, size() and listChildren() perform on the same path (a link to a directory is opened as a file, a dangling link is "found")', key=f'PA.7|{name}', fn=f0.name)
        elif prims: rep.ok('PA.7', inst + f' ({", ".join(sorted({q for q, _, _ in prims}))})', f0.shortloc())
        else: rep.inconclusive('PA.7', inst, f0.shortloc(), 'no filesystem primitive recognised in the function or its helpers')
