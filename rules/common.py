"""Structural facts shared by several properties (each returns (ok, explanation[, site]))."""
from facts import Node, Inconclusive

_owner_cache = {}


def owner_fn(facts, node):
    key = id(facts)
    if key not in _owner_cache:
        m = {}
        for f in facts.fns:
            for n in f.nodes():
                m.setdefault((id(n.tu), n.id), f)
        _owner_cache.clear(); _owner_cache[key] = m
    return _owner_cache[key].get((id(node.tu), node.id))


def parent_map(fn):
    pm = {}
    for n in fn.nodes():
        for c in n.children():
            pm.setdefault(c.id, n)
    return pm


def strip_not(n):
    """returns (inner, negated)"""
    neg = False
    while n is not None and n.k == 'unop' and n.op == '!':
        n = n.n('sub'); neg = not neg
    return n, neg


def dominating_conditions(cfg, block_id):
    """[(cond Node, polarity)] such that block_id is only reachable through that branch edge"""
    out = []
    for D in cfg.blocks.values():
        if D.cond is None or len(D.succs) != 2 or D.succs[0] == D.succs[1]: continue
        if D.id == block_id: continue
        if D.id not in cfg.dom.get(block_id, ()): continue
        for pol, idx in ((True, 0), (False, 1)):
            other = D.succs[1 - idx]
            keep = D.succs[idx]
            if keep is None: continue
            # reachable from entry to block_id without using edge D->other ... we want: removing edge D->keep makes it unreachable
            if not _reachable_without_edge(cfg, block_id, D.id, keep):
                out.append((D.cond, pol))
    return out


def _reachable_without_edge(cfg, target, frm, to):
    seen = set(); st = [cfg.entry]
    while st:
        b = st.pop()
        if b in seen: continue
        seen.add(b)
        if b == target: return True
        for s in cfg.blocks[b].succs:
            if s is None: continue
            if b == frm and s == to:
                # a block with both successors identical would keep the edge; handled by caller
                continue
            st.append(s)
    return False


def conditions_at(fn, node):
    pos = fn.cfg.position(node)
    if pos is None: return []
    return dominating_conditions(fn.cfg, pos[0])


def writes_of(facts, cls, field, fns=None):
    """(fn, assignment-like node, lhs member node, rhs node or None) for every syntactic write of the field"""
    out = []
    for f in (fns or facts.fns):
        for n in f.nodes():
            if n.k == 'binop' and n.op in ('=', '+=', '-=', '*=', '/=', '|=', '&=') and n.n('lhs') is not None and n.n('lhs').is_field(field, cls):
                out.append((f, n, n.n('lhs'), n.n('rhs')))
            elif n.k == 'unop' and n.op in ('++', '--') and n.n('sub') is not None and n.n('sub').is_field(field, cls):
                out.append((f, n, n.n('sub'), None))
        for i in f.d.get('inits') or []:
            if i.get('field') == field and i.get('class') == cls and i.get('init'):
                out.append((f, None, None, Node(f.tu, i['init'])))
    return out


def is_true_lit(n):
    return n is not None and ((n.k == 'bool' and n.v is True) or n.d.get('const') == 1 and n.k in ('bool', 'int'))


def is_false_lit(n):
    return n is not None and ((n.k == 'bool' and n.v is False))


# ---- ThreadPool ---------------------------------------------------------------------------------------------------------
def pool_join_loop(fn):
    """range-for over m_pool whose body unconditionally joins the loop variable: returns the rangefor node or None"""
    for n in fn.nodes():
        if n.k != 'rangefor': continue
        r = n.n('range')
        if r is None or not r.is_field('m_pool', 'tulz::ThreadPool'): continue
        var = n.var
        body = n.n('body')
        if body is None: continue
        for c in body.walk():
            if c.is_call('tulz::Thread::join') and c.n('object') is not None and c.n('object').k == 'ref' and c.n('object').decl == var['decl']:
                # unconditional inside the body: no dominating condition other than the loop's own
                conds = conditions_at(fn, c)
                conds = [x for x in conds if fn.cfg.position(x[0]) and not _is_loop_cond(fn, x[0], n)]
                if not conds: return n, c
    return None, None


def _is_loop_cond(fn, cond, loop):
    c = loop.n('c')
    return c is not None and c.id == cond.id


def stop_joins_all(facts):
    """in every function that writes a non-true value to ThreadPool::m_isRunning: after the write every path joins every
    element of m_pool and clears the list (TP.6c)"""
    ws = [w for w in writes_of(facts, 'tulz::ThreadPool', 'm_isRunning') if w[1] is not None and not is_true_lit(w[3])]
    if not ws: return False, 'no write of the stop value found', ''
    for f, asg, lhs, rhs in ws:
        loop, join = pool_join_loop(f)
        if loop is None: return False, f'{f.name} sets the flag to a non-true value but has no unconditional join loop over m_pool', asg.shortloc()
        cfg = f.cfg
        # the loop header (its range-init element) must lie on every path from the write to the exit, after the write
        rng = loop.n('range')
        pw, pl = cfg.position(lhs), cfg.position(rng)
        if pw is None or pl is None: return False, 'cannot position write/loop in the CFG', asg.shortloc()
        reached_exit, _ = cfg.forward(pw, lambda e: e.node is not None and e.node.id == rng.id)
        if reached_exit: return False, f'a path from the flag write at {asg.shortloc()} reaches the exit of {f.name} without the join loop', asg.shortloc()
        if not cfg.reaches(lhs, rng): return False, 'join loop is not after the write', asg.shortloc()
        # m_pool.clear() after the loop on every path
        clears = [c for c in f.nodes() if c.is_call('clear') and c.n('object') is not None and c.n('object').is_field('m_pool', 'tulz::ThreadPool')]
        if not clears: return False, f'{f.name} does not empty m_pool after joining', asg.shortloc()
    return True, f'{len(ws)} stop write(s); each followed on every path by an unconditional join of every m_pool element and m_pool.clear()', ws[0][1].shortloc()


def is_quiescent_true_write(member_node, facts):
    """`m_isRunning = true` control-dependent on having read the flag false (E4)"""
    f = owner_fn(facts, member_node)
    if f is None: return False
    pm = parent_map(f)
    asg = pm.get(member_node.id)
    if asg is None or asg.k != 'binop' or asg.op != '=' or not is_true_lit(asg.n('rhs')): return False
    for cond, pol in conditions_at(f, member_node):
        inner, neg = strip_not(cond)
        if inner is not None and inner.is_field('m_isRunning', 'tulz::ThreadPool') and (pol != (not neg)) is False:
            # cond true with negation  <=> flag false
            pass
        if inner is not None and inner.is_field('m_isRunning', 'tulz::ThreadPool'):
            flag_value_on_branch = (pol != neg)     # value of the flag on this edge
            if flag_value_on_branch is False: return True
    return False


def quiescent_restart_write(facts, tp_results=None):
    if tp_results is not None:
        # TP.6a-c as decided by the ThreadPool rule set (event-based, every path of stop())
        res = [r for k in ('TP.6a', 'TP.6b', 'TP.6c') for r in tp_results.get(k, [])]
        ok = bool(res) and all(r[0] is True for r in res)
        why = '' if ok else next((f'{r[1]}: {r[3]}' for r in res if r[0] is not True), 'TP.6 not evaluated')
        if not ok and not any(r[0] is False for r in res):
            return None, 'TP.6 (stop() joins every worker before it returns) is not decided on this tree: ' + why          # neither proved nor refuted
    else:
        ok, why, _ = stop_joins_all(facts)
    if not ok: return False, 'TP.6 does not hold: ' + why
    # every write of `true` outside constructors must be guarded by the flag being false
    ws = [w for w in writes_of(facts, 'tulz::ThreadPool', 'm_isRunning') if w[1] is not None and is_true_lit(w[3])]
    bad = [w for w in ws if not is_quiescent_true_write(w[2], facts)]
    if bad: return False, f'unguarded restart write at {bad[0][1].shortloc()}'
    return True, f'{len(ws)} restart write(s), each control-dependent on the flag being false; the flag is only cleared by a function that joins every worker'


def pooled_thread_confined(facts):
    """E5: PooledThread::m_lastActiveTime is reached by workers only through PooledRunnable::m_pooledThread, which the single
    construction site binds to the PooledThread that the new worker thread is started on."""
    news = []
    for f in facts.fns:
        for n in f.nodes():
            if n.k == 'new' and (n.alloctype or '').endswith('PooledRunnable'): news.append((f, n))
    if len(news) != 1: return False, f'{len(news)} construction sites of PooledRunnable (expected exactly 1)'
    f, nw = news[0]
    ctor = nw.n('init')
    if ctor is None or ctor.k != 'construct' or len(ctor.ns('args')) < 2: return False, 'unrecognised PooledRunnable construction'
    arg_pt = ctor.ns('args')[1]
    pm = parent_map(f)
    call = pm.get(nw.id)
    while call is not None and call.k not in ('call',): call = pm.get(call.id)
    if call is None or not call.is_call('tulz::Thread::start'): return False, 'the new PooledRunnable is not handed directly to Thread::start'
    obj = call.n('object')
    if not (obj is not None and obj.k == 'ref' and arg_pt is not None and arg_pt.k == 'ref' and obj.decl == arg_pt.decl):
        return False, 'the PooledThread passed to PooledRunnable is not the thread being started'
    # m_pooledThread is only written by the constructor initialiser
    ws = writes_of(facts, 'tulz::PooledRunnable', 'm_pooledThread')
    if any(w[1] is not None for w in ws): return False, 'PooledRunnable::m_pooledThread is reassigned'
    # every use of set/getLastActiveTime goes through this->m_pooledThread
    for g in facts.fns:
        for n in g.nodes():
            if n.is_call('tulz::PooledThread::setLastActiveTime', 'tulz::PooledThread::getLastActiveTime'):
                o = n.n('object')
                if not (o is not None and o.is_field('m_pooledThread', 'tulz::PooledRunnable') and o.n('base') is not None and o.n('base').k == 'this'):
                    return False, f'{n.shortloc()}: last-active time of a PooledThread reached other than through the worker\'s own m_pooledThread'
    return True, f'single site {nw.shortloc()}: pooledThread->start(new PooledRunnable(this, pooledThread))'


# ---- ConcurrentSubjectRouter -----------------------------------------------------------------------------------------------
CSR = 'tulz::ConcurrentSubjectRouter'
KNOWN_RW = ('tulz::rwp::Resource', 'std::shared_mutex', 'std::shared_timed_mutex')


def _bare(t):
    return (t or '').replace('const ', '').replace('*const', '').replace('&', '').replace('*', '').strip()


def lock_adapter(facts, cls_full):
    """a class that exposes a reader-writer lock through lock()/unlock()/lock_shared()/unlock_shared(): True if each forwards to the
    matching operation of one inner lock field, False if one forwards to the wrong operation, None if the class is something else"""
    c = facts.cls(cls_full)
    if c is None: return None
    inner = [f for f in c['fields'] if _bare(f['ctype']) in KNOWN_RW]
    if len(inner) != 1: return None
    want = {'lock': ('lockWrite', 'lock'), 'unlock': ('unlockWrite', 'unlock'), 'lock_shared': ('lockRead', 'lock_shared'), 'unlock_shared': ('unlockRead', 'unlock_shared')}
    seen = 0
    for name, targets in want.items():
        fs = [f for f in facts.fns if f.d.get('classfull') == cls_full and f.qname.split('::')[-1] == name]
        if not fs: continue
        calls = [n for n in fs[0].nodes() if n.k == 'call' and n.n('object') is not None and n.n('object').is_field(inner[0]['name'])]
        if len(calls) != 1: return None
        if calls[0].callee_base() not in targets: return False
        seen += 1
    return True if seen >= 2 else None


def rw_lock_type(facts, t):
    t = _bare(t)
    return t in KNOWN_RW or t == 'std::mutex' or lock_adapter(facts, t) is True


def router_lock_field(facts):
    c = facts.cls(CSR)
    if c is None: return None
    cands = [f for f in c['fields'] if rw_lock_type(facts, f['ctype'])]
    return cands[0] if len(cands) == 1 else None


def invoker_resource_flow(facts):
    """(True / False / None, explanation, site): the lock the concurrent handle takes in unsubscribe() is the router's own lock.
    subscribe() must build its result through ConcurrentSubjectRouter::Subscription, handing it the router's lock field (by reference or
    address); Subscription hands it to the ConcurrentInvoker, whose constructor binds its own lock member to it."""
    lf = router_lock_field(facts)
    if lf is None: return None, 'the lock field of ConcurrentSubjectRouter was not identified', ''
    subs = facts.fns_g(f'{CSR}::subscribe')
    if not subs: return False, 'no instantiation of ConcurrentSubjectRouter::subscribe', ''
    site = subs[0].shortloc()

    def nested(f):
        try: end = int((f.d.get('endloc') or '').split(':')[1])
        except Exception: end = f.line
        return [f] + [g for g in facts.fns if g is not f and g.d.get('lambda') and g.file == f.file and f.line <= g.line <= end]

    def designates(e, pred):
        while e is not None and (e.k == 'cast' or (e.k == 'unop' and e.op in ('&', '*')) or (e.k == 'call' and (e.calleeq or '') in ('std::ref', 'std::addressof', 'std::move', 'std::forward') and e.ns('args'))):
            e = e.n('sub') if e.k != 'call' else e.ns('args')[0]
        return e is not None and pred(e)
    owner_form = False
    for f in subs:
        cons = [x for g in nested(f) for x in g.nodes() if x.k == 'construct' and x.d.get('class') == f'{CSR}::Subscription' and not x.copy and not x.move]
        if not cons:
            plain = [x for g in nested(f) for x in g.nodes() if x.k == 'return']
            return False, f'{f.name} does not build its result through ConcurrentSubjectRouter::Subscription (the handle would unsubscribe without the write lock)', (plain[0].shortloc() if plain else site)
        for c in cons:
            args = [a for a in c.ns('args') if a is not None]
            hit = [a for a in args if designates(a, lambda e: e.is_field(lf['name'], CSR))]
            if not hit and any(designates(a, lambda e: e.k == 'this') for a in args):
                hit = ['owner']; owner_form = True          # the handle is given the router itself and reaches the lock through it
            if not hit:
                other = [a for a in args if rw_lock_type(facts, a.type or '')]
                if other: return False, f'{f.name}: the handle is given `{other[0].text()[:30]}`, not the router\'s own {lf["name"]}', c.shortloc()
                return None, f'{f.name}: which lock the handle receives was not followed', c.shortloc()
    ctors = [f for f in facts.fns if f.gname == f'{CSR}::Subscription::Subscription' and f.d.get('ctor') and not f.d.get('copy') and not f.d.get('move')]
    if not ctors: return None, 'ConcurrentSubjectRouter::Subscription constructor not instantiated', site
    for f in ctors:
        p0 = f.d['params'][0]['decl'] if f.d['params'] else None
        mk = [n for n in f.nodes() if (n.is_call('std::make_unique') or n.is_call('std::make_shared') or n.k == 'new')]
        inv = [n for n in mk if 'ConcurrentInvoker' in ((n.targs or [''])[0] if n.k == 'call' else (n.alloctype or ''))]
        if not inv: return None, f'{f.name}: where the ConcurrentInvoker is created was not recognised', f.shortloc()
        args = inv[0].ns('args') if inv[0].k == 'call' else ((inv[0].n('init').ns('args') if inv[0].n('init') is not None else []))
        if not any(designates(a, lambda e: e.k == 'ref' and e.decl == p0) for a in args if a is not None):
            return None, f'{f.name}: the lock parameter is not visibly handed to the ConcurrentInvoker', inv[0].shortloc()
    ictors = [f for f in facts.fns if f.gname == f'{CSR}::Subscription::ConcurrentInvoker::ConcurrentInvoker' and f.d.get('ctor') and not f.d.get('copy') and not f.d.get('move')]
    if not ictors: return None, 'ConcurrentInvoker constructor not instantiated', site
    for f in ictors:
        p0 = f.d['params'][0]['decl'] if f.d['params'] else None
        c = facts.cls(f.d['classfull'])
        lockf = [x for x in (c or {}).get('fields', []) if rw_lock_type(facts, x['ctype'])]
        if owner_form and not lockf:
            lockf = [x for x in (c or {}).get('fields', []) if 'ConcurrentSubjectRouter' in x['ctype'] and 'Subscription' not in x['ctype']]
        if len(lockf) != 1: return None, f'{f.d["classfull"]}: lock member not identified', f.shortloc()
        if not (lockf[0].get('isref') or lockf[0].get('isptr') or lockf[0]['ctype'].rstrip().endswith(('*', '&', '*const'))):
            return False, f'{f.d["classfull"]}::{lockf[0]["name"]} is a lock of its own (held by value), not the router\'s', f.shortloc()
        ok = False
        for i in f.d.get('inits') or []:
            if i.get('field') == lockf[0]['name'] and i.get('init'):
                n = Node(f.tu, i['init'])
                if designates(n, lambda e: e.k == 'ref' and e.decl == p0): ok = True
        if not ok: return None, f'{f.name}: {lockf[0]["name"]} is not visibly bound to the constructor\'s lock parameter', f.shortloc()
    return True, f'{len(subs)} subscribe instantiation(s) -> Subscription({lf["name"]}, …) -> ConcurrentInvoker(lock, …) -> its lock member', site


def thread_body_deletes(facts, root_name, var, chain=()):
    """the thread body named by a worker root (thread-body@file:line) — or a closure it runs, found on the access's call chain —
    deletes its captured pointer `var` on every path"""
    loc = root_name.split('@', 1)[1] if '@' in root_name else ''
    on_chain = set(chain or ())
    for f in facts.fns:
        if f.d.get('lambda') and (f.shortloc() == loc or f.name in on_chain):
            dels = [n for n in f.nodes() if n.k == 'delete' and n.n('sub') is not None and n.n('sub').k == 'ref' and n.n('sub').name == var]
            if not dels: continue
            cfg = f.cfg
            pos = cfg.position(dels[0])
            if pos is not None and pos[0] in cfg.pdom.get(cfg.entry, ()): return True
    return False


def finding_fn(a):
    """the construct a known finding about an access is filed under: the call `F>G` by which the class that owns the field is entered
    (F its outermost member function in the call chain) and left for the helper G that leads to the access; the accessing function
    itself when there is no such call.  Moving the access into a further helper of G does not change the construct; an access
    made anywhere else is a different one."""
    from facts import strip_targs
    cls = strip_targs(a.cls)
    names = [strip_targs(x) for x in a.chain]
    fn = strip_targs(a.fn)
    if not names or names[-1] != fn: names.append(fn)
    for i, nme in enumerate(names):
        if nme.startswith(cls + '::') and '::' not in nme[len(cls) + 2:].split('(')[0]:
            # alternatives, '~'-separated: the entry together with each function on the way from it to the access (the same finding whether
            # the helper is called directly, through a further helper, or itself wraps one); a listed finding names one of them
            alts = []
            for g in names[i + 1:]:
                if nme + '>' + g not in alts: alts.append(nme + '>' + g)
            if alts: return '~'.join(alts)
            break
    return fn


def _strip(t):
    from facts import strip_targs
    return strip_targs(t)


def extra_field_fork(P, cls, known):
    """the condition of a branch this path took without the evaluator deciding it, if it tests a member of `cls` that is not in
    `known` (a cached count, a flag, a derived value the rule tables know nothing about); else None.  Such a path neither proves
    nor refutes a row: what the test means is not followed."""
    def mentions(e, depth=0):
        for x in e.walk():
            if x.k == 'member' and x.field and _strip(x.d.get('classfull') or x.d.get('class') or '') == cls and x.name not in known: return True
            if x.k == 'ref' and x.dk == 'local' and depth < 3:
                # a local that was given its value from such a member (`bool idle = m_idleCount > 0; … if (idle)`)
                for src in _local_sources(x):
                    if mentions(src, depth + 1): return True
        return False
    for c, v, h in getattr(P, 'decisions', []):
        if h != 'fork' or c is None: continue
        if mentions(c): return c
    return None


_src_cache = {}


def _local_sources(ref):
    """initialiser and right-hand sides of the assignments to the local variable `ref` names, in the translation unit it is written in"""
    key = (id(ref.tu), ref.decl)
    if key not in _src_cache:
        out = []
        for nid, d in ref.tu.ex.items():
            if d.get('k') == 'decl':
                for v in d.get('vars') or []:
                    if v.get('decl') == ref.decl and v.get('init') and v['init'] in ref.tu.ex: out.append(Node(ref.tu, v['init']))
            elif d.get('k') == 'binop' and d.get('op') == '=':
                n = Node(ref.tu, nid); l = n.n('lhs')
                if l is not None and l.k == 'ref' and l.decl == ref.decl and n.n('rhs') is not None: out.append(n.n('rhs'))
        _src_cache[key] = out
    return _src_cache[key]
