"""ThreadPool / PooledRunnable / Thread(Runnable*): typestate and ordering rules TP.1-TP.10 on every path (C07, C08)."""
import itertools
from facts import Node, Inconclusive, strip_targs
from symex import Lin, Enum, Unknown, Ref, Closure, Sym, as_lin, Exec
from evdom import EvDomain, Ev, run_paths, loop_conds, loop_visits
from lockset import Engine, protecting
import common

TUS = ['src/threading/ThreadPool.cpp', 'src/threading/Thread.cpp', 'witness/w_thread.cpp']
TP = 'tulz::ThreadPool'


INTEGRAL_T = {'int', 'unsigned int', 'long', 'unsigned long', 'size_t', 'std::size_t', 'short', 'unsigned short', 'long long', 'unsigned long long', 'unsigned', 'ssize_t', 'uint32_t', 'uint64_t', 'int32_t', 'int64_t'}


TP_FIELDS = ('m_pool', 'm_queue', 'm_condition', 'm_expiryTimeout', 'm_maxThreadCount', 'm_isRunning', 'm_poolMutex', 'm_queueMutex')


class TPDomain(EvDomain):
    loop_unroll = 1
    max_depth = 8

    def __init__(self, oracle=None):
        super().__init__(oracle=oracle)

    fields = None         # extra pool fields with a known value on entry (restart-state rows): name -> value
    extra_names = ()

    def field_value(self, path, node):
        last = path[-1]
        if self.fields and last in self.fields: return self.fields[last]
        if last == 'm_isRunning':
            v = self.atom('running'); return v if v is not None else Unknown('m_isRunning')
        if last in TPDomain.extra_names: return Lin.sym(last)          # a scalar member outside the pool tables (atomic or not): its value on entry, by name
        if last == 'm_maxThreadCount': return Lin.sym('max')
        if last == 'm_expiryTimeout': return Lin.sym('timeout')
        return None

    def call_result(self, ex, n, q, base, on, ov, vals, st, fr):
        if base in ('size', 'empty') and on == 'm_queue' and self.atom('queue0_empty') is True:
            # the queue was empty on entry: it holds what this path has appended (removals end the knowledge)
            evq = [p_ for k_, _, p_ in st.events if k_ == 'ev' and p_.kind == 'call' and p_.obj == 'm_queue' and p_.node is not n]
            names = [e_.name.split('::')[-1] for e_ in evq]
            if all(b_ in ('emplace_back', 'push_back', 'emplace_front', 'push_front', 'size', 'empty', 'begin', 'end', 'back', 'front') for b_ in names):
                cnt = sum(1 for b_ in names if b_ in ('emplace_back', 'push_back', 'emplace_front', 'push_front'))
                return Lin.const(cnt) if base == 'size' else (cnt == 0)
        if base == 'size' and on == 'm_pool':
            # the size on entry plus what this path has inserted since (a worker recorded a moment ago counts)
            ins_ = sum(1 for k_, _, p_ in st.events if k_ == 'ev' and p_.kind == 'call' and p_.obj == 'm_pool' and p_.name.split('::')[-1] in ('emplace_back', 'push_back', 'emplace_front', 'push_front', 'insert', 'emplace'))
            return (Lin.const(0) if self.atom('pool_empty') is True else Lin.sym('poolsize')) + Lin.const(ins_)
        if base == 'empty' and on == 'm_pool' and self.atom('pool_empty') is not None: return self.atom('pool_empty')
        if base in ('operator==', 'operator!=') and self.atom('pool_empty') is True:
            ops_ = [ex.read(x.loc, st, n) if isinstance(x, Ref) else x for x in ([ov] + list(vals)) if x is not None]
            if len(ops_) == 2 and all(isinstance(x, Sym) for x in ops_) and {x.name for x in ops_} == {'m_pool.begin', 'm_pool.end'}:
                return base == 'operator=='      # an empty pool: begin() == end(), no traversal is entered
        if base == 'empty' and on == 'm_queue':
            v = self.atom('queue_empty'); return v if v is not None else Unknown('m_queue.empty')
        return super().call_result(ex, n, q, base, on, ov, vals, st, fr)

    def container_empty(self, X):
        return self.atom('pool_empty') if X == 'm_pool' else super().container_empty(X)

    def compare(self, ex, op, l, r, n, st, fr):
        import operator
        OPF = {'<': operator.lt, '<=': operator.le, '>': operator.gt, '>=': operator.ge, '==': operator.eq, '!=': operator.ne}
        if op in ('==', '!=') and isinstance(l, Sym) and isinstance(r, Sym) and {l.name, r.name} == {'m_pool.begin', 'm_pool.end'} and self.atom('pool_empty') is True:
            return op == '=='          # an empty pool: begin() == end(), no traversal is entered
        # the elements of m_pool are the Thread objects start() created with `new` (the only insertion): never null
        for a_, b_ in ((l, r), (r, l)):
            if op in ('==', '!=') and isinstance(a_, Sym) and a_.name.startswith('m_pool.') and a_.name not in ('m_pool.begin', 'm_pool.end') and \
                    ((isinstance(b_, Lin) and b_.is_const() and b_.c == 0) or (isinstance(b_, int) and not isinstance(b_, bool) and b_ == 0)):
                return op == '!='
        ll, rl = as_lin(l), as_lin(r)
        if ll is None or rl is None: return None
        d = ll - rl
        if self.atom('pool_empty') is True and 'poolsize' in d.t:
            d = Lin({k: v for k, v in d.t.items() if k != 'poolsize'}, d.c)         # |pool| = 0 in this row
            if not d.t: return OPF[op](d.c, 0)
        flip = {'<': '>', '>': '<', '<=': '>=', '>=': '<=', '==': '==', '!=': '!='}
        key = None
        if d.t == {'max': 1, 'poolsize': -1} and d.c == 0: key = 'max_vs_size'
        elif d.t == {'max': -1, 'poolsize': 1} and d.c == 0: key = 'max_vs_size'; op = flip[op]
        elif d.t == {'max': 1} and d.c == 0: key = 'max_sign'
        elif d.t == {'max': -1} and d.c == 0: key = 'max_sign'; op = flip[op]
        elif set(d.t) == {'max'} and abs(d.t['max']) == 1 and d.c == -d.t['max'] and self.atom('max_one') is not None and self.atom('max_sign') == '>':
            # max - 1 (or 1 - max) against 0, with max >= 1: decided by whether the maximum is exactly one
            sgn = 0 if self.atom('max_one') else (1 if d.t['max'] == 1 else -1)
            return OPF[op](sgn, 0)
        elif d.t == {'timeout': 1} and d.c == 0: key = 'timeout_sign'
        elif d.t == {'timeout': -1} and d.c == 0: key = 'timeout_sign'; op = flip[op]
        if key is None: return None
        v = self.atom(key)
        if v is None: return None
        return OPF[op]({'<': -1, '=': 0, '>': 1}[v], 0)


TAKES = ('erase', 'pop_front', 'pop_back')
QUEUE_MUT = TAKES + ('push_back', 'emplace_back', 'push_front', 'emplace_front', 'insert', 'emplace', 'clear', 'swap')
NONNULL = ('m_queue.front', 'm_queue.back', 'param:runnable')


class WorkerDomain(TPDomain):
    """the worker body: shared state is re-read per epoch (see TPAnalysis.worker)"""
    correlate_unknowns = True
    loop_unroll = 1

    def volatile(self, path): return path[-1] == 'm_isRunning'

    def epoch(self, st):
        held = {}; last = None; ph = 0; k = 0
        for kind, node, payload in st.events:
            if kind == 'ev':
                e = payload
                if e.kind == 'guard': last = e
                elif e.kind == 'wait-begin' or (e.kind == 'wait' and not isinstance(e.val, Closure)): ph += 1
                elif e.kind == 'mutex.unlock' and held.get(e.obj, e.obj) == 'm_queueMutex': ph += 1
                elif e.kind == 'call' and e.obj == 'm_queue' and e.name.split('::')[-1] in QUEUE_MUT: k += 1
            elif kind == 'decl' and last is not None:
                held[payload[0]] = last.obj; last = None
            elif kind == 'autodtor' and held.get(payload[0]) == 'm_queueMutex': ph += 1
        return ph, k

    def tag_event(self, st, e):
        return self.epoch(st)

    def sync_closures(self, ex, n, st, fr):
        out = super().sync_closures(ex, n, st, fr)
        if out:   # wait(lock, pred): the mutex may have been released; the predicate is evaluated on the state found afterwards
            self.ev(st, Ev('wait-begin', n), fr)
        return out

    def field_value(self, path, node):
        if path[-1] == 'm_isRunning':
            ph, _ = self.epoch(self.ex._st); return Unknown(f'running@{ph}')
        return super().field_value(path, node)

    def call_result(self, ex, n, q, base, on, ov, vals, st, fr):
        if on == 'm_queue':
            ev_ = st.events.pop() if st.events and st.events[-1][0] == 'ev' and st.events[-1][2].node is n else None
            ph, k = self.epoch(st)
            if ev_ is not None: st.events.append(ev_)
            if base == 'empty': return Unknown(f'qempty@{ph}#{k}')
            if base in ('size', 'length'): return Lin.sym(f'qsize@{ph}#{k}')
        return super().call_result(ex, n, q, base, on, ov, vals, st, fr)

    def compare(self, ex, op, l, r, n, st, fr):
        for a, b, o in ((l, r, op), (r, l, {'<': '>', '>': '<', '<=': '>=', '>=': '<=', '==': '==', '!=': '!='}[op])):
            if isinstance(a, Sym) and (a.name in NONNULL or a.name.startswith('new:')) and isinstance(b, Lin) and b.is_const() and b.c == 0 and o in ('==', '!='):
                return o == '!='
            la = as_lin(a)
            if la is not None and isinstance(b, Lin) and b.is_const() and b.c == 0 and len(la.t) == 1 and la.c == 0:
                (sym, coef), = la.t.items()
                if sym.startswith('qsize@') and coef == 1:
                    tag = 'qempty@' + sym[6:]
                    if o in ('>', '!='): return Unknown(('not', tag))
                    if o in ('==', '<='): return Unknown(tag)
                    if o == '>=': return True
                    if o == '<': return False
        v = super().compare(ex, op, l, r, n, st, fr)
        if v is None:
            ph, k = self.epoch(st)
            return Unknown(('cmp', op, repr(l), repr(r), f'@{ph}#{k}'))     # epoch-specific: clocks and shared state move on
        return v

    def decide(self, ex, cond, value, st, fr):
        if isinstance(value, Sym) and (value.name in NONNULL or value.name.startswith('new:')): return True
        return super().decide(ex, cond, value, st, fr)


def evs(path_evs, kind=None, name=None, obj=None):
    return [e for e in path_evs if (kind is None or e.kind == kind) and (name is None or e.name == name or e.name.endswith('::' + name)) and (obj is None or e.obj == obj)]


def is_call(e, base, obj=None):
    return e.kind == 'call' and e.name.split('::')[-1] == base and (obj is None or e.obj == obj)


class TPAnalysis:
    def __init__(self, facts, rep):
        self.facts = facts; self.rep = rep; self.res = {}
        self.fn = {}; self.pred = None
        for name in ('start', 'clear', 'stop', 'update'):
            c = [f for f in facts.by_name.get(f'{TP}::{name}', []) if not f.d.get('instantiation')]
            if not c: rep.anchor_missing(f'{TP}::{name}', 'function not found'); continue
            self.fn[name] = c[0]
        r = facts.fn('tulz::PooledRunnable::run')
        if r is None: rep.anchor_missing('tulz::PooledRunnable::run', 'worker loop not found')
        self.fn['run'] = r
        ts = [f for f in facts.by_name.get('tulz::Thread::start', []) if not f.d.get('instantiation')]
        if not ts: rep.anchor_missing('tulz::Thread::start(Runnable*)', 'not found')
        self.fn['tstart'] = ts[0] if ts else None
        c = facts.cls(TP)
        if c is None: rep.anchor_missing(TP, 'class not found')
        else:
            have = {f['name'] for f in c['fields']}
            for s in ('m_pool', 'm_queue', 'm_condition', 'm_isRunning', 'm_poolMutex', 'm_queueMutex', 'm_maxThreadCount'):
                if s not in have: rep.anchor_missing(f'{TP}::{s}', 'field not found (re-designed pool: rules do not apply)')

    def add(self, rule, ok, inst, site, why=''):
        if ok is not None: ok = bool(ok)
        self.res.setdefault(rule, []).append((ok, inst, site, why))

    # ---- TP.2 / TP.9 (lockset) -----------------------------------------------------------------------------------------
    def locks(self):
        eng = Engine(self.facts, max_depth=8)
        for f in self.facts.fns:
            if f.d.get('class') == TP and f.d.get('access') == 'public' and not f.d.get('ctor') and not f.d.get('dtor') and not f.d.get('lambda'):
                if f.qname.split('::')[-1] in ('setExpiryTimeout', 'setMaxThreadCount'): continue
                eng.run_root(f, 'owner')
        import lockset
        done = set()
        while True:
            pend = [t for t in eng.thread_roots if (t[0].loc, tuple(t[3])) not in done]
            if not pend: break
            for lf, env, this, chain, lam in pend:
                done.add((lf.loc, tuple(chain)))
                wenv = lockset.Env({c['decl']: ('cap', c['var']) for c in lam.captures or [] if 'decl' in c})
                wenv.clos = dict(getattr(env, 'clos', {}) or {})
                eng._run(lockset.Frame(lf, wenv, ('this',), ['<thread>'], 0), frozenset(), ('worker', lf.shortloc()))
        q = [a for a in eng.accesses if a.cls == TP and a.field == 'm_queue' and not a.ctor_obj]
        bad = [a for a in q if not any(t[1] == 'm_queueMutex' and t[3] == 'own' for t in protecting(a))]
        self.add('TP.2', not bad and len(q) >= 4, f'm_queue: {len(q)} accesses under m_queueMutex', q[0].site if q else '',
                 '' if not bad else f'{bad[0].mode} access to the task queue at {bad[0].site} in {bad[0].fn} without m_queueMutex: two workers can take the same task / a task is destroyed while being taken')
        p = [a for a in eng.accesses if a.cls == TP and a.field == 'm_pool' and not a.ctor_obj]
        badp = [a for a in p if not any(t[1] == 'm_poolMutex' and t[3] == 'own' for t in protecting(a)) and a.root[0] != 'owner']
        self.add('TP.2', not badp, f'm_pool: {len(p)} accesses (owner thread only, under m_poolMutex where shared)', p[0].site if p else '', '' if not badp else f'{badp[0].site}: worker touches m_pool without m_poolMutex')
        # TP.9 lock order acyclic over the pool's two mutexes
        edges = {(a[1], b[1]) for a, b, s in eng.lock_order if a[1] != b[1]}
        cyc = [(a, b) for (a, b) in edges if (b, a) in edges]
        self.add('TP.9', not cyc, f'lock-order graph {sorted(edges) or "has no nested acquisition"} is acyclic', self.fn['start'].shortloc() if 'start' in self.fn else '',
                 '' if not cyc else f'{cyc[0][0]} and {cyc[0][1]} are acquired in both orders: deadlock between owner and worker')
        re = [r for r in eng.reacquire]
        self.add('TP.9', not re, 'no mutex re-acquired while held', re[0][1] if re else '', '' if not re else f'{re[0][0][2]} acquired while already held (self-deadlock) via {" > ".join(re[0][2][-3:])}')
        self.n_access = len(eng.accesses)
        # user code under the pool's locks: a callable member (a callback option) invoked while m_queueMutex / m_poolMutex is held can call back
        # into the pool, whose every operation takes these non-recursive mutexes
        c_ = self.facts.cls(TP) or {'fields': []}
        fn_fields = {x['name'] for x in c_['fields'] if 'std::function<' in (x.get('ctype') or '')}
        seen_cb = set()
        for a in eng.accesses:
            if a.cls != TP or a.field not in fn_fields or a.node is None: continue
            held = sorted({t[2] for t in a.locks if t[2] in ('m_queueMutex', 'm_poolMutex')})
            g = next((h for h in self.facts.fns if h.name == a.fn), None)
            if g is None: continue
            pm = common.parent_map(g); x = a.node; par = pm.get(x.id)
            while par is not None and par.k in ('cast', 'paren', 'materialize'): x = par; par = pm.get(x.id)
            called = par is not None and par.k == 'call' and (par.d.get('ck') == 'op' or 'operator()' in (par.calleeq or '')) and '()' in (par.d.get('op') or par.calleeq or '')
            if not called or a.site in seen_cb: continue
            seen_cb.add(a.site)
            self.add('TP.9', not held, f'the callback `{a.field}` is invoked with none of the pool\'s mutexes held', a.site,
                     '' if not held else f'`{a.field}` (user code) is called at {a.site} while {", ".join(held)} is held: a callback that uses the pool (start(), clear(), …) locks the same non-recursive mutex again — '
                     'the thread blocks for ever while owning it, every other operation on the pool blocks behind it and stop() never returns')

    # ---- worker loop: TP.1, TP.3 (take end), TP.7 -------------------------------------------------------------------------
    def worker(self):
        """Every path of the worker body, with the shared state re-read in every *epoch*: an epoch ends where the worker
        gives up m_queueMutex (a wait, the end of a guard's scope, unlock) or changes the queue.  The stop flag and the
        emptiness of the queue are free per epoch; what a path learnt about them (branches taken, wait predicate true) is
        kept in P.assumed.  The rules read: what is known in the epoch of each removal / each blocking wait."""
        f = self.fn.get('run')
        if f is None: return
        site = f.shortloc()
        c_ = self.facts.cls(TP) or {'fields': []}
        TPDomain.extra_names = tuple(f_['name'] for f_ in c_['fields'] if f_['name'] not in TP_FIELDS and not f_.get('isptr') and ((f_.get('ctype') or '') in INTEGRAL_T or (f_.get('ctype') or '') == 'bool' or f_.get('atomic')))
        dom = WorkerDomain()
        res = run_paths(self.facts, f, dom, this_path=('this',))
        self.n_worker_rows = len(res)
        seen = set()

        def once(rule, ok, inst, site_, why=''):
            k = (rule, ok, inst, why)
            if k in seen: return
            seen.add(k); self.add(rule, ok, inst, site_, why)
        n_take = n_wait = 0
        self._exit_effects(res)
        for P, E in res:
            A = P.assumed
            for i, e in enumerate(E):
                if e.kind == 'wait':
                    n_wait += 1
                    once('TP.7', 'm_queueMutex' in e.locks and e.obj == 'm_condition', 'the worker waits on m_condition with m_queueMutex held', e.site,
                         '' if 'm_queueMutex' in e.locks else 'wait without the queue mutex')
                    if isinstance(e.val, Closure):
                        if self.pred is None: self.pred = e.val
                        continue
                    # loop form: the worker blocks here.  It must have seen, in this critical section, the flag still set
                    # and the queue empty (stop() and start() change both under the same mutex and notify afterwards)
                    ph, k = e.tag
                    r = A.get(f'running@{ph}'); q = A.get(f'qempty@{ph}#{k}')
                    okr = r is True
                    once('TP.7', okr, 'loop-form wait: the worker blocks only after it saw the run flag set in the same critical section', e.site,
                         '' if okr else ('the worker blocks although the stop flag is set' if r is False else 'the worker blocks without having looked at the stop flag since it took the mutex') + ': an idle worker never leaves the wait and stop() blocks in join()')
                    okq = q is True
                    once('TP.7', okq, 'loop-form wait: the worker blocks only when it saw the queue empty in the same critical section', e.site,
                         '' if okq else 'the worker blocks although a task is queued (or without looking): a queued task does not wake the worker')
                if not (e.kind == 'call' and e.obj == 'm_queue' and e.name.split('::')[-1] in TAKES): continue
                n_take += 1
                ph, k = e.tag
                r = A.get(f'running@{ph}'); q = A.get(f'qempty@{ph}#{k}')
                others = [t for t in A if isinstance(t, tuple) and t and t[0] == 'cmp' and f'@{ph}#{k}' in repr(t)]
                ok = 'm_queueMutex' in e.locks
                once('TP.1', ok, 'a task is removed from the queue only under m_queueMutex', e.site, '' if ok else 'the task is removed without the queue mutex: a task is dropped, taken twice, or still queued while it runs')
                if r is True: once('TP.7', True, 'a task is taken only in a critical section in which the run flag was seen set', e.site)
                else:
                    once('TP.7', False, 'a task is taken only in a critical section in which the run flag was seen set', e.site,
                         ('after the wait, with the stop flag set, the worker takes a task' if r is False else 'the worker takes a task without having looked at the stop flag since it took the mutex') + ': a task starts after stop()')
                if q is False: once('TP.1', True, 'a task is taken only when the queue was seen non-empty in the same critical section', e.site)
                elif q is True or not others: once('TP.1', False, 'a task is taken only when the queue was seen non-empty in the same critical section', e.site, 'takes from an empty queue' if q is True else 'takes from the queue without having checked that it is not empty')
                else: once('TP.1', None, 'a task is taken only when the queue was seen non-empty in the same critical section', e.site, f'emptiness test not recognised: {others[0]}')
                # take -> run -> delete on the rest of this iteration (up to the next take or the end of the path)
                j = next((x for x in range(i + 1, len(E)) if E[x].kind == 'call' and E[x].obj == 'm_queue' and E[x].name.split('::')[-1] in TAKES), len(E))
                it = E[i:j]
                if P.end == 'loop' and j == len(E) and not evs(it, 'delete') and not evs(it, 'run'): continue      # cut by the unroll bound before the iteration finished
                b = e.name.split('::')[-1]
                front_ok = bool(b == 'pop_front' or (b == 'erase' and e.args and isinstance(e.args[0], Sym) and e.args[0].name.endswith('.begin')))
                back = b == 'pop_back'
                if front_ok or back or b != 'erase':
                    once('TP.3', front_ok, 'the task is taken from the front of the queue', e.site, '' if front_ok else f'removes {e.args[0] if e.args else "the back"}: tasks do not run in submission order with one worker')
                else:
                    once('TP.3', None if not (e.args and isinstance(e.args[0], Sym) and e.args[0].name.endswith('.end')) else False, 'the task is taken from the front of the queue', e.site, f'erase position {e.args[0] if e.args else "?"} not recognised')
                taken = 'm_queue.back' if back else 'm_queue.front'
                runs = evs(it, 'run'); dels = evs(it, 'delete')
                esc = [x for x in it if x.kind == 'escape']
                ok_run = len(runs) == 1 and isinstance(runs[0].val, Sym) and runs[0].val.name == taken
                why = ''
                if len(runs) != 1: why = f'{len(runs)} run() calls for one taken task'
                elif not ok_run: why = f'run() is called on {runs[0].val}, not on the task that was removed from the queue ({taken})'
                if P.end == 'loop' and j == len(E) and len(runs) == 0: continue
                once('TP.1', ok_run, 'the taken task is run exactly once, after it left the queue', runs[0].site if runs else e.site, why)
                if not runs: continue
                if P.end == 'loop' and j == len(E) and not dels: continue
                ok_del = len(dels) == 1 and it.index(dels[0]) > it.index(runs[0]) and isinstance(dels[0].val, Sym) and dels[0].val.name == taken
                why = ''
                if len(dels) != 1: why = f'{len(dels)} delete(s) of the task per iteration: ' + ('leaked' if not dels else 'destroyed twice')
                elif it.index(dels[0]) < it.index(runs[0]): why = 'the task is destroyed before it runs'
                elif not ok_del: why = f'deletes {dels[0].val}, not the task that ran'
                once('TP.1', ok_del if not (esc and not ok_del) else None, 'the task is destroyed exactly once, after run() returned', dels[0].site if dels else e.site, why)
            # a task must not run while it is still queued
            for i, e in enumerate(E):
                if e.kind == 'run' and isinstance(e.val, Sym) and e.val.name in ('m_queue.front', 'm_queue.back'):
                    prev = [x for x in E[:i] if x.kind == 'call' and x.obj == 'm_queue' and x.name.split('::')[-1] in TAKES]
                    okp = bool(prev)
                    once('TP.1', okp, 'a task runs only after it left the queue', e.site, '' if okp else 'the task runs while it is still in the queue (another worker can take it too)')
        if n_take == 0: self.add('TP.1', None, 'worker loop', site, 'no removal from m_queue found on any path of the worker body')
        if n_wait == 0: self.add('TP.7', None, 'worker loop', site, 'the worker never waits on the condition variable')
        # predicate form of the wait: true whenever the flag is cleared, true whenever a task is queued
        if self.pred is None or self.pred.fn is None: return
        for running, qe in ((False, True), (False, False), (True, False)):
            dom = TPDomain(dict(running=running, queue_empty=qe)); ex = Exec(self.facts, dom)
            vals = {P.ret if isinstance(P.ret, bool) else repr(P.ret) for P in ex.run_closure(self.pred, this_path=('this',))}
            ok = vals == {True}
            if not running:
                self.add('TP.7', ok, f'wait predicate with the stop flag set (queue empty={qe}) = {sorted(map(str, vals))}', self.pred.fn.shortloc(),
                         '' if ok else 'the predicate does not become true when the pool is stopped: an idle worker never leaves the wait and stop() blocks in join()')
            else:
                self.add('TP.7', ok, f'wait predicate with a queued task = {sorted(map(str, vals))}', self.pred.fn.shortloc(), '' if ok else 'a queued task does not wake the worker')

    def _iterations(self, E):
        """split a worker path into loop iterations at each wait"""
        idx = [i for i, e in enumerate(E) if e.kind == 'wait']
        out = []
        for k, i in enumerate(idx):
            j = idx[k + 1] if k + 1 < len(idx) else len(E)
            out.append(E[i:j])
        return out

    # ---- Thread::start(Runnable*) -----------------------------------------------------------------------------------------
    def thread_start(self):
        f = self.fn.get('tstart')
        if f is None: return
        res = run_paths(self.facts, f, EvDomain())
        for P, E in res:
            th = evs(E, 'thread')
            ok = len(th) == 1 and isinstance(th[0].val, Closure)
            self.add('TP.1', ok, 'Thread::start(Runnable*) creates exactly one thread running a closure', f.shortloc(), '' if ok else f'{len(th)} thread constructions')
            if not ok: continue
            clo = th[0].val
            ex = Exec(self.facts, EvDomain())
            from evdom import _flatten
            from symex import State as _State
            st0 = _State(); st0.store = {k_: v_ for k_, v_ in P.store.items() if k_[0] == 'f'}          # members start() filled in before it created the thread
            for BP in ex.run_closure(clo, this_path=('this',), state=st0):
                B = _flatten(BP)
                runs = evs(B, 'run'); dels = evs(B, 'delete')
                okb = len(runs) == 1 and len(dels) == 1 and B.index(dels[0]) > B.index(runs[0]) and repr(runs[0].val) == repr(dels[0].val)
                why = ''
                if not okb: why = f'thread body: {len(runs)} run() call(s), {len(dels)} delete(s)' + ('' if len(runs) != 1 or len(dels) != 1 else (', delete before run' if B.index(dels[0]) < B.index(runs[0]) else f', run on {runs[0].val} but delete of {dels[0].val}'))
                self.add('TP.1', okb, 'thread body: runnable->run() once, then delete runnable once', clo.fn.shortloc(), why)
                # the completion state, by use: the member Thread::isFinished() reads; what the body stores there after run() must make
                # isFinished() true (whatever the representation: a bool, an enumeration, a counter)
                isf = self.facts.fn('tulz::Thread::isFinished')
                flds = sorted({x.name for x in isf.nodes() if x.k == 'member' and x.field and x.d.get('class') == 'tulz::Thread'}) if isf is not None else []
                if len(flds) != 1:
                    self.add('TP.1', None, 'thread body: the finished flag is set after run() returned', clo.fn.shortloc(), f'Thread::isFinished() reads {flds or "no member"}: the completion state is not recognised'); continue
                flag = flds[0]
                fin = [e for e in B if e.kind == 'write' and e.obj == flag]
                okf = bool(fin) and bool(runs) and B.index(fin[0]) > B.index(runs[0])
                why = '' if okf else 'finished flag missing or set before the task ran (update() would reap a running worker)'
                if okf:
                    class _Flag(EvDomain):
                        def field_value(s_, path, node, _v=fin[-1].val): return _v if path[-1] == flag else None
                    rets = {repr(P2.ret) for P2, _ in run_paths(self.facts, isf, _Flag())}
                    if rets != {'True'}:
                        okf = False if rets == {'False'} else None
                        why = f'after the body stored {fin[-1].val} into {flag}, isFinished() returns {sorted(rets)}' + (': the finished worker is never reaped, join() is never reached' if okf is False else ': not followed')
                self.add('TP.1', okf, 'thread body: the finished flag is set after run() returned', fin[0].site if fin else clo.fn.shortloc(), why)

    def _exit_effects(self, res):
        """net effect of one worker, from thread start to thread end, on every integral / bool field of the pool the rules do not
        model themselves: {field: {'stop': set of effects, 'expiry': …, 'loop': …}}; an effect is ('add', d) | ('set', const) | None"""
        c = self.facts.cls(TP) or {'fields': []}
        known = {'m_pool', 'm_queue', 'm_condition', 'm_isRunning', 'm_poolMutex', 'm_queueMutex', 'm_maxThreadCount', 'm_expiryTimeout'}
        self.extra = {f_['name']: f_ for f_ in c['fields'] if f_['name'] not in known and not f_.get('isptr') and ((f_.get('ctype') or '') in INTEGRAL_T or (f_.get('ctype') or '') == 'bool' or f_.get('atomic'))}
        TPDomain.extra_names = tuple(self.extra)
        self.effects = {x: {'stop': set(), 'expiry': set(), 'loop': set()} for x in self.extra}
        self.effect_site = {}
        for P, E in res:
            if P.end not in ('exit', 'return', 'loop'): continue
            A = P.assumed
            phs = [int(k_[8:]) for k_ in A if isinstance(k_, str) and k_.startswith('running@') and k_[8:].isdigit()]
            why = 'loop' if P.end == 'loop' else ('stop' if phs and A.get(f'running@{max(phs)}') is False else 'expiry')
            for x in self.extra:
                ws = [e for e in E if e.kind == 'write' and e.obj == x]
                if not ws: eff = ('add', 0)
                else:
                    v = ws[-1].val; lv = as_lin(v) if isinstance(v, (Lin, int, bool)) else None
                    if lv is not None and lv.is_const(): eff = ('set', lv.c)
                    elif lv is not None and lv.t == {x: 1}: eff = ('add', lv.c)
                    else: eff = None
                    if why != 'loop' and eff not in (('add', 0),) and (x, why) not in self.effect_site:
                        rets = [e for e in E if e.kind == 'return']
                        self.effect_site[(x, why)] = (ws[-1].site, rets[-1].site if rets else '')
                self.effects[x][why].add(eff)

    def _restart_rows(self):
        """[(row text, atoms, field values, notes)] for the states in which the pool has no worker: freshly constructed, every worker
        expired, and after stop().  The values of the integral pool fields the rules do not model are obtained by following the
        history on them: constructor -> start() (the path that creates the worker) -> the worker's way out (its net effect, from the
        evaluated worker paths) -> stop() (what it writes itself)."""
        rows = []
        init = {}
        ct = [g for g in self.facts.fns if g.d.get('class') == TP and g.d.get('ctor') and not g.d.get('copy') and not g.d.get('move')]
        for g in ct[:1]:
            for P, E in run_paths(self.facts, g, TPDomain({})):
                for e in E:
                    if e.kind == 'write' and e.obj in self.extra:
                        lv = as_lin(e.val) if isinstance(e.val, (Lin, int, bool)) else None
                        init[e.obj] = lv if lv is not None and lv.is_const() else None
        for x, fd in self.extra.items():
            # in-class initialiser `T x {c};` (no constructor write)
            if x not in init and fd.get('init_const') is not None: init[x] = Lin.const(int(fd['init_const']))

        def worker_effect(state, why, k, notes):
            out = dict(state)
            for x in self.extra:
                effs = self.effects[x][why] | (self.effects[x]['loop'] - {('add', 0)})
                if effs <= {('add', 0)}: continue
                if len(effs) == 1 and None not in effs:
                    kind, d = next(iter(effs))
                    v = Lin.const(d) if kind == 'set' else (state[x] + Lin.const(d * k) if state.get(x) is not None else None)
                    if v is not None and v != state.get(x): notes.append((x, f'a worker that leaves through the {why} exit (return at {self.effect_site.get((x, why), ("", "?"))[1]}) leaves its write at {self.effect_site.get((x, why), ("?", ""))[0]} in place', v))
                    out[x] = v
                else: out[x] = None
            return out

        def owner_effect(fname, atoms, state, notes, only_spawning=False, only=None):
            """what one call of an owner-side function does to the extra fields (final values must agree over its normal paths)"""
            g = self.fn.get(fname)
            if g is None or not self.extra: return dict(state)
            dom = TPDomain(atoms); dom.fields = {x: v for x, v in state.items() if v is not None}
            finals = {x: set() for x in self.extra}; sites = {}
            for P, E in run_paths(self.facts, g, dom):
                if P.end in ('throw', 'noreturn'): continue
                if only_spawning and not evs(E, 'thread'): continue
                if only is not None and not only(E): continue
                for x in self.extra:
                    ws = [e for e in E if e.kind == 'write' and e.obj == x]
                    if not ws: finals[x].add(('same',)); continue
                    v = ws[-1].val; lv = as_lin(v) if isinstance(v, (Lin, int, bool)) else None
                    finals[x].add(('val', lv.c) if lv is not None and lv.is_const() else ('unknown',)); sites[x] = ws[-1].site
            out = dict(state)
            for x, fs in finals.items():
                if not fs or fs == {('same',)}: continue
                if len(fs) == 1 and next(iter(fs))[0] == 'val':
                    v = Lin.const(next(iter(fs))[1])
                    if v != state.get(x): notes.append((x, f'{fname}() leaves it at {v} ({sites.get(x, "")})', v))
                    out[x] = v
                elif all(f_[0] == 'val' for f_ in fs) and len(fs) <= 3:
                    # several outcomes, each a constant (e.g. "the pool is now full" yes / no): every one of them is a state to go on from
                    out[x] = None
                    alts.setdefault(x, []).extend((Lin.const(f_[1]), f'{fname}() can leave it at {f_[1]} ({sites.get(x, "")})') for f_ in sorted(fs))
                else: out[x] = None
            return out

        alts = {}
        fresh = {x: init.get(x) for x in self.extra}
        rows.append(('a freshly constructed pool', dict(running=True), {x: v for x, v in fresh.items() if v is not None}, []))
        seen_rows = set()
        for max_one in (False, True):
          started_notes = []
          started = owner_effect('start', dict(pool_empty=True, queue0_empty=True, max_vs_size='>', max_sign='>', running=True, max_one=max_one), fresh, started_notes, only_spawning=True)
          tag = ' (maximum thread count 1: the first worker fills the pool)' if max_one else ''
          n1 = list(started_notes)
          exp = worker_effect(started, 'expiry', 1, n1)
          # ... or stop() finds the expired worker still in the pool, joins and deletes it
          n3 = list(n1)
          st3 = owner_effect('stop', dict(timeout_sign='<'), exp, n3)
          n3 = [nt for nt in n3 if st3.get(nt[0]) != fresh.get(nt[0])]
          key_ = ('expstop', tuple(sorted((x, repr(v)) for x, v in st3.items())))
          if n3 and key_ not in seen_rows and any(st3.get(x) != fresh.get(x) for x in self.extra):
              seen_rows.add(key_); rows.append(('after the only worker expired and stop() removed it' + tag, dict(running=False, max_one=max_one), {x: v for x, v in st3.items() if v is not None}, n3))
          # the pool is empty again only once update() has reaped the finished worker: what update() writes on the path that removes it
          reaps = lambda E_: any(e.kind == 'call' and e.obj == 'm_pool' and e.name.split('::')[-1] in ('erase', 'remove_if', 'erase_if', 'pop_front', 'pop_back', 'clear', 'remove') for e in E_) or any(e.kind == 'call' and strip_targs(e.name) in ('std::erase_if', 'std::erase') for e in E_)
          if self.fn.get('update') is not None:
              exp = owner_effect('update', dict(timeout_sign='>', pool_empty=False, running=True), exp, n1, only=reaps)
          if any(exp.get(x) != fresh.get(x) for x in self.extra) and any(nt[0] for nt in n1[len(started_notes):]):
              key_ = ('exp', tuple(sorted((x, repr(v)) for x, v in exp.items())))
              if key_ not in seen_rows:
                  seen_rows.add(key_); rows.append(('after the only worker expired' + tag, dict(running=True, max_one=max_one), {x: v for x, v in exp.items() if v is not None}, n1))
          n2 = list(started_notes)
          st = worker_effect(started, 'stop', 1, n2)
          st = owner_effect('stop', dict(timeout_sign='<'), st, n2)
          n2 = [nt for nt in n2 if st.get(nt[0]) != fresh.get(nt[0])]          # only what makes the restart state differ from a fresh pool
          key_ = ('stop', tuple(sorted((x, repr(v)) for x, v in st.items())))
          if key_ in seen_rows: continue
          seen_rows.add(key_)
          rows.append(('after start(); stop()' + tag, dict(running=False, max_one=max_one), {x: v for x, v in st.items() if v is not None}, n2))
        # a member that start() can leave at one of several constants and that neither the leaving worker nor stop() writes afterwards:
        # one restart row per value
        for x, vs in alts.items():
            if st.get(x) is not None: continue
            for v_, how in vs:
                if v_ == fresh.get(x): continue
                rows.append((f'after start(); stop() — {how}', dict(running=False), dict({y: w for y, w in st.items() if w is not None}, **{x: v_}), n2 + [(x, how + '; neither the leaving worker nor stop() writes it afterwards', v_)]))
        return rows

    # ---- start(): TP.3 (insert end), TP.5, TP.8, TP.10 -----------------------------------------------------------------------
    def start(self):
        f = self.fn.get('start')
        if f is None: return
        site = f.shortloc()
        n = 0
        for ord_, neg, running in itertools.product('<=>', [False, True], [True, False]):
            if neg and ord_ != '<': continue
            dom = TPDomain(dict(max_vs_size=ord_, max_sign='<' if neg else '>', running=running))
            res = run_paths(self.facts, f, dom)
            row = f'(max {ord_} |pool|, max<0={neg}, flag={running})'
            n += 1
            for P, E in res:
                enq = [e for e in E if e.kind == 'call' and e.obj == 'm_queue' and e.name.split('::')[-1] in ('emplace_back', 'push_back', 'emplace_front', 'push_front', 'insert', 'emplace')]
                ok = len(enq) == 1 and enq[0].name.split('::')[-1] in ('emplace_back', 'push_back') and 'm_queueMutex' in enq[0].locks \
                    and enq[0].args and isinstance(enq[0].args[0], Sym) and enq[0].args[0].name == 'param:runnable'
                why = ''
                if len(enq) != 1: why = f'{len(enq)} insertions into the queue on this path: the task is ' + ('dropped (never run, never destroyed)' if not enq else 'queued twice (run and destroyed twice)')
                elif enq[0].name.split('::')[-1] not in ('emplace_back', 'push_back'): why = f'{enq[0].name.split("::")[-1]}: not FIFO'
                elif 'm_queueMutex' not in enq[0].locks: why = 'insertion without m_queueMutex'
                elif not ok: why = f'inserts {enq[0].args[0] if enq[0].args else "?"}, not the submitted task'
                self.add('TP.5', ok, f'row {row}: start() appends the submitted task at the back of the queue exactly once, under m_queueMutex', enq[0].site if enq else site, why)
                th = evs(E, 'thread')
                may = ord_ == '>' or neg
                if th:
                    def _leaf(c_):
                        while c_ is not None and c_.k in ('cast', 'paren') and c_.n('sub') is not None: c_ = c_.n('sub')
                        return c_ is not None and not (c_.k == 'binop' and c_.op in ('&&', '||'))
                    forks8 = [c for c, val, how in P.decisions if how == 'fork' and _leaf(c) and any((y.k == 'member' and y.name == 'm_maxThreadCount') or (y.k == 'call' and (y.calleeq or '').endswith('::getMaxThreadCount')) for y in c.walk())]
                    if not may and forks8:
                        self.add('TP.8', None, f'row {row}: a worker thread is created', th[0].site, f'the spawn depends on `{forks8[0].text()[:70]}`, which is not a comparison of the maximum with the size of m_pool: whether the bound is respected is not followed')
                    else:
                        self.add('TP.8', may, f'row {row}: a worker thread is created', th[0].site,
                                 '' if may else f'a worker is spawned although the pool already has max threads: {row}')
                    inpool = 'm_poolMutex' in th[0].locks
                    ti = E.index(th[0])
                    rel = next((i for i in range(ti, len(E)) if E[i].kind == 'release' and E[i].obj == 'm_poolMutex'), len(E))
                    adds = [e for e in E[:rel] if e.kind == 'call' and e.obj == 'm_pool' and e.name.split('::')[-1] in ('emplace_back', 'push_back', 'emplace_front', 'push_front')]
                    news = [e for e in E if e.kind == 'new' and 'PooledThread' in e.name]
                    ok8 = inpool and len(adds) == 1 and len(news) == 1 and adds[0].args and repr(adds[0].args[0]).startswith('$new:') and 'PooledThread' in repr(adds[0].args[0])
                    self.add('TP.8', ok8, f'row {row}: the new worker is recorded in m_pool in the same m_poolMutex critical section', th[0].site,
                             '' if ok8 else ('spawn outside m_poolMutex' if not inpool else f'{len(adds)} insertion(s) into m_pool for the new thread: stop() would not join it / getThreadCount() is wrong'))
                    # TP.10: the flag is true when the worker can first look at it
                    if not running:
                        ws = [e for e in E[:ti] if e.kind == 'write' and e.obj == 'm_isRunning' and e.val is True]
                        self.add('TP.10', bool(ws), f'row {row}: the run flag is re-armed before the new worker is created', th[0].site,
                                 '' if ws else 'after stop(), start() creates the worker before it sets m_isRunning again: the worker can see the pool as stopped and exit, the task stays queued forever')
                if not running:
                    ws = [e for e in E if e.kind == 'write' and e.obj == 'm_isRunning' and e.val is True]
                    self.add('TP.10', bool(ws), f'row {row}: start() re-arms a stopped pool', ws[0].site if ws else site, '' if ws else 'start() after stop() leaves the pool stopped')
                notif = [e for e in E if e.kind in ('notify_one', 'notify_all')]
                okn = bool(notif) and bool(enq) and E.index(notif[-1]) > E.index(enq[0])
                xf = common.extra_field_fork(P, 'tulz::ThreadPool', TP_FIELDS)
                if not okn and xf is not None:
                    # where was the member sampled?  "nobody is waiting" can only be concluded in the critical section that publishes the task:
                    # a worker that goes to sleep between an earlier sample and the push is never woken
                    def mentions_extra(nd):
                        return nd is not None and any(x.k == 'member' and x.field and (x.d.get('class') or '') == TP and x.name not in TP_FIELDS for x in nd.walk())
                    reads_ = [i for i, e in enumerate(E) if e.node is not None and e.kind in ('decl', 'call', 'branch', 'write') and mentions_extra(e.node)]
                    qi = E.index(enq[0]) if enq else None
                    acq_ = max((i for i, e in enumerate(E) if e.kind == 'acquire' and e.obj == 'm_queueMutex' and qi is not None and i < qi), default=None)
                    rel_ = min((i for i, e in enumerate(E) if e.kind == 'release' and e.obj == 'm_queueMutex' and qi is not None and i > qi), default=len(E))
                    if reads_ and acq_ is not None and reads_[0] < acq_:
                        self.add('TP.5', False, f'row {row}: a worker is notified after the task is queued', E[reads_[0]].site,
                                 f'whether to notify is decided from `{(xf.text() or "")[:40]}`, sampled at {E[reads_[0]].site} before m_queueMutex is taken for the push: a worker that finds the queue empty and goes to sleep between the sample and the push '
                                 'is never woken, the task stays queued (lost wake-up)')
                    else:
                        self.add('TP.5', None, f'row {row}: a worker is notified after the task is queued', xf.shortloc(), f'the notification is skipped on a test of `{(xf.text() or "")[:50]}`, a member outside the pool tables (whether "nobody is waiting" follows from it is not followed)')
                else:
                    self.add('TP.5', okn, f'row {row}: a worker is notified after the task is queued', notif[-1].site if notif else site, '' if okn else 'no notification after the insertion: an idle worker never sees the task')
        # TP.8b: with no worker at all (a fresh pool, every worker expired, or the first start() after stop() emptied m_pool) the submitted
        # task can only be run by a worker this call creates.  The queue is empty in those states (a worker leaves only when stop() clears it
        # or when it saw it empty); the other integral fields have the value the constructor / the leaving workers gave them.
        for what, atoms, fields, notes in self._restart_rows():
            for neg in (False, True):
                sgn = '<' if neg else '>'
                dom = TPDomain(dict(atoms, pool_empty=True, queue0_empty=True, max_vs_size=sgn, max_sign=sgn)); dom.fields = fields
                row = f'({what}: |pool| = 0, queue empty, max {"< 0" if neg else "> 0"}, flag={atoms["running"]}' + ''.join(f', {x} = {v}' for x, v in sorted(fields.items())) + ')'
                n += 1
                rp = [(P, E) for P, E in run_paths(self.facts, f, dom) if P.end not in ('throw', 'noreturn')]
                none_spawns = bool(rp) and not any(evs(E, 'thread') for P, E in rp)
                for P, E in rp:
                    th = evs(E, 'thread')
                    inst = f'row {row}: with an empty pool start() creates the worker that will run the task'
                    if th: self.add('TP.8', True, inst, th[0].site); continue
                    forks = [c for c, val, how in P.decisions if how == 'fork']
                    if forks and not none_spawns: self.add('TP.8', None, inst, forks[0].shortloc(), f'this path creates no worker; it depends on `{forks[0].text()[:80]}`, whose value in a pool without workers is not followed')
                    else:
                        drift = '; '.join(f'{x} is {fields.get(x)} here: {why}' for x, why, v in notes if x in fields)
                        self.add('TP.8', False, inst, site, f'no worker is created although the pool has none {row}' + (' (whatever the conditions the row leaves open evaluate to)' if forks else '') + ': the task stays queued until some later start() happens to spawn one' + (f' — {drift}' if drift else ''))
        self.n_start_rows = n
        # templated start: every instantiation allocates a TRunnable and hands it to start(Runnable*)
        inst = [g for g in self.facts.by_name_prefix(f'{TP}::start<')] if hasattr(self.facts, 'by_name_prefix') else [g for g in self.facts.fns if g.gname == f'{TP}::start' and g.d.get('instantiation')]
        for g in inst:
            calls = [c for c in g.nodes() if c.k == 'call' and c.calleeq == f'{TP}::start' and c.callee_in_root]
            ok = len(calls) == 1 and calls[0].ns('args') and calls[0].ns('args')[0] is not None and calls[0].ns('args')[0].k == 'new' and 'TRunnable' in (calls[0].ns('args')[0].alloctype or '')
            self.add('TP.5', ok, f'{g.name[:70]}: start(new TRunnable<…>(…))', g.shortloc(), '' if ok else 'templated start does not hand a heap-allocated TRunnable to start(Runnable*)')
        self.n_start_inst = len(inst)

    # ---- clear(): TP.4 ---------------------------------------------------------------------------------------------------------
    def clear(self):
        """the tasks queued on entry (content Q0 of m_queue) are followed through swaps into local containers; every traversal of
        the container that holds Q0 is counted (loop iterations entered on the path, std::for_each = one representative visit)"""
        f = self.fn.get('clear')
        if f is None: return
        conds = loop_conds(self.facts, {f.name})
        seen = set()

        def once(ok, inst, site, why=''):
            k = (ok, inst, why)
            if k in seen: return
            seen.add(k); self.add('TP.4', ok, inst, site, why)
        any_visit = False
        res = run_paths(self.facts, f, TPDomain())
        for running in (True, False):
            for P, E in run_paths(self.facts, f, TPDomain(dict(running=running, queue_empty=False))):
                if P.end not in ('exit', 'return'): continue
                # a non-empty queue: the path must get as far as walking (or handing over) the queue, whatever the run flag says
                from evdom import CONTAINER_TESTS
                reached = any((e.kind == 'branch' and e.node is not None and e.node.id in conds) or e.kind == 'foreach' or
                              (e.kind == 'call' and (e.obj == 'm_queue' or 'm_queue' in (e.argobjs or [])) and e.name.split('::')[-1] in ('clear', 'swap', 'pop_front', 'pop_back', 'erase', 'begin', 'end')) for e in E)
                once(reached, f'clear() row (running={running}, queue non-empty): the queued tasks are reached', f.shortloc(),
                     '' if reached else f'clear() returns without touching a non-empty queue when the run flag is {"set" if running else "cleared"}: ' + ('stop() calls clear() after it cleared the flag, so the tasks still queued at stop() are never destroyed and run after a restart' if not running else 'queued tasks survive clear()'))
        for P, E in res:
            if P.end not in ('exit', 'return'): continue
            holder = 'm_queue'; qcontent = 'Q0'
            visits = {i for i, c in loop_visits(E, conds)}
            vis_cont = dict(loop_visits(E, conds))
            n_vis = n_del = n_rm = 0; cleared = False; touched = set()
            for i, e in enumerate(E):
                if i in visits and vis_cont[i] == holder: n_vis += 1
                if e.kind == 'foreach' and e.obj == holder: n_vis += 1
                if e.kind == 'call':
                    b = e.name.split('::')[-1]
                    pair = None
                    if b == 'swap' and e.obj is not None and e.argobjs: pair = (e.obj, e.argobjs[0])
                    elif e.name == 'std::swap' and len(e.argobjs) == 2: pair = tuple(e.argobjs)
                    if pair and holder in pair:
                        new = pair[0] if pair[1] == holder else pair[1]
                        if holder == 'm_queue': qcontent = 'empty' if new not in touched else 'unknown'
                        elif new == 'm_queue': qcontent = 'Q0'
                        holder = new; continue
                    if e.obj is not None: touched.add(e.obj)
                    if e.obj == holder:
                        if b == 'clear': cleared = True
                        elif b in ('pop_front', 'pop_back', 'erase'): n_rm += 1
                if e.kind == 'delete' and isinstance(e.val, Sym) and e.val.name.startswith(holder + '.'):
                    n_del += 1
                    ok = holder != 'm_queue' or 'm_queueMutex' in e.locks
                    once(ok, 'clear(): a queued task is destroyed only while m_queueMutex is held or after it was removed from the queue under the lock', e.site,
                         '' if ok else 'the task is destroyed outside the lock while it is still in the queue: a worker can take it, run it during its destruction and delete it again')
                if e.kind in ('call',) and holder != 'm_queue' and e.obj == 'm_queue' and 'm_queueMutex' not in e.locks:
                    once(False, 'clear(): m_queue is only touched under m_queueMutex', e.site, 'the queue is modified without the lock')
            if n_vis: any_visit = True
            inst = f'clear(): path visiting {n_vis} queued task(s): {n_del} destroyed, queue emptied'
            if n_del < n_vis: once(False, inst, f.shortloc(), 'queued tasks are removed without being destroyed'); continue
            if n_del > n_vis and n_vis: once(False, inst, f.shortloc(), 'a queued task is destroyed twice'); continue
            if holder == 'm_queue':
                emptied = cleared or n_rm >= max(n_vis, 1) or (n_vis == 0 and n_del == 0)
                once(True if emptied else False, inst, f.shortloc(), '' if emptied else 'the queue still holds pointers to destroyed tasks')
            else:
                once(True if qcontent == 'empty' else None, inst, f.shortloc(), '' if qcontent == 'empty' else f'm_queue receives the content of {holder}, which is not known to be empty')
        if not any_visit: self.add('TP.4', None, 'clear()', f.shortloc(), 'no traversal of the queued tasks recognised')

    def other_queue_members(self):
        """TP.4 for every other public member of the pool that takes tasks out of the queue or destroys queued tasks (a `cancel`, a
        `drop`, a `clearPending`): a task that is destroyed leaves the queue on the same path (else a worker runs a destroyed
        object); a task that leaves the queue without being run or destroyed is in nobody's hands the rules follow"""
        role = {f.name for f in self.fn.values() if f is not None}
        for g in self.facts.fns:
            if g.d.get('class') != TP or g.d.get('access') != 'public' or g.d.get('ctor') or g.d.get('dtor') or g.d.get('lambda') or g.d.get('instantiation') or g.name in role: continue
            if not any(n.is_field('m_queue', TP) for n in g.nodes() if n.k == 'member'): 
                if not any(n.k == 'call' and n.callee_in_root for n in g.nodes()): continue
            try: res = run_paths(self.facts, g, TPDomain())
            except Exception: continue
            nm = g.qname.split('::')[-1]
            seen = set()
            for P, E in res:
                if P.end not in ('exit', 'return'): continue
                rm = [e for e in E if e.kind == 'call' and e.obj == 'm_queue' and e.name.split('::')[-1] in ('erase', 'pop_front', 'pop_back', 'clear', 'remove', 'remove_if', 'erase_after', 'resize', 'assign', 'swap', 'operator=')]
                rm += [e for e in E if e.kind == 'call' and e.obj is None and e.argobjs and e.argobjs[0] == 'm_queue' and e.name.split('::')[-1] in ('erase_if', 'erase', 'swap')]
                dl = [e for e in E if e.kind == 'delete' and isinstance(e.val, Sym) and e.val.name.startswith('m_queue.')]
                if not rm and not dl: continue
                # clear() reached through this member is judged as clear() itself
                via_clear = 'clear' in self.fn and any(e.kind in ('call', 'enter') and strip_targs(e.name or '') == strip_targs(self.fn['clear'].name) for e in E)
                if via_clear: continue
                inst = f'{nm}(): a queued task it destroys leaves the queue, a task it takes out of the queue is destroyed'
                if dl and not rm: k = (False, inst, dl[0].site, f'{nm}() destroys a queued task and leaves its pointer in m_queue: a worker takes the pointer, runs the destroyed object and deletes it a second time')
                elif rm and not dl and any(e.kind == 'delete' for e in E):
                    # the task that was looked up in the queue (by the caller's pointer) is destroyed.  A removal by position has removed it; a removal
                    # by value removes nothing when a worker has taken the task in the meantime, and whether the delete depends on that is not followed
                    byval = [e for e in rm if e.name.split('::')[-1] in ('remove', 'remove_if', 'erase_if')]
                    k = (True, inst, rm[0].site, '') if not byval else (None, inst, byval[0].site, f'{nm}() removes the task by value (`{byval[0].name.split("::")[-1]}` removes nothing when a worker has already taken it) and deletes it: whether the delete happens only when the task was still queued, in the same critical section, is not followed')
                elif rm and not dl: k = (None, inst, rm[0].site, f'{nm}() takes tasks out of the queue (`{rm[0].name.split("::")[-1]}`) without running or destroying them: who destroys them afterwards is not followed')
                else: k = (True, inst, rm[0].site, '')
                if k in seen: continue
                seen.add(k); self.add('TP.4', *k)
            # ... and the same pairing for the workers: a Thread object that is deleted leaves m_pool on the same path
            seen_p = set()
            for P, E in res:
                if P.end not in ('exit', 'return'): continue
                pdl = [e for e in E if e.kind == 'delete' and isinstance(e.val, Sym) and e.val.name.startswith('m_pool.')]
                prm = [e for e in E if e.kind == 'call' and e.obj == 'm_pool' and e.name.split('::')[-1] in ('erase', 'pop_front', 'pop_back', 'clear', 'remove', 'remove_if', 'erase_after', 'swap', 'operator=')]
                if not pdl: continue
                via_stop = any(e.kind in ('call', 'enter') and strip_targs(e.name or '') in {strip_targs(self.fn[k_].name) for k_ in ('stop', 'update') if k_ in self.fn} for e in E)
                if via_stop: continue
                inst = f'{nm}(): a worker it destroys leaves m_pool'
                kk = (bool(prm), inst, pdl[0].site, '' if prm else f'{nm}() deletes a worker thread and returns with its pointer still in m_pool (the path leaves before m_pool is emptied): the next stop() / update() / start() '
                      'calls join() / isRunning() on the freed object and deletes it again')
                if kk in seen_p: continue
                seen_p.add(kk); self.add('TP.6c', *kk)

    def _pool_loop_conds(self, f):
        out = set()
        for g in [f]:
            for n in g.nodes():
                if n.k == 'rangefor' and n.n('range') is not None and n.n('range').is_field('m_pool', TP) and n.n('c') is not None: out.add(n.n('c').id)
        return out

    # ---- stop(): TP.6 -----------------------------------------------------------------------------------------------------------
    def stop(self):
        f = self.fn.get('stop')
        if f is None: return
        site = f.shortloc()
        seen = set()
        for timeout in ('<', '>'):
            dom = TPDomain(dict(timeout_sign=timeout))
            res = run_paths(self.facts, f, dom)
            # loops of the pool's member functions and of the file-local helpers of its translation unit (a `joinAndDeleteAll(std::list<Thread*>&)`)
            tu_files = {g.file for g in self.facts.fns if g.d.get('class') == TP and (g.file or '').endswith('.cpp')}
            conds = loop_conds(self.facts, {g.name for g in self.facts.fns if g.d.get('class') == TP or (not g.d.get('class') and not g.d.get('lambda') and g.file in tu_files)})
            for P, E in res:
                if P.end in ('throw', 'noreturn'): continue          # a failed assert / a defensive throw: exception paths are not modelled (§15)
                ws = [e for e in E if e.kind == 'write' and e.obj == 'm_isRunning']
                row = f'(expiry timeout {timeout} 0)'
                def once(rule, ok, inst, site_, why):
                    k = (rule, inst, ok, why)
                    if k in seen: return
                    seen.add(k); self.add(rule, ok, inst, site_, why)
                ok_a = len(ws) >= 1 and ws[0].val is False and 'm_queueMutex' in ws[0].locks
                once('TP.6a', ok_a, 'stop(): the stop flag is cleared with m_queueMutex (the mutex of the workers\' wait) held', ws[0].site if ws else site,
                     '' if ok_a else ('stop() does not clear the run flag' if not ws else 'the flag is written without the mutex the workers wait with (atomic or not): a worker between evaluating its predicate and blocking misses the write and the notification, stop() then blocks in join()'))
                if not ws: continue
                wi = E.index(ws[0])
                na = [e for e in E if e.kind == 'notify_all' and e.obj == 'm_condition']
                acq = max((i for i in range(wi) if E[i].kind == 'acquire' and E[i].obj == 'm_queueMutex'), default=0)
                ok_b = any(E.index(e) > acq for e in na)
                xf = common.extra_field_fork(P, 'tulz::ThreadPool', TP_FIELDS)
                if not ok_b and xf is not None and not any(e.kind == 'notify_one' for e in E):
                    once('TP.6b', None, 'stop(): notify_all() on the workers\' condition after the flag write or inside the same critical section', xf.shortloc(), f'the notification is skipped on a test of `{(xf.text() or "")[:50]}`, a member outside the pool tables: not followed')
                    continue
                once('TP.6b', ok_b, 'stop(): notify_all() on the workers\' condition after the flag write or inside the same critical section', na[0].site if na else site,
                     '' if ok_b else ('notify_one() wakes a single worker; the others never leave the wait' if any(e.kind == 'notify_one' for e in E) else 'no notify_all(): idle workers are never woken'))
                iters = sum(1 for i, c in loop_visits(E, conds) if c == 'm_pool' and i > wi) + sum(1 for e in E[wi:] if e.kind == 'foreach' and e.obj == 'm_pool')
                if iters: self.any_pool_visit = True
                joins = [e for e in E[wi:] if e.kind == 'call' and e.name == 'std::thread::join']
                # `if (t->isJoinable()) t->join()`: an element that reports it is not joinable has no thread of execution left to wait for
                notj = 0
                for c_, val_, how_ in P.decisions:
                    x = c_; want = False
                    while x is not None and x.k in ('cast', 'paren') and x.n('sub') is not None: x = x.n('sub')
                    if x is not None and x.k == 'unop' and x.op == '!': x = x.n('sub'); want = True
                    while x is not None and x.k in ('cast', 'paren') and x.n('sub') is not None: x = x.n('sub')
                    if how_ == 'fork' and x is not None and x.k == 'call' and (x.calleeq or '').split('::')[-1] in ('joinable', 'isJoinable') and val_ is want: notj += 1
                ok_c = len(joins) + notj >= iters and (iters == 0 or bool(joins) or notj >= iters)
                for j_ in joins: self.join_locks = getattr(self, 'join_locks', set()) | set(j_.locks)
                once('TP.6c', ok_c, f'stop() {row}: every worker in m_pool is joined after the flag is cleared ({iters} pool element(s) on this path)', joins[0].site if joins else site,
                     '' if ok_c else f'{iters} worker(s) in m_pool but {len(joins)} join(s) after the stop flag: stop() returns while workers still run tasks')
                clr = [e for e in E[wi:] if e.kind == 'call' and e.obj == 'm_pool' and e.name.split('::')[-1] in ('clear', 'erase', 'pop_front', 'pop_back')]
                emptied = any(c.name.split('::')[-1] == 'clear' for c in clr) or (iters > 0 and len(clr) >= iters) or (iters == 0 and False)
                if iters == 0: emptied = True
                once('TP.6c', emptied, f'stop() {row}: m_pool is emptied after the joins ({iters} element(s) on this path)', clr[0].site if clr else site,
                     '' if emptied else f'm_pool keeps {iters} joined thread(s) on this path: getThreadCount() is not 0 after stop(), a later start() spawns no worker, a second stop() joins a joined thread')
                qclear = [e for e in E if e.kind == 'enter' and e.name == f'{TP}::clear'] or [e for e in E if e.kind == 'call' and e.obj == 'm_queue' and e.name.endswith('::clear')]
                once('TP.6d', bool(qclear), 'stop(): queued tasks are destroyed (clear())', qclear[0].site if qclear else site, '' if qclear else 'tasks still queued at stop() are never destroyed')

    def observers_vs_join(self):
        """TP.9: stop() blocks in join() with some mutexes held; a const observer of the pool (getThreadCount(), isRunning(), …) is what a
        running task can call to look at its pool, so it must not need one of them: the task would wait for stop(), which waits for the task"""
        held = {l for l in getattr(self, 'join_locks', set()) if l}
        if not held or 'stop' not in self.fn: return
        n = 0
        for g in self.facts.fns:
            if g.d.get('class') != TP or not g.d.get('const') or g.d.get('access') not in (None, 'public') or g.d.get('lambda') or g.d.get('instantiation'): continue
            try: res = run_paths(self.facts, g, TPDomain({}))
            except Inconclusive: continue
            acq = [e for P, E in res for e in E if e.kind == 'acquire' and e.obj in held]
            n += 1
            short = g.name.split('::')[-1]
            self.add('TP.9', not acq, f'{short}() const does not need a mutex that stop() holds while it joins the workers ({", ".join(sorted(held))})', acq[0].site if acq else g.shortloc(),
                     '' if not acq else f'{short}() locks {acq[0].obj}, which stop() holds across Thread::join(): a task that calls {short}() while the pool is being stopped waits for stop(), and stop() waits in join() for that task — stop() never returns')
        self.n_observers = n

    def run(self):
        if self.rep.broken: return
        self.any_pool_visit = False
        self.locks(); self.worker(); self.thread_start(); self.start(); self.clear(); self.other_queue_members(); self.stop(); self.observers_vs_join()
        if 'stop' in self.fn and not self.any_pool_visit:
            self.add('TP.6c', None, 'stop()', self.fn['stop'].shortloc(), 'no traversal of m_pool after the stop flag recognised')


RULE_TEXT = {
    'TP.1': 'task typestate in the worker loop and in Thread::start(Runnable*): removed from the queue (one element, under m_queueMutex) -> run() exactly once -> delete exactly once, in that order, on every path',
    'TP.2': 'every access to the task queue holds m_queueMutex (one worker per task)',
    'TP.3': 'order parity: tasks are appended at the back and taken from the front (FIFO with one worker)',
    'TP.4': 'clear(): every queued task is destroyed and the queue emptied; a queued task is never destroyed outside the lock while still queued',
    'TP.5': 'ownership entry: templated start() heap-allocates a TRunnable and hands it to start(Runnable*), which queues it exactly once on every path and notifies a worker afterwards',
    'TP.6a': 'stop(): the stop flag is written with the mutex of the workers\' condition wait held (lost wake-up rule; holds for atomics too)',
    'TP.6b': 'stop(): notify_all() after the write or inside the same critical section',
    'TP.6c': 'stop(): after the write, every element of m_pool is joined and m_pool is emptied, on every path',
    'TP.6d': 'stop(): queued tasks are destroyed',
    'TP.7': 'worker exit: the wait predicate is true whenever the stop flag is set; after the wait a set stop flag makes the worker return before it takes a task; the wait holds m_queueMutex',
    'TP.8': 'spawn guard table: a worker is created only if max > |pool| or max < 0, under m_poolMutex, and recorded in m_pool in the same critical section',
    'TP.9': 'lock order over {m_poolMutex, m_queueMutex} is acyclic; no re-acquisition',
    'TP.10': 'restart: start() sets the run flag again, before a worker it creates can read it',
}

_cache = {}


def analyse(facts, rep):
    key = id(facts)
    if key not in _cache:
        a = TPAnalysis(facts, rep); a.run()
        _cache.clear(); _cache[key] = a
    return _cache[key]


def emit(facts, rep, rules, floors):
    a = analyse(facts, rep)
    for r in rules: rep.rule(r, RULE_TEXT[r])
    for r in rules:
        seen = set()
        for ok, inst, site, why in a.res.get(r, []):
            if (ok, inst, why) in seen: continue
            seen.add((ok, inst, why))
            if ok is True: rep.ok(r, inst, site)
            elif ok is False: rep.violation(r, inst, site, why, key=f'{r}|{site}|{why[:60]}', fn=TP)
            else: rep.inconclusive(r, inst, site, why)
        if all(ok is True for ok, _, _ in seen): rep.floor(f'{r} instances', len(seen), floors.get(r, 1))
    if rep.tier == 'thorough' and 'TP.2' in rules:
        import irlock, frontend
        ok, viols, stats, err = irlock.check_class(frontend.REPO, 'src/threading/ThreadPool.cpp', facts, TP, 'm_queueMutex', ['m_queue'],
                                                   lambda d: d.startswith('tulz::ThreadPool::') or d.startswith('tulz::PooledRunnable::run'))
        rep.rule('TP.2-IR', 'second reading of TP.2 from LLVM IR (-O0): every address computation of ThreadPool::m_queue executes with m_queueMutex held')
        if ok is None: rep.inconclusive('TP.2-IR', 'IR cross-check', 'src/threading/ThreadPool.cpp', err)
        elif ok: rep.ok('TP.2-IR', f'{stats["state_address_computations"]} address computations of m_queue in {stats["functions_touching_state"]} IR functions, all with m_queueMutex held', 'src/threading/ThreadPool.cpp')
        else:
            for fnm, ins in viols[:3]:
                rep.violation('TP.2-IR', f'{fnm}: m_queue address computed without m_queueMutex', 'src/threading/ThreadPool.cpp', ins, key=f'TP.2-IR|{fnm}', fn=fnm)
    rep.count('field_accesses', getattr(a, 'n_access', 0)); rep.count('start_rows', getattr(a, 'n_start_rows', 0))
    rep.count('worker_rows', getattr(a, 'n_worker_rows', 0)); rep.count('start_instantiations', getattr(a, 'n_start_inst', 0))
    rep.assume('tasks terminate; std::thread/mutex/condition_variable behave as specified; one owner thread drives the pool; loops over m_pool / m_queue are evaluated for 0, 1 and 2 elements (the loop bodies are straight-line, so more elements repeat the same events)')
