"""C11 — ConcurrentSubjectRouter operations are atomic with respect to each other (big-lock linearisability: CR.1-4)."""
import router, observer, resource
TUS = sorted(set(router.TUS + ['src/threading/rwp/Resource.cpp', 'src/threading/ThreadPool.cpp', 'src/threading/Thread.cpp', 'witness/w_thread.cpp', 'witness/w_all.cpp']))
def run(facts, rep, tier):
    a = router.analyse(facts, rep, 'C11')
    observer.emit(facts, rep, ['CR.1', 'CR.2', 'CR.3', 'CR.4'], {'CR.1': 8, 'CR.2': 4, 'CR.3': 4, 'CR.4': 4}, text=router.RULE_TEXT, res=a.res)
    # CR.5: the Resource it relies on really excludes writers (the C01 rule set)
    resource.emit(facts, rep, 'C11', ['RES.1', 'RES.2a', 'RES.3', 'RES.4', 'RES.5', 'RES.6', 'RES.8x', 'RES.9', 'RES.11', 'RES.13', 'RES.15a', 'RES.16'],
                  {'RES.1': 5, 'RES.2a': 3, 'RES.3': 8, 'RES.4': 4, 'RES.5': 6, 'RES.6': 4, 'RES.8x': 8, 'RES.9': 1, 'RES.11': 8, 'RES.13': 8, 'RES.15a': 2})
    rep.count('accesses_under_router_roots', getattr(a, 'n_csr_access', 0))
    rep.assume('big-lock argument: writers exclusive, readers effect-free => every history is equivalent to a sequential one; once unsubscribe() returned, the WriteLock it held orders it before every later delivery')
