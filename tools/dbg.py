"""development aid: python3 -i tools/dbg.py <rule module> ; gives `facts` for the module's TUs (TULZ_REPO honoured)"""
import sys, os
V = os.path.dirname(os.path.dirname(os.path.abspath(__file__)))
sys.path[:0] = [os.path.join(V, 'lib'), os.path.join(V, 'rules')]
import frontend
from facts import Facts
def load(modname, thorough=False):
    mod = __import__(modname)
    d, info = frontend.extract(thorough=thorough)
    return mod, Facts(d, mod.TUS)
if __name__ == '__main__' and len(sys.argv) > 1:
    mod, facts = load(sys.argv[1])
