#!/usr/bin/env python3
"""summ.py Cxx : run a check and summarise its non-ok obligations by key / first reason"""
import subprocess, sys, json, collections, os
V = os.path.dirname(os.path.dirname(os.path.abspath(__file__)))
r = subprocess.run([V + '/check', sys.argv[1], '-v'], cwd=V, capture_output=True, text=True)
c = collections.Counter(); ex = {}
for l in r.stdout.split('\n'):
    if l.startswith('  [violation') or l.startswith('  [inconclusive'):
        parts = l.split(None, 3)
        rule = parts[2] if len(parts) > 2 else '?'
        why = l.split(' -- ', 1)[1][:150] if ' -- ' in l else ''
        k = (parts[1].strip(']'), rule, why[:70])
        c[k] += 1; ex.setdefault(k, l[:330])
for k, n in c.most_common(40): print(n, ex[k])
print(r.stdout.strip().split('\n')[-1] if not r.stdout.strip().split('\n')[-1].startswith('  ') else [x for x in r.stdout.split('\n') if x.startswith(sys.argv[1] + ':')])
if r.stderr: print(r.stderr[-600:])
