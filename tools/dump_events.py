#!/usr/bin/env python3
"""debug helper: dump_events.py <tu-suffix,...> <function name> : print the event lists of every path"""
import sys, os
V = os.path.dirname(os.path.dirname(os.path.abspath(__file__)))
sys.path.insert(0, V + '/lib'); sys.path.insert(0, V + '/rules')
sys.setrecursionlimit(10000)
import frontend
from facts import Facts
from evdom import EvDomain, run_paths
d, info = frontend.extract()
tus = [t for t in info['tus'] if any(t.endswith(x) for x in sys.argv[1].split(','))]
F = Facts(d, tus)
fns = [f for f in F.fns if f.name == sys.argv[2] or f.gname == sys.argv[2]]
for f in fns[:int(sys.argv[3]) if len(sys.argv) > 3 else 1]:
    print('==', f.name, f.shortloc())
    res = run_paths(F, f, EvDomain())
    print(len(res), 'paths')
    for P, evs in res[:int(sys.argv[4]) if len(sys.argv) > 4 else 6]:
        print('--- path end=', P.end, 'decisions=', [(c.text()[:40], v) for c, v, _ in P.decisions])
        for e in evs: print('    ', e)
