#!/usr/bin/env python3
"""debug: dump_rows.py <function name> [max rows] : explore() rows with container events"""
import sys, os
V = os.path.dirname(os.path.dirname(os.path.abspath(__file__)))
sys.path.insert(0, V + '/lib'); sys.path.insert(0, V + '/rules'); sys.setrecursionlimit(10000)
import frontend
from facts import Facts
import containers
d, info = frontend.extract()
F = Facts(d, [t for t in info['tus'] if t.endswith('w_containers.cpp')])
f = [f for f in F.fns if sys.argv[1] == f.name][0]
T = containers.elem_type(f.d['classfull'])
res = containers.explore(F, f, T, T not in containers.TRIVIAL)
print(len(res), 'rows')
for rows, dom, paths in res[:int(sys.argv[2]) if len(sys.argv) > 2 else 5]:
    print('ROW', containers.row_str(rows))
    for P in paths:
        print('  --- end', P.end, 'ret', P.ret)
        for k, node, p in P.events:
            if k in ('c', 'write', 'loop-summary'): print('      ', k, node.shortloc().split('/')[-1] if node is not None else '', p)
