#!/usr/bin/env python3
"""Renders selftest/RESULTS.json as the markdown table embedded in DESIGN.md (between the CORPUS-TABLE markers)."""
import json, os, re
V = os.path.dirname(os.path.dirname(os.path.abspath(__file__)))
r = json.load(open(os.path.join(V, 'selftest', 'RESULTS.json')))
what = {}
for d in os.listdir(os.path.join(V, 'seeded')):
    m = json.load(open(os.path.join(V, 'seeded', d, 'meta.json')))
    notes = open(os.path.join(V, 'seeded', d, 'NOTES.md')).read()
    first = re.sub(r'[#*`]', '', notes.strip().split('\n')[0]).strip()
    what['seed:' + m['id']] = first[:110]
rows = []
rows.append('| item | kind | breaks | reported by (VIOLATION) | inconclusive | first report of the tagged check |')
rows.append('|---|---|---|---|---|---|')
for it in r['items']:
    exp = it['expect']
    first = ''
    for p in exp:
        if p in it['detail']: first = it['detail'][p]; break
    first = re.sub(r'\s+', ' ', first).replace('|', '/')[:170]
    status = ' **(known miss, §23)**' if it.get('known_miss') else ('' if it['ok'] else ' **(not reported)**')
    rows.append(f"| {it['name']}{status} | {it['kind']} | {','.join(exp) or '—'} | {','.join(it['violation']) or '—'} | {','.join(it['inconclusive']) or '—'} | {first} |")
tot = len(r['items']); bad = [i['name'] for i in r['items'] if not i['ok']]
km = [i['name'] for i in r['items'] if i.get('known_miss')]
head = f"{tot} corpus items x {len(r['claimed'])} checks; not as expected: {bad or 'none'}" + (f"; recorded limits (neither reported nor undecided, selftest/known_misses.json): {km}" if km else '') + ".\n\n"
md = head + '\n'.join(rows) + '\n'
p = os.path.join(V, 'DESIGN.md')
s = open(p).read()
a, b = '<!-- CORPUS-TABLE-BEGIN -->', '<!-- CORPUS-TABLE-END -->'
if a in s and b in s:
    s = s[:s.index(a) + len(a)] + '\n' + md + s[s.index(b):]
    open(p, 'w').write(s)
    print('DESIGN.md table updated:', tot, 'items')
else:
    print(md)
