#!/usr/bin/env python3
"""debug: dump_cont.py <function name substring> [T] : container-domain paths"""
import sys, os
V = os.path.dirname(os.path.dirname(os.path.abspath(__file__)))
sys.path.insert(0, V + '/lib'); sys.path.insert(0, V + '/rules'); sys.setrecursionlimit(10000)
import frontend
from facts import Facts
from symex import Exec
from contdom import ContDomain
d, info = frontend.extract()
F = Facts(d, [t for t in info['tus'] if t.endswith('w_containers.cpp')])
fns = [f for f in F.fns if sys.argv[1] == f.name]
for f in fns[:1]:
    T = f.d['classfull'][f.d['classfull'].index('<') + 1:].rsplit('>', 1)[0].split(', ')[0]
    dom = ContDomain(T, T not in ('int', 'unsigned char'), rows={})
    dom.ctor = bool(f.d.get('ctor'))
    ex = Exec(F, dom)
    paths = ex.run(f)
    print('==', f.name, len(paths), 'paths; unknown cmps:', [k for k, n, d in dom.unknown_cmp])
    for P in paths[:6]:
        print('--- end', P.end, 'ret', P.ret, 'unknown', [c.text()[:40] for c in P.unknown_atoms])
        for k, node, p in P.events:
            if k in ('c', 'write', 'loop-summary', 'branch'): print('    ', k, node.shortloc() if node is not None else '', p)
