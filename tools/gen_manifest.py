#!/usr/bin/env python3
"""Regenerates MANIFEST.json from tools/manifest_src.json (claimed checks) + properties.jsonl (everything else -> not_applicable)."""
import json, os
V = os.path.dirname(os.path.dirname(os.path.abspath(__file__)))
src = json.load(open(os.path.join(V, 'tools', 'manifest_src.json')))
props = [json.loads(l) for l in open(os.path.join(V, 'properties.jsonl'))]
checks = []
for p in props:
    c = src['checks'].get(p['id'])
    if not c: continue
    checks.append(dict(property_id=p['id'], quick_cmd=f"./check {p['id']} --tier quick", thorough_cmd=f"./check {p['id']} --tier thorough",
                       evidence_file=f"evidence/{p['id']}.json", replay_cmd_template=f"./check {p['id']} --replay {{path}}", engine='tulz-static',
                       level_claimed=dict(category='other', text=c['text'], design_ref=c.get('design_ref', 'DESIGN.md §4')),
                       level_note=c['note'], technique=c['technique']))
na = [dict(property_id=p['id'], reason=src['not_applicable'].get(p['id'], 'rule set designed (DESIGN.md §4) but not built yet; not claimed until its check exists'))
      for p in props if p['id'] not in src['checks']]
m = dict(version=1, setup_cmd='./setup.sh',
         hooks=dict(guard='TULZ_VERIF', enable='none needed: the analysis reads unmodified sources (no hook commits in /repo)',
                    baseline_off_cmd='cmake --build /repo/_build -j16 && ctest --test-dir /repo/_build -j8 --timeout 900', source_commits=[], add_only=True),
         engines=[dict(name='tulz-static', path='check', serves_properties=[c['property_id'] for c in checks],
                       kind_free_text='custom static analysis: libTooling fact extractor (typed AST + CFG, template instantiations forced by witness TUs) + Python rules '
                                      '(lockset/thread-role, finite guard tables, affine-mod abstract evaluation, typestate/must-pass-through, capture/escape, instantiation consistency)')],
         checks=checks, not_applicable=na, notes=src.get('notes', ''))
json.dump(m, open(os.path.join(V, 'MANIFEST.json'), 'w'), indent=1)
print(len(checks), 'checks,', len(na), 'not applicable')
