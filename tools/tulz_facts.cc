// tulz-facts: dump the resolved program (typed AST + per-function CFG) of every function
// defined under --root as JSON, one file per translation unit.  Everything after this is
// Python (see lib/).  The tool does not decide anything; it only reports what clang resolved.
#include "clang/AST/ASTConsumer.h"
#include "clang/AST/RecursiveASTVisitor.h"
#include "clang/Analysis/CFG.h"
#include "clang/Basic/Diagnostic.h"
#include "clang/Frontend/CompilerInstance.h"
#include "clang/Frontend/FrontendAction.h"
#include "clang/Frontend/TextDiagnosticPrinter.h"
#include "clang/Tooling/CommonOptionsParser.h"
#include "clang/Tooling/Tooling.h"
#include "llvm/Support/CommandLine.h"
#include "llvm/Support/JSON.h"
#include <map>
#include <set>
using namespace clang;
namespace json = llvm::json;

static llvm::cl::OptionCategory Cat("tulz-facts");
static llvm::cl::list<std::string> Roots("root", llvm::cl::desc("emit only entities defined under this path prefix (repeatable)"), llvm::cl::cat(Cat));
static llvm::cl::opt<std::string> Out("o", llvm::cl::desc("output JSON file"), llvm::cl::cat(Cat));

static json::Array gDiags;

struct Emitter {
  ASTContext &C;
  SourceManager &SM;
  PrintingPolicy PP;
  json::Object exprs;
  std::map<const Stmt *, std::string> ids;
  unsigned next = 0;
  std::map<const Decl *, std::string> declIds;
  unsigned nextDecl = 0;
  std::vector<const FunctionDecl *> pendingLambdas;

  Emitter(ASTContext &C) : C(C), SM(C.getSourceManager()), PP(C.getPrintingPolicy()) {
    PP.SuppressTagKeyword = true;
    PP.Bool = true;
    PP.SuppressUnwrittenScope = true;
  }

  std::string loc(SourceLocation L) {
    L = SM.getExpansionLoc(L);
    if (L.isInvalid()) return "";
    auto P = SM.getPresumedLoc(L);
    if (P.isInvalid()) return "";
    return std::string(P.getFilename()) + ":" + std::to_string(P.getLine()) + ":" + std::to_string(P.getColumn());
  }
  bool inRoot(SourceLocation L) {
    L = SM.getExpansionLoc(L);
    if (L.isInvalid()) return false;
    auto P = SM.getPresumedLoc(L);
    if (P.isInvalid()) return false;
    llvm::StringRef F(P.getFilename());
    for (auto &R : Roots) if (F.startswith(R)) return true;
    return false;
  }
  std::string fname(const FunctionDecl *D) {
    std::string s;
    llvm::raw_string_ostream os(s);
    D->getNameForDiagnostic(os, PP, true);
    return os.str();
  }
  std::string rname(const NamedDecl *D) {
    std::string s;
    llvm::raw_string_ostream os(s);
    D->getNameForDiagnostic(os, PP, true);
    return os.str();
  }
  std::string tstr(QualType T) { return T.getAsString(PP); }
  std::string ctstr(QualType T) { return T.getCanonicalType().getAsString(PP); }
  std::string declId(const Decl *D) {
    D = D->getCanonicalDecl();
    auto it = declIds.find(D);
    if (it != declIds.end()) return it->second;
    return declIds[D] = "d" + std::to_string(nextDecl++);
  }
  std::string defLoc(const FunctionDecl *F) {
    const FunctionDecl *Def = nullptr;
    if (F->hasBody(Def) && Def) return loc(Def->getLocation());
    if (auto *P = F->getTemplateInstantiationPattern()) { if (P->hasBody(Def) && Def) return loc(Def->getLocation()); return loc(P->getLocation()); }
    return loc(F->getLocation());
  }

  static bool transparent(const Stmt *S) {
    return isa<ParenExpr>(S) || isa<ExprWithCleanups>(S) || isa<MaterializeTemporaryExpr>(S) || isa<CXXBindTemporaryExpr>(S) ||
           isa<ConstantExpr>(S) || isa<ImplicitCastExpr>(S) || isa<CXXDefaultArgExpr>(S) || isa<CXXDefaultInitExpr>(S) ||
           isa<SubstNonTypeTemplateParmExpr>(S) || isa<OpaqueValueExpr>(S) || isa<CXXRewrittenBinaryOperator>(S);
  }
  static const Expr *strip(const Expr *E) {
    while (E) {
      if (auto *X = dyn_cast<ParenExpr>(E)) E = X->getSubExpr();
      else if (auto *X = dyn_cast<ExprWithCleanups>(E)) E = X->getSubExpr();
      else if (auto *X = dyn_cast<MaterializeTemporaryExpr>(E)) E = X->getSubExpr();
      else if (auto *X = dyn_cast<CXXBindTemporaryExpr>(E)) E = X->getSubExpr();
      else if (auto *X = dyn_cast<ConstantExpr>(E)) E = X->getSubExpr();
      else if (auto *X = dyn_cast<ImplicitCastExpr>(E)) E = X->getSubExpr();
      else if (auto *X = dyn_cast<CXXDefaultArgExpr>(E)) E = X->getExpr();
      else if (auto *X = dyn_cast<CXXDefaultInitExpr>(E)) E = X->getExpr();
      else if (auto *X = dyn_cast<SubstNonTypeTemplateParmExpr>(E)) E = X->getReplacement();
      else if (auto *X = dyn_cast<CXXRewrittenBinaryOperator>(E)) E = X->getSemanticForm();
      else if (auto *X = dyn_cast<OpaqueValueExpr>(E)) { if (X->getSourceExpr()) E = X->getSourceExpr(); else break; }
      else break;
    }
    return E;
  }
  json::Value ref(const Stmt *S) {
    if (!S) return nullptr;
    if (auto *E = dyn_cast<Expr>(S)) S = strip(E);
    if (!S) return nullptr;
    return emit(S);
  }
  json::Array refs(llvm::iterator_range<Stmt::const_child_iterator> R) {
    json::Array a;
    for (auto *c : R) a.push_back(ref(c));
    return a;
  }

  void calleeInfo(json::Object &o, const CallExpr *X) {
    if (auto *F = X->getDirectCallee()) {
      o["callee"] = fname(F);
      o["calleeq"] = F->getQualifiedNameAsString();
      o["callee_def"] = defLoc(F);
      o["callee_decl"] = declId(F);
      o["callee_in_root"] = inRoot(SM.getExpansionLoc(F->getLocation())) || (F->getDefinition() && inRoot(F->getDefinition()->getLocation()));
      if (auto *M = dyn_cast<CXXMethodDecl>(F)) {
        o["virtual"] = M->isVirtual();
        o["mclass"] = M->getParent()->getQualifiedNameAsString();
        o["mclassfull"] = rname(M->getParent());
        o["mconst"] = M->isConst();
        o["mstatic"] = M->isStatic();
      }
      json::Array ps;
      for (auto *P : F->parameters()) ps.push_back(ctstr(P->getType()));
      o["params"] = std::move(ps);
      if (auto *TA = F->getTemplateSpecializationArgs()) {
        json::Array ta;
        for (auto &A : TA->asArray()) {
          std::string s; llvm::raw_string_ostream os(s);
          if (A.getKind() == TemplateArgument::Pack) { os << "<"; bool first = true; for (auto &P : A.pack_elements()) { if (!first) os << ", "; first = false; P.print(PP, os, true); } os << ">"; }
          else A.print(PP, os, true);
          ta.push_back(os.str());
        }
        o["targs"] = std::move(ta);
      }
    }
  }
  json::Array args(const CallExpr *X) {
    json::Array a;
    for (auto *e : X->arguments()) a.push_back(ref(e));
    return a;
  }
  json::Object varFacts(const VarDecl *V) {
    json::Object vo;
    vo["name"] = V->getNameAsString();
    vo["decl"] = declId(V);
    vo["type"] = tstr(V->getType());
    vo["ctype"] = ctstr(V->getType());
    vo["isref"] = V->getType()->isReferenceType();
    vo["isptr"] = V->getType()->isPointerType();
    vo["isconst"] = V->getType().getNonReferenceType().isConstQualified();
    vo["loc"] = loc(V->getLocation());
    if (V->getInit()) vo["init"] = ref(V->getInit());
    if (auto *DD = dyn_cast<DecompositionDecl>(V)) {
      json::Array bs;
      for (auto *B : DD->bindings()) {
        json::Object bo;
        bo["name"] = B->getNameAsString();
        bo["decl"] = declId(B);
        if (B->getBinding()) bo["binding"] = ref(B->getBinding());
        bs.push_back(std::move(bo));
      }
      vo["bindings"] = std::move(bs);
    }
    return vo;
  }

  std::string emit(const Stmt *S) {
    auto it = ids.find(S);
    if (it != ids.end()) return it->second;
    std::string id = "e" + std::to_string(next++);
    ids[S] = id;
    json::Object o;
    o["loc"] = loc(S->getBeginLoc());
    if (auto *E = dyn_cast<Expr>(S)) {
      o["type"] = ctstr(E->getType());
      o["cat"] = E->isLValue() ? "l" : (E->isXValue() ? "x" : "pr");
      if (!E->isValueDependent() && !E->getType().isNull() && E->getType()->isIntegralOrEnumerationType() && !isa<IntegerLiteral>(E) && !isa<CXXBoolLiteralExpr>(E)) {
        Expr::EvalResult R;
        if (E->EvaluateAsInt(R, C, Expr::SE_NoSideEffects)) o["const"] = (int64_t)R.Val.getInt().getExtValue();
      }
    }
    if (auto *X = dyn_cast<DeclRefExpr>(S)) {
      o["k"] = "ref";
      auto *D = X->getDecl();
      o["name"] = D->getNameAsString();
      o["decl"] = declId(D);
      if (isa<ParmVarDecl>(D)) o["dk"] = "param";
      else if (auto *V = dyn_cast<VarDecl>(D)) { o["dk"] = V->hasLocalStorage() ? "local" : "global"; if (!V->hasLocalStorage()) o["qname"] = V->getQualifiedNameAsString(); }
      else if (isa<EnumConstantDecl>(D)) { o["dk"] = "enum"; o["qname"] = D->getQualifiedNameAsString(); }
      else if (auto *F = dyn_cast<FunctionDecl>(D)) { o["dk"] = "func"; o["qname"] = fname(F); }
      else if (auto *B = dyn_cast<BindingDecl>(D)) { o["dk"] = "binding"; if (B->getBinding()) o["binding"] = ref(B->getBinding()); }
      else o["dk"] = "other";
      if (auto *V = dyn_cast<ValueDecl>(D)) { o["decltype"] = ctstr(V->getType()); o["declref"] = V->getType()->isReferenceType(); }
      o["captured"] = X->refersToEnclosingVariableOrCapture();
    } else if (auto *X = dyn_cast<MemberExpr>(S)) {
      o["k"] = "member";
      o["name"] = X->getMemberDecl()->getNameAsString();
      o["arrow"] = X->isArrow();
      o["base"] = ref(X->getBase());
      if (auto *F = dyn_cast<FieldDecl>(X->getMemberDecl())) {
        o["field"] = true;
        o["class"] = F->getParent()->getQualifiedNameAsString();
        o["classfull"] = rname(F->getParent());
        o["decl"] = declId(F);
        o["ftype"] = ctstr(F->getType());
      } else if (auto *M = dyn_cast<CXXMethodDecl>(X->getMemberDecl())) {
        o["method"] = fname(M);
        o["mconst"] = M->isConst();
      }
    } else if (isa<CXXThisExpr>(S)) {
      o["k"] = "this";
    } else if (auto *X = dyn_cast<LambdaExpr>(S)) {
      o["k"] = "lambda";
      pendingLambdas.push_back(X->getCallOperator());
      if (X->isGenericLambda())
        if (auto *FT = X->getLambdaClass()->getDependentLambdaCallOperator())
          for (auto *Sp : FT->specializations()) pendingLambdas.push_back(Sp);
      o["generic"] = X->isGenericLambda();
      o["fn"] = fname(X->getCallOperator());
      o["fnloc"] = loc(X->getCallOperator()->getLocation());
      o["fndecl"] = declId(X->getCallOperator());
      o["mutable"] = X->isMutable();
      json::Array caps;
      auto init = X->capture_init_begin();
      for (auto &c : X->captures()) {
        json::Object co;
        co["mode"] = c.getCaptureKind() == LCK_ByRef ? "ref" : (c.getCaptureKind() == LCK_ByCopy ? "copy" : ((c.getCaptureKind() == LCK_This) ? "this" : (c.getCaptureKind() == LCK_StarThis ? "starthis" : "other")));
        co["implicit"] = c.isImplicit();
        if (c.capturesVariable()) {
          auto *V = c.getCapturedVar();
          co["var"] = V->getNameAsString();
          co["decl"] = declId(V);
          co["vartype"] = ctstr(V->getType());
          co["isref"] = V->getType()->isReferenceType();
          co["dk"] = isa<ParmVarDecl>(V) ? "param" : (V->hasLocalStorage() ? "local" : "global");
          co["initcapture"] = V->isInitCapture();
        }
        if (init != X->capture_init_end() && *init) co["init"] = ref(*init);
        ++init;
        caps.push_back(std::move(co));
      }
      o["captures"] = std::move(caps);
    } else if (auto *X = dyn_cast<CXXOperatorCallExpr>(S)) {
      o["k"] = "call"; o["ck"] = "op"; o["op"] = getOperatorSpelling(X->getOperator());
      calleeInfo(o, X);
      o["args"] = args(X);
    } else if (auto *X = dyn_cast<CXXMemberCallExpr>(S)) {
      o["k"] = "call"; o["ck"] = "member";
      calleeInfo(o, X);
      if (auto *Obj = X->getImplicitObjectArgument()) o["object"] = ref(Obj);
      if (auto *ME = dyn_cast<MemberExpr>(X->getCallee()->IgnoreParens())) { o["arrow"] = ME->isArrow(); o["qualified"] = ME->hasQualifier(); }
      o["args"] = args(X);
      if (auto *M = X->getMethodDecl()) if (isa<CXXDestructorDecl>(M)) o["ck"] = "dtor";
    } else if (auto *X = dyn_cast<CallExpr>(S)) {
      o["k"] = "call"; o["ck"] = "plain";
      calleeInfo(o, X);
      if (!X->getDirectCallee()) o["calleeexpr"] = ref(X->getCallee());
      o["args"] = args(X);
    } else if (auto *X = dyn_cast<CXXConstructExpr>(S)) {
      o["k"] = "construct";
      o["class"] = X->getConstructor()->getParent()->getQualifiedNameAsString();
      o["classfull"] = rname(X->getConstructor()->getParent());
      o["ctor"] = fname(X->getConstructor());
      o["ctor_def"] = defLoc(X->getConstructor());
      o["ctor_decl"] = declId(X->getConstructor());
      o["copy"] = X->getConstructor()->isCopyConstructor();
      o["move"] = X->getConstructor()->isMoveConstructor();
      o["elidable"] = X->isElidable();
      o["listinit"] = X->isListInitialization();
      o["temporary"] = isa<CXXTemporaryObjectExpr>(X);
      json::Array ps;
      for (auto *P : X->getConstructor()->parameters()) ps.push_back(ctstr(P->getType()));
      o["params"] = std::move(ps);
      json::Array a;
      for (auto *e : X->arguments()) a.push_back(ref(e));
      o["args"] = std::move(a);
    } else if (auto *X = dyn_cast<UnaryOperator>(S)) {
      o["k"] = "unop"; o["op"] = UnaryOperator::getOpcodeStr(X->getOpcode()).str(); o["postfix"] = X->isPostfix(); o["sub"] = ref(X->getSubExpr());
    } else if (auto *X = dyn_cast<BinaryOperator>(S)) {
      o["k"] = "binop"; o["op"] = X->getOpcodeStr().str(); o["lhs"] = ref(X->getLHS()); o["rhs"] = ref(X->getRHS());
      o["lhs_signed"] = X->getLHS()->getType()->isSignedIntegerOrEnumerationType();
      o["rhs_signed"] = X->getRHS()->getType()->isSignedIntegerOrEnumerationType();
      o["lhs_type"] = ctstr(X->getLHS()->getType());
      o["rhs_type"] = ctstr(X->getRHS()->getType());
    } else if (auto *X = dyn_cast<ConditionalOperator>(S)) {
      o["k"] = "cond"; o["c"] = ref(X->getCond()); o["t"] = ref(X->getTrueExpr()); o["f"] = ref(X->getFalseExpr());
    } else if (auto *X = dyn_cast<ArraySubscriptExpr>(S)) {
      o["k"] = "subscript"; o["base"] = ref(X->getBase()); o["idx"] = ref(X->getIdx());
    } else if (auto *X = dyn_cast<ExplicitCastExpr>(S)) {
      o["k"] = "cast"; o["castkind"] = X->getStmtClassName(); o["to"] = ctstr(X->getTypeAsWritten()); o["sub"] = ref(X->getSubExpr());
      o["ck"] = X->getCastKindName();
    } else if (auto *X = dyn_cast<IntegerLiteral>(S)) {
      o["k"] = "int"; o["v"] = (int64_t)X->getValue().getLimitedValue();
    } else if (auto *X = dyn_cast<CharacterLiteral>(S)) {
      o["k"] = "char"; o["v"] = (int64_t)X->getValue();
    } else if (auto *X = dyn_cast<FloatingLiteral>(S)) {
      o["k"] = "float"; o["v"] = X->getValueAsApproximateDouble();
    } else if (auto *X = dyn_cast<CXXBoolLiteralExpr>(S)) {
      o["k"] = "bool"; o["v"] = X->getValue();
    } else if (auto *X = dyn_cast<StringLiteral>(S)) {
      o["k"] = "str"; o["v"] = X->getBytes().str();
    } else if (isa<CXXNullPtrLiteralExpr>(S) || isa<GNUNullExpr>(S)) {
      o["k"] = "null";
    } else if (auto *X = dyn_cast<UnaryExprOrTypeTraitExpr>(S)) {
      o["k"] = "sizeof"; o["trait"] = (int)X->getKind();
      Expr::EvalResult R;
      if (!X->isValueDependent() && X->EvaluateAsInt(R, C)) o["v"] = (int64_t)R.Val.getInt().getLimitedValue();
      if (!X->isArgumentType()) o["sub"] = ref(X->getArgumentExpr()); else o["argtype"] = ctstr(X->getArgumentType());
    } else if (auto *X = dyn_cast<CXXNewExpr>(S)) {
      o["k"] = "new"; o["alloctype"] = ctstr(X->getAllocatedType()); o["array"] = X->isArray();
      json::Array pl;
      for (unsigned i = 0; i < X->getNumPlacementArgs(); ++i) pl.push_back(ref(X->getPlacementArg(i)));
      o["placement"] = std::move(pl);
      if (X->getInitializer()) o["init"] = ref(X->getInitializer());
    } else if (auto *X = dyn_cast<CXXDeleteExpr>(S)) {
      o["k"] = "delete"; o["sub"] = ref(X->getArgument()); o["array"] = X->isArrayForm();
    } else if (auto *X = dyn_cast<CXXPseudoDestructorExpr>(S)) {
      o["k"] = "pseudodtor"; o["base"] = ref(X->getBase());
    } else if (auto *X = dyn_cast<CXXThrowExpr>(S)) {
      o["k"] = "throw"; o["sub"] = ref(X->getSubExpr());
    } else if (auto *X = dyn_cast<ReturnStmt>(S)) {
      o["k"] = "return"; o["sub"] = ref(X->getRetValue());
    } else if (auto *X = dyn_cast<DeclStmt>(S)) {
      o["k"] = "decl";
      json::Array vs;
      for (auto *D : X->decls()) if (auto *V = dyn_cast<VarDecl>(D)) vs.push_back(varFacts(V));
      o["vars"] = std::move(vs);
    } else if (auto *X = dyn_cast<IfStmt>(S)) {
      o["k"] = "if"; o["constexpr"] = X->isConstexpr(); o["c"] = ref(X->getCond());
      if (X->getInit()) o["init"] = ref(X->getInit());
      if (X->getConditionVariableDeclStmt()) o["condvar"] = ref(X->getConditionVariableDeclStmt());
      o["t"] = ref(X->getThen()); o["f"] = ref(X->getElse());
    } else if (auto *X = dyn_cast<ForStmt>(S)) {
      o["k"] = "for"; o["init"] = ref(X->getInit()); o["c"] = ref(X->getCond()); o["inc"] = ref(X->getInc()); o["body"] = ref(X->getBody());
    } else if (auto *X = dyn_cast<CXXForRangeStmt>(S)) {
      o["k"] = "rangefor"; o["range"] = ref(X->getRangeInit());
      o["var"] = varFacts(X->getLoopVariable());
      o["body"] = ref(X->getBody());
      o["rangestmt"] = ref(X->getRangeStmt()); o["beginstmt"] = ref(X->getBeginStmt()); o["endstmt"] = ref(X->getEndStmt());
      o["c"] = ref(X->getCond()); o["inc"] = ref(X->getInc()); o["loopvarstmt"] = ref(X->getLoopVarStmt());
    } else if (auto *X = dyn_cast<WhileStmt>(S)) {
      o["k"] = "while"; o["c"] = ref(X->getCond()); o["body"] = ref(X->getBody());
    } else if (auto *X = dyn_cast<DoStmt>(S)) {
      o["k"] = "do"; o["c"] = ref(X->getCond()); o["body"] = ref(X->getBody());
    } else if (auto *X = dyn_cast<SwitchStmt>(S)) {
      o["k"] = "switch"; o["c"] = ref(X->getCond()); o["body"] = ref(X->getBody());
    } else if (auto *X = dyn_cast<CaseStmt>(S)) {
      o["k"] = "case"; o["v"] = ref(X->getLHS()); o["sub"] = ref(X->getSubStmt());
    } else if (auto *X = dyn_cast<DefaultStmt>(S)) {
      o["k"] = "default"; o["sub"] = ref(X->getSubStmt());
    } else if (auto *X = dyn_cast<CompoundStmt>(S)) {
      o["k"] = "block"; o["stmts"] = refs(X->children());
    } else if (isa<BreakStmt>(S)) {
      o["k"] = "break";
    } else if (isa<ContinueStmt>(S)) {
      o["k"] = "continue";
    } else if (isa<NullStmt>(S)) {
      o["k"] = "null_stmt";
    } else if (auto *X = dyn_cast<InitListExpr>(S)) {
      o["k"] = "initlist";
      json::Array a;
      for (auto *e : X->inits()) a.push_back(ref(e));
      o["args"] = std::move(a);
      if (auto *RD = X->getType()->getAsCXXRecordDecl()) {
        json::Array fn;
        for (auto *F : RD->fields()) fn.push_back(F->getNameAsString());
        o["fields"] = std::move(fn);
      }
    } else if (auto *X = dyn_cast<DesignatedInitExpr>(S)) {
      o["k"] = "designated"; o["init"] = ref(X->getInit());
    } else if (auto *X = dyn_cast<CXXStdInitializerListExpr>(S)) {
      o["k"] = "stdinitlist"; o["sub"] = ref(X->getSubExpr());
    } else if (isa<CXXScalarValueInitExpr>(S) || isa<ImplicitValueInitExpr>(S)) {
      o["k"] = "valueinit";
    } else if (auto *X = dyn_cast<CXXTryStmt>(S)) {
      o["k"] = "try"; o["children"] = refs(X->children());
    } else {
      o["k"] = "other"; o["cls"] = S->getStmtClassName(); o["children"] = refs(S->children());
    }
    exprs[id] = std::move(o);
    return id;
  }
};

struct V : RecursiveASTVisitor<V> {
  ASTContext &C;
  Emitter Em;
  json::Array funcs, classes, globals;
  std::set<const CXXRecordDecl *> seenClasses;
  std::set<const FunctionDecl *> emitted;
  std::set<const VarDecl *> seenGlobals;
  V(ASTContext &C) : C(C), Em(C) {}
  bool shouldVisitTemplateInstantiations() const { return true; }
  bool shouldVisitLambdaBody() const { return true; }
  bool shouldVisitImplicitCode() const { return false; }

  static const char *accessStr(AccessSpecifier A) { return A == AS_public ? "public" : A == AS_protected ? "protected" : A == AS_private ? "private" : "none"; }

  void classFacts(const CXXRecordDecl *R) {
    if (!R || !R->isCompleteDefinition() || R->isDependentContext() || !seenClasses.insert(R->getCanonicalDecl()).second) return;
    if (!Em.inRoot(R->getLocation())) return;
    json::Object o;
    o["name"] = R->getQualifiedNameAsString();
    o["fullname"] = Em.rname(R);
    o["loc"] = Em.loc(R->getLocation());
    o["lambda"] = R->isLambda();
    o["aggregate"] = R->isAggregate();
    o["polymorphic"] = R->isPolymorphic();
    o["trivially_copyable"] = R->isTriviallyCopyable();
    o["trivial_dtor"] = R->hasTrivialDestructor();
    if (auto *TS = dyn_cast<ClassTemplateSpecializationDecl>(R)) {
      // traits of the type template arguments (element types of the containers: decided by clang, also for std types)
      json::Array ta;
      for (auto &A : TS->getTemplateArgs().asArray()) {
        if (A.getKind() != TemplateArgument::Type) continue;
        QualType T = A.getAsType();
        json::Object to;
        to["type"] = Em.ctstr(T);
        to["trivially_copyable"] = T.isTriviallyCopyableType(C);
        to["trivial_dtor"] = !T.isDestructedType();
        to["is_class"] = T->isRecordType();
        ta.push_back(std::move(to));
      }
      o["targ_traits"] = std::move(ta);
    }
    json::Array fs;
    for (auto *F : R->fields()) {
      json::Object fo;
      fo["name"] = F->getNameAsString();
      fo["type"] = Em.tstr(F->getType());
      std::string t = Em.ctstr(F->getType());
      fo["ctype"] = t;
      fo["decl"] = Em.declId(F);
      fo["access"] = accessStr(F->getAccess());
      fo["mutable"] = F->isMutable();
      fo["isref"] = F->getType()->isReferenceType();
      fo["isptr"] = F->getType()->isPointerType();
      fo["atomic"] = llvm::StringRef(t).startswith("std::atomic<");
      fo["loc"] = Em.loc(F->getLocation());
      if (F->hasInClassInitializer() && F->getInClassInitializer()) fo["init"] = Em.ref(F->getInClassInitializer());
      fs.push_back(std::move(fo));
    }
    o["fields"] = std::move(fs);
    json::Array bs;
    for (auto &B : R->bases()) { json::Object bo; bo["type"] = Em.ctstr(B.getType()); bo["access"] = accessStr(B.getAccessSpecifier()); bs.push_back(std::move(bo)); }
    o["bases"] = std::move(bs);
    json::Array fr;
    for (auto *F : R->friends()) {
      if (auto *TI = F->getFriendType()) fr.push_back(Em.ctstr(TI->getType()));
      else if (auto *ND = F->getFriendDecl()) fr.push_back(ND->getQualifiedNameAsString());
    }
    o["friends"] = std::move(fr);
    json::Array ms;
    for (auto *M : R->methods()) {
      json::Object mo;
      mo["name"] = Em.fname(M);
      mo["access"] = accessStr(M->getAccess());
      mo["deleted"] = M->isDeleted();
      mo["defaulted"] = M->isDefaulted();
      mo["implicit"] = M->isImplicit();
      mo["const"] = M->isConst();
      mo["virtual"] = M->isVirtual();
      mo["static"] = M->isStatic();
      mo["ret"] = Em.ctstr(M->getReturnType());
      if (auto *Ct = dyn_cast<CXXConstructorDecl>(M)) { mo["ctor"] = true; mo["copy"] = Ct->isCopyConstructor(); mo["move"] = Ct->isMoveConstructor(); mo["explicit"] = Ct->isExplicit(); }
      if (isa<CXXDestructorDecl>(M)) mo["dtor"] = true;
      mo["copyassign"] = M->isCopyAssignmentOperator();
      mo["moveassign"] = M->isMoveAssignmentOperator();
      json::Array ps;
      for (auto *P : M->parameters()) ps.push_back(Em.ctstr(P->getType()));
      mo["params"] = std::move(ps);
      ms.push_back(std::move(mo));
    }
    o["methods"] = std::move(ms);
    json::Object sp;
    sp["copy_ctor_deleted"] = !R->hasSimpleCopyConstructor() && R->defaultedCopyConstructorIsDeleted();
    sp["has_user_copy_ctor"] = R->hasUserDeclaredCopyConstructor();
    sp["has_user_move_ctor"] = R->hasUserDeclaredMoveConstructor();
    sp["has_user_dtor"] = R->hasUserDeclaredDestructor();
    o["special"] = std::move(sp);
    classes.push_back(std::move(o));
  }
  bool VisitCXXRecordDecl(CXXRecordDecl *R) { classFacts(R); return true; }

  bool VisitVarDecl(VarDecl *D) {
    if (D->hasLocalStorage() || isa<ParmVarDecl>(D) || D->isLocalVarDecl()) return true;
    if (!D->hasInit() || D->getType()->isDependentType() || D->getDeclContext()->isDependentContext()) return true;
    if (!Em.inRoot(D->getLocation())) return true;
    const VarDecl *Def = D->getDefinition();
    if (!Def) Def = D;
    if (!seenGlobals.insert(Def->getCanonicalDecl()).second) return true;
    json::Object o = Em.varFacts(Def);
    o["qname"] = D->getQualifiedNameAsString();
    if (auto *AT = C.getAsConstantArrayType(Def->getType())) o["array_size"] = (int64_t)AT->getSize().getLimitedValue();
    globals.push_back(std::move(o));
    return true;
  }

  bool VisitFunctionDecl(FunctionDecl *D) {
    emitFn(D);
    drain();
    return true;
  }
  void drain() {
    while (!Em.pendingLambdas.empty()) {
      auto *L = Em.pendingLambdas.back();
      Em.pendingLambdas.pop_back();
      emitFn(L);
    }
  }

  void emitFn(const FunctionDecl *D) {
    if (!D->doesThisDeclarationHaveABody() || D->isDependentContext()) return;
    if (!emitted.insert(D->getCanonicalDecl()).second) return;
    if (!Em.inRoot(D->getLocation())) return;
    json::Object o;
    o["name"] = Em.fname(D);
    o["qname"] = D->getQualifiedNameAsString();
    o["loc"] = Em.loc(D->getLocation());
    o["decl"] = Em.declId(D);
    o["endloc"] = Em.loc(D->getEndLoc());
    o["instantiation"] = D->isTemplateInstantiation();
    o["ret"] = Em.ctstr(D->getReturnType());
    o["defaulted"] = D->isDefaulted();
    o["variadic_pack"] = false;
    if (auto *P = D->getTemplateInstantiationPattern()) o["pattern"] = Em.loc(P->getLocation());
    if (auto *TA = D->getTemplateSpecializationArgs()) {
      json::Array ta;
      for (auto &A : TA->asArray()) {
        std::string s; llvm::raw_string_ostream os(s);
        if (A.getKind() == TemplateArgument::Pack) { os << "<"; bool first = true; for (auto &P : A.pack_elements()) { if (!first) os << ", "; first = false; P.print(Em.PP, os, true); } os << ">"; }
        else A.print(Em.PP, os, true);
        ta.push_back(os.str());
      }
      o["targs"] = std::move(ta);
    }
    if (auto *M = dyn_cast<CXXMethodDecl>(D)) {
      o["class"] = M->getParent()->getQualifiedNameAsString();
      o["classfull"] = Em.rname(M->getParent());
      o["const"] = M->isConst();
      o["virtual"] = M->isVirtual();
      o["static"] = M->isStatic();
      o["access"] = accessStr(M->getAccess());
      o["lambda"] = M->getParent()->isLambda();
      o["ctor"] = isa<CXXConstructorDecl>(M);
      o["dtor"] = isa<CXXDestructorDecl>(M);
      o["copyassign"] = M->isCopyAssignmentOperator();
      o["moveassign"] = M->isMoveAssignmentOperator();
      json::Array ov;
      for (auto *B : M->overridden_methods()) { json::Object bo; bo["name"] = Em.fname(B); bo["def"] = Em.defLoc(B); bo["loc"] = Em.loc(B->getLocation()); ov.push_back(std::move(bo)); }
      o["overrides"] = std::move(ov);
      classFacts(M->getParent());
      if (auto *Ct = dyn_cast<CXXConstructorDecl>(M)) {
        o["copy"] = Ct->isCopyConstructor();
        o["move"] = Ct->isMoveConstructor();
        json::Array inits;
        for (auto *I : Ct->inits()) {
          json::Object io;
          if (I->isMemberInitializer()) { io["field"] = I->getMember()->getNameAsString(); io["class"] = I->getMember()->getParent()->getQualifiedNameAsString(); }
          else if (I->isBaseInitializer()) io["base"] = Em.ctstr(QualType(I->getBaseClass(), 0));
          else if (I->isDelegatingInitializer()) io["delegating"] = true;
          io["written"] = I->isWritten();
          io["init"] = Em.ref(I->getInit());
          inits.push_back(std::move(io));
        }
        o["inits"] = std::move(inits);
      }
    }
    json::Array ps;
    for (auto *P : D->parameters()) {
      json::Object po;
      po["name"] = P->getNameAsString();
      po["type"] = Em.tstr(P->getType());
      po["ctype"] = Em.ctstr(P->getType());
      po["decl"] = Em.declId(P);
      po["isref"] = P->getType()->isReferenceType();
      po["isrref"] = P->getType()->isRValueReferenceType();
      po["isptr"] = P->getType()->isPointerType();
      ps.push_back(std::move(po));
    }
    o["params"] = std::move(ps);
    o["body"] = Em.ref(D->getBody());
    CFG::BuildOptions BO;
    BO.setAllAlwaysAdd();
    BO.AddImplicitDtors = true;
    BO.AddTemporaryDtors = true;
    BO.AddInitializers = true;
    BO.AddEHEdges = false;
    BO.PruneTriviallyFalseEdges = true;
    if (auto cfg = CFG::buildCFG(D, D->getBody(), &C, BO)) {
      json::Array blocks;
      for (auto *B : *cfg) {
        json::Object bo;
        bo["id"] = B->getBlockID();
        json::Array el;
        for (auto &E : *B) {
          if (auto S = E.getAs<CFGStmt>()) {
            const Stmt *St = S->getStmt();
            if (Emitter::transparent(St)) continue;
            json::Object eo; eo["s"] = Em.ref(St); el.push_back(std::move(eo));
          } else if (auto A = E.getAs<CFGAutomaticObjDtor>()) {
            json::Object eo;
            eo["autodtor"] = A->getVarDecl()->getNameAsString();
            eo["decl"] = Em.declId(A->getVarDecl());
            eo["type"] = Em.ctstr(A->getVarDecl()->getType());
            el.push_back(std::move(eo));
          } else if (auto I = E.getAs<CFGInitializer>()) {
            json::Object eo;
            auto *In = I->getInitializer();
            if (In->isMemberInitializer()) { eo["initfield"] = In->getMember()->getNameAsString(); eo["class"] = In->getMember()->getParent()->getQualifiedNameAsString(); }
            else if (In->isBaseInitializer()) eo["initbase"] = true;
            else if (In->isDelegatingInitializer()) eo["initdelegating"] = true;
            eo["s"] = Em.ref(In->getInit());
            el.push_back(std::move(eo));
          } else if (E.getAs<CFGTemporaryDtor>()) {
            json::Object eo; eo["tmpdtor"] = true; el.push_back(std::move(eo));
          } else if (auto MD = E.getAs<CFGMemberDtor>()) {
            json::Object eo; eo["memberdtor"] = MD->getFieldDecl()->getNameAsString(); el.push_back(std::move(eo));
          } else if (E.getAs<CFGBaseDtor>()) {
            json::Object eo; eo["basedtor"] = true; el.push_back(std::move(eo));
          } else if (auto DD = E.getAs<CFGDeleteDtor>()) {
            json::Object eo; eo["deletedtor"] = Em.ref(DD->getDeleteExpr()); el.push_back(std::move(eo));
          } else {
            json::Object eo; eo["otherelem"] = (int)E.getKind(); el.push_back(std::move(eo));
          }
        }
        bo["elems"] = std::move(el);
        if (auto *T = B->getTerminatorStmt()) {
          bo["term"] = T->getStmtClassName();
          bo["termstmt"] = Em.ref(T);
          if (auto *Cn = B->getTerminatorCondition()) bo["cond"] = Em.ref(Cn);
        }
        if (auto *L = B->getLabel()) {
          // case / default label that starts this block (targets of a switch)
          if (auto *CS = dyn_cast<CaseStmt>(L)) { bo["label"] = "case"; bo["labelv"] = Em.ref(CS->getLHS()); if (CS->getRHS()) bo["labelrange"] = true; }
          else if (isa<DefaultStmt>(L)) bo["label"] = "default";
        }
        bo["noreturn"] = B->hasNoReturnElement();
        json::Array su;
        for (auto &S : B->succs()) {
          if (S.getReachableBlock()) su.push_back((int64_t)S.getReachableBlock()->getBlockID());
          else su.push_back(nullptr);
        }
        bo["succs"] = std::move(su);
        blocks.push_back(std::move(bo));
      }
      json::Object co;
      co["entry"] = cfg->getEntry().getBlockID();
      co["exit"] = cfg->getExit().getBlockID();
      co["blocks"] = std::move(blocks);
      o["cfg"] = std::move(co);
    }
    funcs.push_back(std::move(o));
  }
};

struct DiagCollector : DiagnosticConsumer {
  void HandleDiagnostic(DiagnosticsEngine::Level L, const Diagnostic &Info) override {
    DiagnosticConsumer::HandleDiagnostic(L, Info);
    if (L < DiagnosticsEngine::Error) return;
    llvm::SmallString<256> Msg;
    Info.FormatDiagnostic(Msg);
    json::Object o;
    o["level"] = (int)L;
    o["msg"] = Msg.str().str();
    if (Info.hasSourceManager() && Info.getLocation().isValid()) {
      auto P = Info.getSourceManager().getPresumedLoc(Info.getSourceManager().getExpansionLoc(Info.getLocation()));
      if (P.isValid()) o["loc"] = std::string(P.getFilename()) + ":" + std::to_string(P.getLine());
    }
    gDiags.push_back(std::move(o));
  }
};

struct Cons : ASTConsumer {
  void HandleTranslationUnit(ASTContext &C) override {
    V v(C);
    v.TraverseDecl(C.getTranslationUnitDecl());
    v.drain();
    json::Object top;
    top["functions"] = std::move(v.funcs);
    top["classes"] = std::move(v.classes);
    top["globals"] = std::move(v.globals);
    top["exprs"] = std::move(v.Em.exprs);
    top["diagnostics"] = std::move(gDiags);
    std::error_code EC;
    llvm::raw_fd_ostream os(Out, EC);
    os << json::Value(std::move(top));
  }
};
struct Act : ASTFrontendAction {
  std::unique_ptr<ASTConsumer> CreateASTConsumer(CompilerInstance &CI, StringRef) override { return std::make_unique<Cons>(); }
};

int main(int argc, const char **argv) {
  auto P = tooling::CommonOptionsParser::create(argc, argv, Cat);
  if (!P) { llvm::errs() << P.takeError(); return 2; }
  tooling::ClangTool T(P->getCompilations(), P->getSourcePathList());
  DiagCollector DC;
  T.setDiagnosticConsumer(&DC);
  int rc = T.run(tooling::newFrontendActionFactory<Act>().get());
  return rc;
}
