#include <tulz/threading/Thread.h>
#include <tulz/threading/ThreadPool.h>
#include <cstdio>
#include <atomic>
#include <cstring>
using namespace tulz;
struct Big { char pad[256]; int canary; Big():canary(0x1234){memset(pad,1,256);} Big(const Big&o):canary(o.canary){memcpy(pad,o.pad,256);} ~Big(){canary=0xdead; memset(pad,0xdd,256);} void operator()() const { if(canary!=0x1234) printf("DEAD callable canary=%x\n",canary); } };
int main(int argc,char**argv){
  int w=atoi(argv[1]);
  if(w==6){ for(int i=0;i<200;i++){ Thread t; Big b; t.start(b); char scribble[1024]; memset(scribble,0xee,sizeof scribble); asm volatile(""::"r"(scribble):"memory"); t.join(); } puts("done6"); }
  if(w==8){ for(int i=0;i<20000;i++){ ThreadPool p; p.setMaxThreadCount(2); std::atomic<int> n{0}; p.start([&]{n++;}); p.start([&]{n++;}); p.stop(); if(i%2000==0) printf("iter %d\n",i);} puts("done8"); }
}
