#!/usr/bin/env python3
"""Triage helper for D08 (ThreadPool::stop lost wake-up).

Copies /repo/src/threading/ThreadPool.cpp to the given scratch path and adds a
100 ms sleep inside the worker's wait predicate *after* it has been evaluated to
false.  The sleep adds no behaviour: it only widens the window that already
exists between "predicate evaluated" and "thread blocked" so the schedule in
which stop() sets the flag and notifies inside that window can be replayed
deterministically.
"""
import sys
src = open('/repo/src/threading/ThreadPool.cpp').read()
needle = "return !queue.empty() || !m_threadPool->isRunning() || isExpired;"
assert needle in src, "anchor vanished"
src = src.replace(needle,
    "bool r = !queue.empty() || !m_threadPool->isRunning() || isExpired; "
    "if(!r) std::this_thread::sleep_for(std::chrono::milliseconds(100)); return r;")
src = src.replace("#include <chrono>", "#include <chrono>\n#include <thread>")
open(sys.argv[1], 'w').write(src)
