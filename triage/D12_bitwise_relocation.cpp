// D12: RingBuffer::resize / Array::resize relocate class-type elements bitwise (memcpy / realloc).
// libstdc++ std::string with a short value points into its own object (SSO): after relocation it points into the freed block.
#include <tulz/container/RingBuffer.h>
#include <tulz/container/Array.h>
#include <string>
#include <cstdio>
int main() {
    int bad = 0;
    {
        tulz::RingBuffer<std::string> rb(3);
        rb.emplace_back("a"); rb.emplace_back("b"); rb.emplace_back("c");
        rb.pop_front(); rb.emplace_back("d");          // wrapped layout: the resize below goes through alloc + memcpy + free
        rb.resize(8);
        std::string got = rb[0] + rb[1] + rb[2];       // reads through the dangling SSO pointers (ASan: heap-use-after-free)
        if (got != "bcd") { std::printf("RingBuffer<string>: contents after resize = '%s', expected 'bcd'\n", got.c_str()); bad = 1; }
    }
    {
        tulz::Array<std::string> a(2, std::string("xy"));
        a.resize(4000, std::string("zz"));              // realloc to a much larger block: the block moves
        std::string got = a[0] + a[1];
        if (got != "xyxy") { std::printf("Array<string>: contents after resize = '%s', expected 'xyxy'\n", got.c_str()); bad = 1; }
    }
    if (!bad) std::printf("contents intact\n");
    return bad;
}
