#include <tulz/observer/routing/ConcurrentSubjectRouter.h>
#include <tulz/observer/routing/RoutingKeyBuilder.h>
#include <thread>
#include <cstdio>
#include <atomic>
using namespace tulz;
int main(){ ConcurrentSubjectRouter r; auto k=RoutingKeyBuilder{"a"}.build(); using O=EternalObserver<>;
 std::atomic<int> inside{0}, inv{0};
 r.subscribe(k, [&]{ ++inside; while(inside.load()<2) ; });
 for(int i=0;i<2000;i++) r.subscribe(k, [&](O::SelfView self){ inv++; self->invalidate(); });
 std::thread t1([&]{ r.notify(k); }), t2([&]{ r.notify(k);}); t1.join(); t2.join(); fprintf(stderr,"done11 inv=%d\n",inv.load()); }
