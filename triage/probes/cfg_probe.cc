#include "clang/AST/ASTConsumer.h"
#include "clang/AST/RecursiveASTVisitor.h"
#include "clang/Analysis/CFG.h"
#include "clang/Frontend/CompilerInstance.h"
#include "clang/Frontend/FrontendAction.h"
#include "clang/Tooling/CommonOptionsParser.h"
#include "clang/Tooling/Tooling.h"
#include "llvm/Support/CommandLine.h"
using namespace clang;
static llvm::cl::OptionCategory Cat("probe");
static llvm::cl::opt<std::string> Fn("fn", llvm::cl::cat(Cat));
struct V : RecursiveASTVisitor<V> {
  ASTContext &C; V(ASTContext &C):C(C){}
  bool shouldVisitTemplateInstantiations() const { return true; }
  bool VisitFunctionDecl(FunctionDecl *D) {
    if (!D->doesThisDeclarationHaveABody()) return true;
    std::string q = D->getQualifiedNameAsString();
    if (q.find(Fn) == std::string::npos) return true;
    llvm::outs() << "=== " << q << " tmplKind=" << D->getTemplatedKind() << " dependent=" << D->isDependentContext() << "\n";
    CFG::BuildOptions BO; BO.setAllAlwaysAdd(); BO.AddImplicitDtors = true; BO.AddTemporaryDtors=true;
    auto cfg = CFG::buildCFG(D, D->getBody(), &C, BO);
    if (cfg) cfg->print(llvm::outs(), C.getLangOpts(), false);
    return true;
  }
};
struct Cons : ASTConsumer { void HandleTranslationUnit(ASTContext &C) override { V v(C); v.TraverseDecl(C.getTranslationUnitDecl()); } };
struct Act : ASTFrontendAction { std::unique_ptr<ASTConsumer> CreateASTConsumer(CompilerInstance&, StringRef) override { return std::make_unique<Cons>(); } };
int main(int argc, const char **argv) {
  auto P = tooling::CommonOptionsParser::create(argc, argv, Cat);
  tooling::ClangTool T(P->getCompilations(), P->getSourcePathList());
  return T.run(tooling::newFrontendActionFactory<Act>().get());
}
