#!/usr/bin/env python3
# PROTOTYPE of A4 (finite guard tables) + RES.2/RES.3/RES.6/RES.9/RES.10 on rwp::Resource -- feasibility probe
import json, sys, itertools
d = json.load(open(sys.argv[1])); ex = d['exprs']
F = {f['name']: f for f in d['functions']}
lam = {f['loc']: f for f in d['functions'] if f.get('lambda')}
OPS = ['None', 'Read', 'Write']
def enumv(n):
    """value of an enum-valued term under env"""
    return n
class Unknown(Exception): pass
def term(e, env):
    n = ex[e]
    if n['k'] == 'ref' and n.get('dk') == 'enum': return n['name']
    if n['k'] == 'ref' and n['name'] == 'opType': return env['t']
    if n['k'] == 'member' and n['name'] == 'm_activeOp': return env['op']
    if n['k'] == 'member' and n['name'] == 'type' : return env['back']
    if n['k'] == 'ref' and n['name'] == 'op': raise Unknown('alias')   # handled through member 'type'
    raise Unknown(f"term {n['k']} {n.get('name')}")
def boolean(e, env):
    n = ex[e]; k = n['k']
    if k == 'binop' and n['op'] in ('&&', '||'):
        a = boolean(n['lhs'], env); b = boolean(n['rhs'], env); return (a and b) if n['op'] == '&&' else (a or b)
    if k == 'unop' and n['op'] == '!': return not boolean(n['sub'], env)
    if k == 'binop' and n['op'] in ('==', '!='):
        a = term(n['lhs'], env); b = term(n['rhs'], env); return (a == b) if n['op'] == '==' else (a != b)
    if k == 'call' and n.get('calleeq', '').endswith('::empty') and ex[n['object']].get('name') == 'm_queue': return env['QE']
    raise Unknown(f"atom {k} {n.get('op') or n.get('callee')}")
def contains_call(e, pred, seen=None):
    if e is None: return False
    n = ex[e]
    if n['k'] == 'call' and pred(n): return True
    for k, v in n.items():
        if k in ('loc', 'type', 'cat', 'k'): continue
        vs = v if isinstance(v, list) else [v]
        for x in vs:
            if isinstance(x, str) and x in ex and contains_call(x, pred): return True
            if isinstance(x, dict):
                for y in x.values():
                    if isinstance(y, str) and y in ex and contains_call(y, pred): return True
    return False
is_wait = lambda n: n.get('calleeq', '').startswith('std::condition_variable::wait')
def stmts(e):
    n = ex[e]
    if n['k'] == 'block':
        for s in n['stmts']: yield from stmts(s)
    else: yield e
def writes_to(e, field):
    n = ex[e]
    if n['k'] == 'binop' and n['op'] in ('=', '+=', '-=') and ex[n['lhs']].get('name') == field: return True
    if n['k'] == 'unop' and n['op'] in ('++', '--') and ex[n['sub']].get('name') == field: return True
    return False
def any_write(e, field):
    if e is None: return False
    n = ex[e]
    if writes_to(e, field): return True
    for k, v in n.items():
        if k in ('loc', 'type', 'cat', 'k'): continue
        for x in (v if isinstance(v, list) else [v]):
            if isinstance(x, str) and x in ex and any_write(x, field): return True
    return False
STATE = ['m_queue', 'm_activeOp', 'm_activeCount', 'm_idCounter', 'm_upperUnlockBound']
results = []
def report(rule, ok, msg): results.append((rule, ok, msg)); print(f"{'ok       ' if ok else 'VIOLATION'} {rule}: {msg}")

lock = F['tulz::rwp::Resource::lock']; body = list(stmts(lock['body']))
ifs = [s for s in body if ex[s]['k'] == 'if']
fast_if = next(s for s in ifs if contains_call(ex[s]['t'], is_wait) != contains_call(ex[s]['f'], is_wait))
n = ex[fast_if]; wait_in_else = contains_call(n['f'], is_wait)
rows = []
for QE, op, t in itertools.product([True, False], OPS, ['Read', 'Write']):
    g = boolean(n['c'], dict(QE=QE, op=op, t=t)); admit = g if wait_in_else else not g
    rows.append((QE, op, t, admit))
bad2a = [r for r in rows if r[3] and not (r[1] == 'None' or (r[1] == 'Read' and r[2] == 'Read'))]
bad2b = [r for r in rows if r[3] and not r[0]]
bad2c = [r for r in rows if r[0] and r[1] in ('None', 'Read') and r[2] == 'Read' and not r[3]]
report('RES.2a (C01)', not bad2a, f"fast path never admits next to a writer; 12 rows" + (f"; offending rows {bad2a}" if bad2a else ''))
report('RES.2b (C03)', not bad2b, f"fast path implies empty queue" + (f"; offending rows {bad2b}" if bad2b else ''))
report('RES.2c (C12)', not bad2c, f"reader without writer never waits" + (f"; offending rows {bad2c}" if bad2c else ''))
# RES.3: no monitor-state write after the wait returns; holder credited in the admitting CS
slow = n['f'] if wait_in_else else n['t']; fastb = n['t'] if wait_in_else else n['f']
after_if = body[body.index(fast_if) + 1:]
slow_stmts = list(stmts(slow)); wi = next(i for i, s in enumerate(slow_stmts) if contains_call(s, is_wait))
post_wait = slow_stmts[wi + 1:] + after_if
late = [(f, ex[s]['loc']) for s in post_wait for f in STATE if any_write(s, f)]
report('RES.3a (C01 C02 C03)', not late, "no monitor-state write is reachable after m_cv.wait returns" + (f"; found {[(f, l.split('/')[-1]) for f, l in late]}" if late else ''))
fast_credit = any(any_write(s, 'm_activeCount') for s in list(stmts(fastb)) + after_if)
report('RES.3b', fast_credit, "fast path credits the holder counter in the admitting critical section")
sel = F['tulz::rwp::Resource::select']; sb = list(stmts(sel['body']))
adm = [s for s in sb if ex[s]['k'] != 'if']     # admission path = statements after the empty-queue early return
credit = [s for s in adm if any_write(s, 'm_activeCount')]; pub = [s for s in adm if any_write(s, 'm_upperUnlockBound')]
okc = bool(credit) and bool(pub) and adm.index(credit[0]) < adm.index(pub[0])
report('RES.3c (C01 C02 C03)', okc, "select() credits the admitted tickets before publishing the new bound" + ('' if okc else f"; bound published at {ex[pub[0]]['loc'].split('/')[-1] if pub else '?'} with no credit of m_activeCount on the admission path"))
# RES.9 wait predicate orderings
w = next(s for s in slow_stmts if contains_call(s, is_wait)); wc = ex[w]
predl = next(a for a in wc['args'] if ex[a]['k'] == 'lambda'); pf = lam[ex[predl]['fnloc']]
ret = ex[next(s for s in stmts(pf['body']) if ex[s]['k'] == 'return')]['sub']; c = ex[ret]
def ordv(e, o):   # o in '<','=','>' relation between id and bound
    nn = ex[e]
    if nn['k'] == 'ref' and nn['name'] == 'id': return {'<': 0, '=': 1, '>': 2}[o]
    if nn['k'] == 'member' and nn['name'] == 'm_upperUnlockBound': return 1
    raise Unknown('ordering term')
import operator
OPF = {'<': operator.lt, '<=': operator.le, '>': operator.gt, '>=': operator.ge, '==': operator.eq, '!=': operator.ne}
tab = tuple(OPF[c['op']](ordv(c['lhs'], o), ordv(c['rhs'], o)) for o in '<=>')
report('RES.9 (C01 C02)', tab == (True, False, False), f"wait predicate on (id<b, id=b, id>b) = {tab}")
idcap = next(cc for cc in ex[predl]['captures'] if cc.get('var') == 'id')
report('RES.8 (C03)', idcap['mode'] == 'copy', f"ticket captured by {idcap['mode']}")
# RES.6/7 enqueue table
enq = F['tulz::rwp::Resource::enqueue']
def act(e, env):
    """which action a statement tree performs under env: 'push' / 'extend' / None"""
    nn = ex[e]; k = nn['k']
    if k == 'block':
        for s in nn['stmts']:
            a = act(s, env)
            if a: return a
        return None
    if k == 'if':
        if nn.get('init'): pass
        cond = boolean(nn['c'], env)
        br = nn['t'] if cond else nn['f']
        return act(br, env) if br else None
    if contains_call(e, lambda c: c.get('calleeq', '').endswith('::push_back') or c.get('calleeq', '').endswith('::emplace_back')): return 'push'
    if any_write(e, 'upperBound'): return 'extend'
    return None
bad6 = []; bad7 = []
for QE, t, back in itertools.product([True, False], ['Read', 'Write'], ['Read', 'Write']):
    a = act(enq['body'], dict(QE=QE, t=t, back=back, op=None))
    want = 'extend' if (not QE and t == 'Read' and back == 'Read') else 'push'
    if a == 'extend' and want == 'push': bad6.append((QE, t, back))
    if a == 'push' and want == 'extend': bad7.append((QE, t, back))
report('RES.6 (C01 C03)', not bad6, "enqueue extends only (queue non-empty, Read, back=Read); 8 rows" + (f"; offending {bad6}" if bad6 else ''))
report('RES.7 (C12)', not bad7, "consecutive readers are batched" + (f"; offending {bad7}" if bad7 else ''))
# RES.10 notify_all accompanies select() in unlock
unl = F['tulz::rwp::Resource::unlock']
calls = []
def collect(e):
    nn = ex[e]
    if nn['k'] == 'call': calls.append(nn.get('calleeq'))
    for k, v in nn.items():
        if k in ('loc', 'type', 'cat', 'k'): continue
        for x in (v if isinstance(v, list) else [v]):
            if isinstance(x, str) and x in ex: collect(x)
iff = next(s for s in stmts(unl['body']) if ex[s]['k'] == 'if' and contains_call(ex[s]['t'], lambda c: c.get('calleeq') == 'tulz::rwp::Resource::select'))
collect(ex[iff]['t'])
report('RES.10 (C02 C12)', 'std::condition_variable::notify_all' in calls and 'std::condition_variable::notify_one' not in calls, f"select() path calls {[c.split('::')[-1] for c in calls]}")
print("violations:", [r[0] for r in results if not r[1]] or 'none')
