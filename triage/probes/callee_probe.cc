#include "clang/AST/ASTConsumer.h"
#include "clang/AST/RecursiveASTVisitor.h"
#include "clang/Frontend/CompilerInstance.h"
#include "clang/Frontend/FrontendAction.h"
#include "clang/Tooling/CommonOptionsParser.h"
#include "clang/Tooling/Tooling.h"
#include "llvm/Support/CommandLine.h"
using namespace clang;
static llvm::cl::OptionCategory Cat("probe");
static llvm::cl::opt<std::string> Fn("fn", llvm::cl::cat(Cat));
static std::string fname(const FunctionDecl *D, ASTContext &C){ std::string s; llvm::raw_string_ostream os(s); D->getNameForDiagnostic(os, C.getPrintingPolicy(), true); return os.str(); }
struct CV : RecursiveASTVisitor<CV> { ASTContext &C; CV(ASTContext&C):C(C){}
  bool VisitCallExpr(CallExpr *E){ if (auto *F = E->getDirectCallee()) { auto n=fname(F,C); if(n.find("notify")!=std::string::npos) llvm::outs() << "    call -> " << n << "\n"; } return true; }
  bool VisitCXXReinterpretCastExpr(CXXReinterpretCastExpr *E){ llvm::outs() << "    reinterpret_cast<" << E->getType().getAsString() << ">\n"; return true; } };
struct V : RecursiveASTVisitor<V> {
  ASTContext &C; V(ASTContext &C):C(C){}
  bool shouldVisitTemplateInstantiations() const { return true; }
  bool VisitFunctionDecl(FunctionDecl *D) {
    if (!D->doesThisDeclarationHaveABody() || D->isDependentContext()) return true;
    auto q = fname(D,C); if (q.find(Fn) == std::string::npos) return true;
    llvm::outs() << "=== " << q << "\n"; CV cv(C); cv.TraverseStmt(D->getBody()); return true; } };
struct Cons : ASTConsumer { void HandleTranslationUnit(ASTContext &C) override { V v(C); v.TraverseDecl(C.getTranslationUnitDecl()); } };
struct Act : ASTFrontendAction { std::unique_ptr<ASTConsumer> CreateASTConsumer(CompilerInstance&, StringRef) override { return std::make_unique<Cons>(); } };
int main(int argc, const char **argv) { auto P = tooling::CommonOptionsParser::create(argc, argv, Cat); tooling::ClangTool T(P->getCompilations(), P->getSourcePathList()); return T.run(tooling::newFrontendActionFactory<Act>().get()); }
