// PROTOTYPE (design-time feasibility probe; not framework): dump typed AST + CFG facts as JSON
#include "clang/AST/ASTConsumer.h"
#include "clang/AST/RecursiveASTVisitor.h"
#include "clang/AST/ParentMapContext.h"
#include "clang/Analysis/CFG.h"
#include "clang/Frontend/CompilerInstance.h"
#include "clang/Frontend/FrontendAction.h"
#include "clang/Tooling/CommonOptionsParser.h"
#include "clang/Tooling/Tooling.h"
#include "llvm/Support/CommandLine.h"
#include "llvm/Support/JSON.h"
#include <map>
#include <set>
using namespace clang;
namespace json = llvm::json;
static llvm::cl::OptionCategory Cat("facts");
static llvm::cl::opt<std::string> Root("root", llvm::cl::desc("only functions defined under this path prefix"), llvm::cl::cat(Cat));
static llvm::cl::opt<std::string> Out("o", llvm::cl::cat(Cat));

struct Emitter {
  ASTContext &C; SourceManager &SM; PrintingPolicy PP;
  json::Object exprs; std::map<const Stmt*, std::string> ids; unsigned next = 0;
  std::map<const Decl*, std::string> declIds; unsigned nextDecl = 0; std::vector<const FunctionDecl*> pendingLambdas;
  Emitter(ASTContext &C) : C(C), SM(C.getSourceManager()), PP(C.getPrintingPolicy()) { PP.SuppressTagKeyword = true; PP.Bool = true; }
  std::string loc(SourceLocation L) { L = SM.getExpansionLoc(L); if (L.isInvalid()) return ""; auto P = SM.getPresumedLoc(L); if (P.isInvalid()) return ""; return std::string(P.getFilename()) + ":" + std::to_string(P.getLine()) + ":" + std::to_string(P.getColumn()); }
  bool inRoot(SourceLocation L) { L = SM.getExpansionLoc(L); if (L.isInvalid()) return false; auto P = SM.getPresumedLoc(L); if (P.isInvalid()) return false; return llvm::StringRef(P.getFilename()).startswith(Root); }
  std::string fname(const FunctionDecl *D) { std::string s; llvm::raw_string_ostream os(s); D->getNameForDiagnostic(os, PP, true); return os.str(); }
  std::string tstr(QualType T) { return T.getAsString(PP); }
  std::string declId(const Decl *D) { D = D->getCanonicalDecl(); auto it = declIds.find(D); if (it != declIds.end()) return it->second; return declIds[D] = "d" + std::to_string(nextDecl++); }
  static const Expr *strip(const Expr *E) {
    while (E) {
      if (auto *X = dyn_cast<ParenExpr>(E)) E = X->getSubExpr();
      else if (auto *X = dyn_cast<ExprWithCleanups>(E)) E = X->getSubExpr();
      else if (auto *X = dyn_cast<MaterializeTemporaryExpr>(E)) E = X->getSubExpr();
      else if (auto *X = dyn_cast<CXXBindTemporaryExpr>(E)) E = X->getSubExpr();
      else if (auto *X = dyn_cast<ConstantExpr>(E)) E = X->getSubExpr();
      else if (auto *X = dyn_cast<ImplicitCastExpr>(E)) E = X->getSubExpr();
      else if (auto *X = dyn_cast<CXXDefaultArgExpr>(E)) E = X->getExpr();
      else if (auto *X = dyn_cast<CXXDefaultInitExpr>(E)) E = X->getExpr();
      else break;
    }
    return E;
  }
  json::Value ref(const Stmt *S) { if (!S) return nullptr; if (auto *E = dyn_cast<Expr>(S)) S = strip(E); return emit(S); }
  json::Array refs(llvm::iterator_range<Stmt::const_child_iterator> R) { json::Array a; for (auto *c : R) a.push_back(ref(c)); return a; }
  std::string emit(const Stmt *S) {
    auto it = ids.find(S); if (it != ids.end()) return it->second;
    std::string id = "e" + std::to_string(next++); ids[S] = id;
    json::Object o; o["loc"] = loc(S->getBeginLoc());
    if (auto *E = dyn_cast<Expr>(S)) { o["type"] = tstr(E->getType()); o["cat"] = E->isLValue() ? "l" : (E->isXValue() ? "x" : "pr"); }
    if (auto *X = dyn_cast<DeclRefExpr>(S)) {
      o["k"] = "ref"; auto *D = X->getDecl(); o["name"] = D->getNameAsString(); o["decl"] = declId(D);
      if (isa<ParmVarDecl>(D)) o["dk"] = "param"; else if (auto *V = dyn_cast<VarDecl>(D)) o["dk"] = V->hasLocalStorage() ? "local" : "global"; else if (isa<EnumConstantDecl>(D)) { o["dk"] = "enum"; o["qname"] = D->getQualifiedNameAsString(); } else if (auto *F = dyn_cast<FunctionDecl>(D)) { o["dk"] = "func"; o["qname"] = fname(F); } else if (isa<BindingDecl>(D)) o["dk"] = "binding"; else o["dk"] = "other";
      if (auto *V = dyn_cast<ValueDecl>(D)) o["decltype"] = tstr(V->getType());
    } else if (auto *X = dyn_cast<MemberExpr>(S)) {
      o["k"] = "member"; o["name"] = X->getMemberDecl()->getNameAsString(); o["arrow"] = X->isArrow(); o["base"] = ref(X->getBase());
      if (auto *F = dyn_cast<FieldDecl>(X->getMemberDecl())) { o["field"] = true; o["class"] = F->getParent()->getQualifiedNameAsString(); o["decl"] = declId(F); }
      else if (auto *M = dyn_cast<CXXMethodDecl>(X->getMemberDecl())) { o["method"] = fname(M); o["mconst"] = M->isConst(); }
    } else if (isa<CXXThisExpr>(S)) { o["k"] = "this";
    } else if (auto *X = dyn_cast<LambdaExpr>(S)) {
      o["k"] = "lambda"; pendingLambdas.push_back(X->getCallOperator()); o["fn"] = fname(X->getCallOperator()); o["fnloc"] = loc(X->getCallOperator()->getLocation());
      json::Array caps; auto init = X->capture_init_begin();
      for (auto &c : X->captures()) { json::Object co; co["mode"] = c.getCaptureKind() == LCK_ByRef ? "ref" : (c.getCaptureKind() == LCK_ByCopy ? "copy" : (c.getCaptureKind()==LCK_This||c.getCaptureKind()==LCK_StarThis ? "this" : "other")); co["implicit"] = c.isImplicit();
        if (c.capturesVariable()) { auto *V = c.getCapturedVar(); co["var"] = V->getNameAsString(); co["decl"] = declId(V); co["vartype"] = tstr(V->getType()); co["isref"] = V->getType()->isReferenceType(); co["dk"] = isa<ParmVarDecl>(V) ? "param" : (V->hasLocalStorage() ? "local" : "global"); co["initcapture"] = V->isInitCapture(); }
        if (init != X->capture_init_end() && *init) co["init"] = ref(*init); ++init; caps.push_back(std::move(co)); }
      o["captures"] = std::move(caps);
    } else if (auto *X = dyn_cast<CXXOperatorCallExpr>(S)) {
      o["k"] = "call"; o["ck"] = "op"; o["op"] = getOperatorSpelling(X->getOperator()); calleeInfo(o, X); o["args"] = args(X);
    } else if (auto *X = dyn_cast<CXXMemberCallExpr>(S)) {
      o["k"] = "call"; o["ck"] = "member"; calleeInfo(o, X); if (auto *Obj = X->getImplicitObjectArgument()) o["object"] = ref(Obj); o["args"] = args(X);
      if (auto *M = X->getMethodDecl()) { o["mconst"] = M->isConst(); if (isa<CXXDestructorDecl>(M)) o["ck"] = "dtor"; }
    } else if (auto *X = dyn_cast<CallExpr>(S)) {
      o["k"] = "call"; o["ck"] = "plain"; calleeInfo(o, X); if (!X->getDirectCallee()) o["calleeexpr"] = ref(X->getCallee()); o["args"] = args(X);
    } else if (auto *X = dyn_cast<CXXConstructExpr>(S)) {
      o["k"] = "construct"; o["class"] = X->getConstructor()->getParent()->getQualifiedNameAsString(); o["ctor"] = fname(X->getConstructor()); json::Array a; for (auto *e : X->arguments()) a.push_back(ref(e)); o["args"] = std::move(a);
    } else if (auto *X = dyn_cast<UnaryOperator>(S)) { o["k"] = "unop"; o["op"] = UnaryOperator::getOpcodeStr(X->getOpcode()).str(); o["postfix"] = X->isPostfix(); o["sub"] = ref(X->getSubExpr());
    } else if (auto *X = dyn_cast<BinaryOperator>(S)) { o["k"] = "binop"; o["op"] = X->getOpcodeStr().str(); o["lhs"] = ref(X->getLHS()); o["rhs"] = ref(X->getRHS());
    } else if (auto *X = dyn_cast<ConditionalOperator>(S)) { o["k"] = "cond"; o["c"] = ref(X->getCond()); o["t"] = ref(X->getTrueExpr()); o["f"] = ref(X->getFalseExpr());
    } else if (auto *X = dyn_cast<ArraySubscriptExpr>(S)) { o["k"] = "subscript"; o["base"] = ref(X->getBase()); o["idx"] = ref(X->getIdx());
    } else if (auto *X = dyn_cast<ExplicitCastExpr>(S)) { o["k"] = "cast"; o["castkind"] = X->getStmtClassName(); o["to"] = tstr(X->getTypeAsWritten()); o["sub"] = ref(X->getSubExpr());
    } else if (auto *X = dyn_cast<IntegerLiteral>(S)) { o["k"] = "int"; o["v"] = (int64_t)X->getValue().getLimitedValue();
    } else if (auto *X = dyn_cast<CXXBoolLiteralExpr>(S)) { o["k"] = "bool"; o["v"] = X->getValue();
    } else if (auto *X = dyn_cast<StringLiteral>(S)) { o["k"] = "str"; o["v"] = X->getBytes().str();
    } else if (isa<CXXNullPtrLiteralExpr>(S) || isa<GNUNullExpr>(S)) { o["k"] = "null";
    } else if (auto *X = dyn_cast<UnaryExprOrTypeTraitExpr>(S)) { o["k"] = "sizeof"; Expr::EvalResult R; if (X->EvaluateAsInt(R, C)) o["v"] = (int64_t)R.Val.getInt().getLimitedValue(); if (!X->isArgumentType()) o["sub"] = ref(X->getArgumentExpr()); else o["argtype"] = tstr(X->getArgumentType());
    } else if (auto *X = dyn_cast<CXXNewExpr>(S)) { o["k"] = "new"; o["alloctype"] = tstr(X->getAllocatedType()); json::Array pl; for (unsigned i = 0; i < X->getNumPlacementArgs(); ++i) pl.push_back(ref(X->getPlacementArg(i))); o["placement"] = std::move(pl); if (X->getInitializer()) o["init"] = ref(X->getInitializer());
    } else if (auto *X = dyn_cast<CXXDeleteExpr>(S)) { o["k"] = "delete"; o["sub"] = ref(X->getArgument());
    } else if (auto *X = dyn_cast<CXXPseudoDestructorExpr>(S)) { o["k"] = "pseudodtor"; o["base"] = ref(X->getBase());
    } else if (auto *X = dyn_cast<CXXThrowExpr>(S)) { o["k"] = "throw"; o["sub"] = ref(X->getSubExpr());
    } else if (auto *X = dyn_cast<ReturnStmt>(S)) { o["k"] = "return"; o["sub"] = ref(X->getRetValue());
    } else if (auto *X = dyn_cast<DeclStmt>(S)) { o["k"] = "decl"; json::Array vs; for (auto *D : X->decls()) if (auto *V = dyn_cast<VarDecl>(D)) { json::Object vo; vo["name"] = V->getNameAsString(); vo["decl"] = declId(V); vo["type"] = tstr(V->getType()); if (V->getInit()) vo["init"] = ref(V->getInit()); if (auto *DD = dyn_cast<DecompositionDecl>(V)) { json::Array bs; for (auto *B : DD->bindings()) { json::Object bo; bo["name"] = B->getNameAsString(); bo["decl"] = declId(B); bs.push_back(std::move(bo)); } vo["bindings"] = std::move(bs); } vs.push_back(std::move(vo)); } o["vars"] = std::move(vs);
    } else if (auto *X = dyn_cast<IfStmt>(S)) { o["k"] = "if"; o["constexpr"] = X->isConstexpr(); o["c"] = ref(X->getCond()); if (X->getInit()) o["init"] = ref(X->getInit()); if (X->getConditionVariableDeclStmt()) o["condvar"] = ref(X->getConditionVariableDeclStmt()); o["t"] = ref(X->getThen()); o["f"] = ref(X->getElse());
    } else if (auto *X = dyn_cast<ForStmt>(S)) { o["k"] = "for"; o["init"] = ref(X->getInit()); o["c"] = ref(X->getCond()); o["inc"] = ref(X->getInc()); o["body"] = ref(X->getBody());
    } else if (auto *X = dyn_cast<CXXForRangeStmt>(S)) { o["k"] = "rangefor"; o["range"] = ref(X->getRangeInit()); o["var"] = X->getLoopVariable()->getNameAsString(); o["vardecl"] = declId(X->getLoopVariable()); o["vartype"] = tstr(X->getLoopVariable()->getType()); if (auto *DD = dyn_cast<DecompositionDecl>(X->getLoopVariable())) { json::Array bs; for (auto *B : DD->bindings()) bs.push_back(B->getNameAsString()); o["bindings"] = std::move(bs); } o["body"] = ref(X->getBody());
    } else if (auto *X = dyn_cast<WhileStmt>(S)) { o["k"] = "while"; o["c"] = ref(X->getCond()); o["body"] = ref(X->getBody());
    } else if (auto *X = dyn_cast<DoStmt>(S)) { o["k"] = "do"; o["c"] = ref(X->getCond()); o["body"] = ref(X->getBody());
    } else if (auto *X = dyn_cast<CompoundStmt>(S)) { o["k"] = "block"; o["stmts"] = refs(X->children());
    } else if (isa<BreakStmt>(S)) { o["k"] = "break"; } else if (isa<ContinueStmt>(S)) { o["k"] = "continue";
    } else if (auto *X = dyn_cast<InitListExpr>(S)) { o["k"] = "initlist"; json::Array a; for (auto *e : X->inits()) a.push_back(ref(e)); o["args"] = std::move(a);
    } else { o["k"] = "other"; o["cls"] = S->getStmtClassName(); o["children"] = refs(S->children()); }
    exprs[id] = std::move(o); return id;
  }
  void calleeInfo(json::Object &o, const CallExpr *X) {
    if (auto *F = X->getDirectCallee()) { o["callee"] = fname(F); o["calleeq"] = F->getQualifiedNameAsString(); o["callee_in_root"] = F->getDefinition() ? inRoot(F->getDefinition()->getLocation()) : inRoot(F->getLocation());
      if (auto *M = dyn_cast<CXXMethodDecl>(F)) { o["virtual"] = M->isVirtual(); o["mclass"] = M->getParent()->getQualifiedNameAsString(); }
      json::Array ps; for (auto *P : F->parameters()) ps.push_back(tstr(P->getType())); o["params"] = std::move(ps); }
  }
  json::Array args(const CallExpr *X) { json::Array a; for (auto *e : X->arguments()) a.push_back(ref(e)); return a; }
};

struct V : RecursiveASTVisitor<V> {
  ASTContext &C; Emitter Em; json::Array funcs, classes; std::set<const CXXRecordDecl*> seenClasses;
  V(ASTContext &C) : C(C), Em(C) {}
  bool shouldVisitTemplateInstantiations() const { return true; }
  bool shouldVisitLambdaBody() const { return true; }
  void classFacts(const CXXRecordDecl *R) {
    if (!R || !R->isCompleteDefinition() || R->isDependentContext() || !seenClasses.insert(R->getCanonicalDecl()).second) return;
    if (!Em.inRoot(R->getLocation())) return;
    json::Object o; o["name"] = R->getQualifiedNameAsString(); { std::string s; llvm::raw_string_ostream os(s); R->getNameForDiagnostic(os, Em.PP, true); o["fullname"] = os.str(); } o["loc"] = Em.loc(R->getLocation()); o["lambda"] = R->isLambda();
    json::Array fs; for (auto *F : R->fields()) { json::Object fo; fo["name"] = F->getNameAsString(); fo["type"] = Em.tstr(F->getType()); fo["decl"] = Em.declId(F); fo["access"] = (int)F->getAccess(); fo["mutable"] = F->isMutable(); fo["hasinit"] = F->hasInClassInitializer(); std::string t = F->getType().getCanonicalType().getAsString(Em.PP); fo["atomic"] = llvm::StringRef(t).startswith("std::atomic<"); fo["ctype"] = t; fs.push_back(std::move(fo)); } o["fields"] = std::move(fs);
    json::Array bs; for (auto &B : R->bases()) bs.push_back(Em.tstr(B.getType())); o["bases"] = std::move(bs);
    classes.push_back(std::move(o));
  }
  bool VisitCXXRecordDecl(CXXRecordDecl *R) { classFacts(R); return true; }
  std::set<const FunctionDecl*> emitted;
  bool VisitFunctionDecl(FunctionDecl *D) { emitFn(D); while (!Em.pendingLambdas.empty()) { auto *L = Em.pendingLambdas.back(); Em.pendingLambdas.pop_back(); emitFn(L); } return true; }
  bool emitFn(const FunctionDecl *D) {
    if (!D->doesThisDeclarationHaveABody() || D->isDependentContext()) return true;
    if (!emitted.insert(D->getCanonicalDecl()).second) return true;
    if (!Em.inRoot(D->getLocation())) return true;
    json::Object o; o["name"] = Em.fname(D); o["qname"] = D->getQualifiedNameAsString(); o["loc"] = Em.loc(D->getLocation()); o["instantiation"] = D->isTemplateInstantiation();
    if (auto *P = D->getTemplateInstantiationPattern()) o["pattern"] = Em.loc(P->getLocation());
    if (auto *M = dyn_cast<CXXMethodDecl>(D)) { o["class"] = M->getParent()->getQualifiedNameAsString(); o["const"] = M->isConst(); o["virtual"] = M->isVirtual(); o["access"] = (int)M->getAccess(); o["lambda"] = M->getParent()->isLambda(); o["ctor"] = isa<CXXConstructorDecl>(M); o["dtor"] = isa<CXXDestructorDecl>(M); json::Array ov; for (auto *B : M->overridden_methods()) ov.push_back(Em.fname(B)); o["overrides"] = std::move(ov); classFacts(M->getParent());
      if (auto *Ct = dyn_cast<CXXConstructorDecl>(M)) { json::Array inits; for (auto *I : Ct->inits()) { json::Object io; if (I->isMemberInitializer()) io["field"] = I->getMember()->getNameAsString(); else if (I->isBaseInitializer()) io["base"] = true; else if (I->isDelegatingInitializer()) io["delegating"] = true; io["written"] = I->isWritten(); io["init"] = Em.ref(I->getInit()); inits.push_back(std::move(io)); } o["inits"] = std::move(inits); } }
    json::Array ps; for (auto *P : D->parameters()) { json::Object po; po["name"] = P->getNameAsString(); po["type"] = Em.tstr(P->getType()); po["decl"] = Em.declId(P); ps.push_back(std::move(po)); } o["params"] = std::move(ps);
    o["body"] = Em.ref(D->getBody());
    CFG::BuildOptions BO; BO.AddImplicitDtors = true; BO.AddTemporaryDtors = true; BO.AddInitializers = true; BO.AddEHEdges = false;
    if (auto cfg = CFG::buildCFG(D, D->getBody(), &C, BO)) {
      json::Array blocks;
      for (auto *B : *cfg) { json::Object bo; bo["id"] = B->getBlockID(); json::Array el;
        for (auto &E : *B) {
          if (auto S = E.getAs<CFGStmt>()) { json::Object eo; eo["s"] = Em.ref(S->getStmt()); el.push_back(std::move(eo)); }
          else if (auto A = E.getAs<CFGAutomaticObjDtor>()) { json::Object eo; eo["autodtor"] = A->getVarDecl()->getNameAsString(); eo["decl"] = Em.declId(A->getVarDecl()); eo["type"] = Em.tstr(A->getVarDecl()->getType()); el.push_back(std::move(eo)); }
          else if (auto I = E.getAs<CFGInitializer>()) { json::Object eo; auto *In = I->getInitializer(); if (In->isMemberInitializer()) eo["initfield"] = In->getMember()->getNameAsString(); eo["s"] = Em.ref(In->getInit()); el.push_back(std::move(eo)); }
          else if (E.getAs<CFGTemporaryDtor>()) { json::Object eo; eo["tmpdtor"] = true; el.push_back(std::move(eo)); }
          else { json::Object eo; eo["otherelem"] = (int)E.getKind(); el.push_back(std::move(eo)); } }
        bo["elems"] = std::move(el);
        if (auto *T = B->getTerminatorStmt()) { bo["term"] = T->getStmtClassName(); if (auto *Cn = B->getTerminatorCondition()) bo["cond"] = Em.ref(Cn); }
        json::Array su; for (auto &S : B->succs()) { if (S.getReachableBlock()) su.push_back((int64_t)S.getReachableBlock()->getBlockID()); else su.push_back(nullptr); } bo["succs"] = std::move(su);
        blocks.push_back(std::move(bo)); }
      json::Object co; co["entry"] = cfg->getEntry().getBlockID(); co["exit"] = cfg->getExit().getBlockID(); co["blocks"] = std::move(blocks); o["cfg"] = std::move(co);
    }
    funcs.push_back(std::move(o)); return true;
  }
};
struct Cons : ASTConsumer { void HandleTranslationUnit(ASTContext &C) override { V v(C); v.TraverseDecl(C.getTranslationUnitDecl());
    json::Object top; top["functions"] = std::move(v.funcs); top["classes"] = std::move(v.classes); top["exprs"] = std::move(v.Em.exprs);
    std::error_code EC; llvm::raw_fd_ostream os(Out, EC); os << json::Value(std::move(top)); } };
struct Act : ASTFrontendAction { std::unique_ptr<ASTConsumer> CreateASTConsumer(CompilerInstance&, StringRef) override { return std::make_unique<Cons>(); } };
int main(int argc, const char **argv) { auto P = tooling::CommonOptionsParser::create(argc, argv, Cat); if (!P) { llvm::errs() << P.takeError(); return 2; } tooling::ClangTool T(P->getCompilations(), P->getSourcePathList()); return T.run(tooling::newFrontendActionFactory<Act>().get()); }
