#!/usr/bin/env python3
# PROTOTYPE of A1-A3 (call graph, lockset, thread roles) -- design-time feasibility probe
import json, sys, collections
TUS = sys.argv[1:]
funcs = {}; ex = {}; classes = {}
for i, p in enumerate(TUS):
    d = json.load(open(p))
    pre = f"t{i}_"
    def rn(x):
        return pre + x if isinstance(x, str) and x.startswith('e') and x[1:].isdigit() else x
    def conv(o):
        if isinstance(o, dict): return {k: conv(v) for k, v in o.items()}
        if isinstance(o, list): return [conv(v) for v in o]
        return rn(o)
    for k, v in d['exprs'].items(): ex[pre + k] = conv(v)
    for f in d['functions']:
        f = conv(f); key = f['name'] + '@' + f['loc']
        funcs.setdefault(key, f)
    for c in d['classes']: classes.setdefault(c['fullname'], c)
byname = collections.defaultdict(list)
for k, f in funcs.items(): byname[f['name']].append(f)
byloc = {f['loc']: f for f in funcs.values()}
LOCK_GUARDS = ('std::unique_lock', 'std::scoped_lock', 'std::lock_guard')
RW_GUARDS = {'tulz::rwp::ReadLock': 'R', 'tulz::rwp::WriteLock': 'W'}

def show(e):
    if e is None: return '∅'
    n = ex[e]; k = n['k']
    if k == 'member': return f"{show(n['base'])}{'->' if n.get('arrow') else '.'}{n['name']}"
    if k == 'this': return 'this'
    if k == 'ref': return n['name']
    if k == 'call': return f"{n.get('callee','?')}(..)"
    return k
def lock_token(e):
    """identify a lock object: (base expression text, field name)"""
    n = ex[e]
    if n['k'] == 'member' and n.get('field'): return (show(n['base']), n['class'], n['name'])
    if n['k'] == 'ref': return ('', '', n['name'])
    return None
def children(n):
    for k, v in n.items():
        if k in ('loc','type','cat','k','decl'): continue
        if isinstance(v, str) and v in ex: yield k, v
        elif isinstance(v, list):
            for x in v:
                if isinstance(x, str) and x in ex: yield k, x
                elif isinstance(x, dict):
                    for kk, vv in x.items():
                        if isinstance(vv, str) and vv in ex: yield kk, vv
NONMUT = {'find','begin','end','front','back','at','cbegin','cend','get','operator*','operator->','size','empty','contains','lower_bound','count'}
def walk(e, mode, out):
    """collect (field access, mode) ; mode 'R'/'W'"""
    if e is None: return
    n = ex[e]; k = n['k']
    if k == 'member' and n.get('field'):
        out.append((n['class'], n['name'], mode, n['loc'], show(n['base'])))
        walk(n['base'], 'R', out); return
    if k == 'binop' and n['op'] in ('=', '+=', '-=', '*=', '/=', '%=', '|=', '&=', '^='):
        walk(n['lhs'], 'W', out); walk(n['rhs'], 'R', out); return
    if k == 'unop' and n['op'] in ('++', '--'):
        walk(n['sub'], 'W', out); return
    if k == 'call':
        if 'object' in n:
            meth = (n.get('calleeq') or '').split('::')[-1]
            m = 'R' if (n.get('mconst') or meth in NONMUT) else 'W'
            walk(n['object'], m, out)
        params = n.get('params', [])
        args = n['args']
        off = 1 if n.get('ck') == 'op' and n.get('mclass') else 0   # member operator: first arg is object
        for i, a in enumerate(args):
            if n.get('ck') == 'op' and n.get('mclass') and i == 0:
                opn = n.get('op'); walk(a, 'W' if opn in ('=', '+=', '-=', '++', '--') and not n.get('mconst') else ('R' if n.get('mconst') or opn in ('[]','*','->','()','==','!=','<') else 'W'), out); continue
            pi = i - off
            pt = params[pi] if 0 <= pi < len(params) else ''
            m = 'W' if (pt.endswith('&') and not pt.endswith('&&') and not pt.startswith('const ')) and not n.get('callee_in_root') else 'R'
            walk(a, m, out)
        if 'calleeexpr' in n: walk(n['calleeexpr'], 'R', out)
        return
    if k == 'lambda': return   # body analysed separately
    for _, c in children(n): walk(c, 'R' if mode == 'W' and k not in ('subscript','cast','other') else mode, out)

def find_calls(e, out):
    if e is None: return
    n = ex[e]
    if n['k'] == 'lambda': out.append(('lambda', e)); return
    if n['k'] in ('call',) : out.append(('call', e))
    if n['k'] == 'construct': out.append(('construct', e))
    for _, c in children(n): find_calls(c, out)

class Analysis:
    def __init__(self): self.accesses = []; self.thread_roots = []; self.order = set()
    def run_function(self, f, entry_locks, root, chain, depth=0):
        if depth > 5 or 'cfg' not in f: return
        cfg = f['cfg']; blocks = {b['id']: b for b in cfg['blocks']}
        preds = collections.defaultdict(list)
        for b in cfg['blocks']:
            for s in b['succs']:
                if s is not None: preds[s].append(b['id'])
        IN = {}; OUT = {}
        guardvars = {}
        work = [cfg['entry']]; IN[cfg['entry']] = frozenset(entry_locks)
        def transfer(b, L, record):
            L = set(L)
            for el in b['elems']:
                if 'autodtor' in el:
                    t = guardvars.get(el['decl'])
                    if t: L.discard(t)
                    continue
                s = el.get('s')
                if s is None: continue
                n = ex[s]
                # guard construction
                if n['k'] == 'decl':
                    for v in n['vars']:
                        ty = v['type']; init = v.get('init')
                        if init and ex[init]['k'] == 'construct':
                            cls = ex[init]['class']
                            if cls.startswith(LOCK_GUARDS) or cls in RW_GUARDS:
                                toks = [lock_token(a) for a in ex[init]['args']]
                                toks = [t for t in toks if t]
                                if toks:
                                    mode = RW_GUARDS.get(cls, 'X')
                                    tok = (toks[0], mode); guardvars[v['decl']] = tok
                                    for held in L: self.order.add((held, tok))
                                    L.add(tok)
                # explicit lock/unlock
                calls = []; find_calls(s, calls)
                if record:
                    acc = []; walk(s, 'R', acc)
                    for a in acc: self.accesses.append(dict(cls=a[0], field=a[1], mode=a[2], loc=a[3], base=a[4], locks=frozenset(L), root=root, chain=chain + [f['name']]))
                for kind, c in calls:
                    cn = ex[c]
                    if kind == 'call':
                        cq = cn.get('calleeq', '')
                        if cq in ('std::mutex::lock',) and 'object' in cn:
                            t = lock_token(cn['object']);
                            if t: L.add((t, 'X'))
                        elif cq in ('std::mutex::unlock',) and 'object' in cn:
                            t = lock_token(cn['object']);
                            if t: L.discard((t, 'X'))
                        elif cq.startswith('std::condition_variable::wait'):
                            # predicate lambda runs with the lock held
                            for a in cn['args']:
                                if ex[a]['k'] == 'lambda' and record:
                                    lf = byloc.get(ex[a]['fnloc'])
                                    if lf: self.run_function(lf, L, root, chain + [f['name'], '<wait-predicate>'], depth + 1)
                        elif cn.get('callee_in_root') and record:
                            targets = []
                            if cn.get('virtual'):
                                base = cn['callee']
                                for g in funcs.values():
                                    if base in g.get('overrides', []): targets.append(g)
                            targets += byname.get(cn['callee'], [])
                            for g in targets: self.run_function(g, L, root, chain + [f['name']], depth + 1)
                    elif kind == 'construct' and cn['class'] == 'std::thread' and record:
                        for a in cn['args']:
                            if ex[a]['k'] == 'lambda':
                                self.thread_roots.append((ex[a]['fnloc'], f['name'], ex[a]['captures']))
            return frozenset(L)
        # fixpoint (must = intersection)
        changed = True; it = 0
        order = sorted(blocks, reverse=True)
        OUT = {}
        while changed and it < 50:
            changed = False; it += 1
            for bid in order:
                if bid == cfg['entry']: inn = frozenset(entry_locks)
                else:
                    ps = [OUT[p] for p in preds[bid] if p in OUT]
                    if not ps: continue
                    inn = frozenset.intersection(*ps)
                o = transfer(blocks[bid], inn, False)
                if IN.get(bid) != inn or OUT.get(bid) != o: IN[bid] = inn; OUT[bid] = o; changed = True
        for bid in order:
            if bid in IN: transfer(blocks[bid], IN[bid], True)

A = Analysis()
def is_public_method_of(f, cls): return f.get('class') == cls and f.get('access') == 0 and not f.get('ctor') and not f.get('dtor')
roots = []
for f in funcs.values():
    for cls, role in (('tulz::rwp::Resource', 'any'), ('tulz::ThreadPool', 'owner'), ('tulz::Thread', 'owner')):
        if is_public_method_of(f, cls): roots.append((f, role))
for f, role in roots: A.run_function(f, set(), (role, f['name']), [])
done = set()
while True:
    pend = [t for t in A.thread_roots if t[0] not in done]
    if not pend: break
    for fnloc, creator, caps in pend:
        done.add(fnloc); lf = byloc.get(fnloc)
        if lf: A.run_function(lf, set(), ('worker', f"thread-body@{fnloc.split('/')[-1]} created in {creator}"), [])
INTENDED_OWNER_EXCLUDED = {'tulz::ThreadPool::setExpiryTimeout', 'tulz::ThreadPool::setMaxThreadCount'}
atomic = {(c['name'], f['name']) for c in classes.values() for f in c['fields'] if f['atomic']}
sync_types = ('std::mutex', 'std::condition_variable')
ftype = {(c['name'], f['name']): f['ctype'] for c in classes.values() for f in c['fields']}
byfield = collections.defaultdict(list)
for a in A.accesses:
    if a['root'][1] in INTENDED_OWNER_EXCLUDED: continue
    if ftype.get((a['cls'], a['field']), '').startswith(sync_types): continue
    byfield[(a['cls'], a['field'])].append(a)
def may_concurrent(r1, r2):
    if r1[0] == 'any' or r2[0] == 'any': return True
    if r1[0] == 'owner' and r2[0] == 'owner': return False
    if r1[0] == 'worker' and r2[0] == 'worker': return True
    return True
print("fields analysed:", len(byfield), " accesses:", len(A.accesses), " thread roots:", len(done))
for (cls, fld), accs in sorted(byfield.items()):
    confl = set()
    for i, a in enumerate(accs):
        for b in accs[i:]:
            if 'W' not in (a['mode'], b['mode']): continue
            if not may_concurrent(a['root'], b['root']): continue
            la = {t[0] for t in a['locks']}; lb = {t[0] for t in b['locks']}
            # lock identity by (class, field) of the mutex (base text may differ: this vs m_threadPool)
            ka = {(t[1], t[2]) for t in la}; kb = {(t[1], t[2]) for t in lb}
            if ka & kb: continue
            if (cls, fld) in atomic: continue
            confl.add((a['mode'], a['loc'].split('/')[-1], a['root'][0], tuple(sorted(x[2] for x in la)), b['mode'], b['loc'].split('/')[-1], b['root'][0], tuple(sorted(x[2] for x in lb))))
    status = 'CONFLICT' if confl else 'ok'
    print(f"{status:8s} {cls}::{fld}  ({len(accs)} accesses)")
    for c in sorted(confl)[:6]: print("           ", c)
print("lock order edges:", sorted({(a[0][2], b[0][2]) for a, b in A.order}))
