#!/usr/bin/env python3
# PROTOTYPE of A5 (affine-mod abstract evaluation) + RB.2 refinement check -- feasibility probe
import json, sys, copy
from fractions import Fraction
d = json.load(open(sys.argv[1])); ex = d['exprs']
CLS = sys.argv[2] if len(sys.argv) > 2 else 'tulz::RingBuffer<int, true>'
funcs = {}
for f in d['functions']:
    if f['name'].startswith(CLS + '::'): funcs.setdefault(f['name'][len(CLS) + 2:], []).append(f)

class Lin:
    def __init__(s, c=None, k=0): s.c = dict(c or {}); s.k = k
    def __add__(a, b): r = Lin(a.c, a.k + b.k); [r.c.__setitem__(x, r.c.get(x, 0) + v) for x, v in b.c.items()]; return r.norm()
    def __sub__(a, b): return a + b.scale(-1)
    def scale(a, m): return Lin({x: v * m for x, v in a.c.items()}, a.k * m).norm()
    def norm(s): s.c = {x: v for x, v in s.c.items() if v != 0}; return s
    def subst(s, sym, lin):
        if sym not in s.c: return s
        m = s.c[sym]; r = Lin({x: v for x, v in s.c.items() if x != sym}, s.k); return r + lin.scale(m)
    def __eq__(a, b): return isinstance(b, Lin) and a.c == b.c and a.k == b.k
    def __repr__(s): 
        t = [f"{'' if v == 1 else v}{x}" for x, v in sorted(s.c.items())] + ([str(s.k)] if s.k or not s.c else [])
        return '+'.join(t).replace('+-', '-')
def sym(x): return Lin({x: 1})
C = sym('C')
class Inconclusive(Exception): pass

def congruent(a, b, facts):
    """a ≡ b (mod C) under substitution facts"""
    dlt = a - b
    for s_, l in facts: dlt = dlt.subst(s_, l)
    rest = {x: v for x, v in dlt.c.items() if x != 'C'}
    return not rest and dlt.k == 0

class Path:
    def __init__(s): s.env = {'m_pos': ('mod', sym('P')), 'm_size': ('lin', sym('S')), 'm_capacity': ('lin', C)}; s.loc = {}; s.facts = []; s.cond = []; s.effects = []; s.ret = None; s.done = False
    def clone(s): return copy.deepcopy(s)

def as_index(v):
    """physical index linear form if v is a proven physical index (Mod value) else None"""
    if v[0] == 'mod': return v[1]
    return None

def ev(e, p, frame):
    n = ex[e]; k = n['k']
    if k == 'int': return ('lin', Lin(k=n['v']))
    if k == 'member' and n.get('field'): return p.env[n['name']]
    if k == 'ref':
        if n['name'] in frame: return frame[n['name']]
        return ('opaque', n['name'])
    if k == 'cast': return ev(n['sub'], p, frame)
    if k == 'this': return ('this',)
    if k == 'unop' and n['op'] == '*': return ev(n['sub'], p, frame)
    if k == 'unop' and n['op'] == '&': v = ev(n['sub'], p, frame); return ('addr', v)
    if k == 'unop' and n['op'] in ('++', '--'):
        t = ex[n['sub']]; 
        if t['k'] == 'member' and t.get('field'):
            old = p.env[t['name']]; new = ('lin', old[1] + Lin(k=1 if n['op'] == '++' else -1)); p.env[t['name']] = new; return old if n['postfix'] else new
        raise Inconclusive('incdec on ' + t['k'])
    if k == 'binop':
        op = n['op']
        if op == '=':
            rhs = ev(n['rhs'], p, frame); t = ex[n['lhs']]
            if t['k'] == 'member' and t.get('field'): p.env[t['name']] = rhs; return rhs
            lv = ev(n['lhs'], p, frame)
            if lv[0] == 'slot': p.effects.append(('assign', lv[1], p.clone_env())); return lv
            raise Inconclusive('assign to ' + t['k'])
        a = ev(n['lhs'], p, frame); b = ev(n['rhs'], p, frame)
        if op in ('+', '-'):
            la = a[1] if a[0] in ('lin', 'mod') else None; lb = b[1] if b[0] in ('lin', 'mod') else None
            if a[0] == 'rem' and b[0] == 'lin' and op == '+': return ('remplus', a[1], a[2], b[1])
            if la is None or lb is None: raise Inconclusive(f'arith on {a[0]},{b[0]}')
            return ('lin', la + lb if op == '+' else la - lb)     # a Mod value used in arithmetic is its representative in [0,C)
        if op == '%':
            if a[0] == 'remplus' and b[0] == 'lin' and a[2] == b[1] and a[3] == b[1]: return ('mod', a[1])   # ((x % b) + b) % b
            if a[0] in ('lin', 'mod') and b[0] == 'lin': return ('rem', a[1], b[1])
            raise Inconclusive('% shape')
        if op in ('==', '!=', '<', '<=', '>', '>='): return ('cmp', op, a, b)
        if op in ('&&', '||'): return ('bool', op, a, b)
        raise Inconclusive('binop ' + op)
    if k == 'subscript':
        base = ex[n['base']]; idx = ev(n['idx'], p, frame)
        if base['k'] == 'member' and base['name'] == 'm_data': return ('slot', idx)
        raise Inconclusive('subscript base')
    if k == 'new':
        tgt = ev(n['placement'][0], p, frame)
        if tgt[0] == 'addr' and tgt[1][0] == 'slot': p.effects.append(('construct', tgt[1][1], p.clone_env())); return tgt[1]
        raise Inconclusive('placement target')
    if k == 'call':
        q = n.get('calleeq', ''); short = q.split('::')[-1]
        if short in ('forward', 'move'):
            v = ev(n['args'][0], p, frame)
            if short == 'move' and v[0] == 'slot': p.effects.append(('moveout', v[1], p.clone_env()))
            return v
        if short in ('overwriteCheck', 'notEmptyCheck'): return ('void',)
        if n.get('callee_in_root') and q.startswith('tulz::RingBuffer'):
            nm = n['callee'][len(CLS) + 2:] if n['callee'].startswith(CLS) else None
            cands = funcs.get(nm) or funcs.get(short) or []
            args = n['args'][1:] if n.get('ck') == 'op' and short == 'operator[]' else n['args']
            # choose non-const overload when several
            g = cands[0]
            fr = {}
            for prm, a in zip(g['params'], args): fr[prm['name']] = ev(a, p, frame)
            return call(g, p, fr)
        raise Inconclusive('call ' + q)
    if k == 'construct' or k == 'other': 
        for key in ('args', 'children'):
            for a in n.get(key, []):
                if a: ev(a, p, frame)
        return ('opaque', k)
    raise Inconclusive('expr ' + k)
Path.clone_env = lambda s: (dict(s.env), list(s.facts))

def call(g, p, frame):
    sub = run(g['body'], [p], frame, inlined=True)
    if len(sub) != 1: raise Inconclusive('branching helper ' + g['name'])
    r = sub[0].ret; sub[0].ret = None; sub[0].done = False
    p.__dict__.update(sub[0].__dict__); return r

def run(s, paths, frame, inlined=False):
    if s is None: return paths
    n = ex[s]; k = n['k']; out = []
    for p in paths:
        if p.done: out.append(p); continue
        if k == 'block':
            cur = [p]
            for st in n['stmts']: cur = run(st, cur, frame)
            out += cur
        elif k == 'decl':
            for v in n['vars']:
                frame[v['name']] = ev(v['init'], p, frame) if v.get('init') else ('opaque', v['name'])
            out.append(p)
        elif k == 'return':
            p.ret = ev(n['sub'], p, frame) if n.get('sub') else None; p.done = True; out.append(p)
        elif k == 'if':
            c = ev(n['c'], p, frame)
            pt, pf = p.clone(), p.clone()
            if c[0] == 'cmp' and c[1] == '==' and c[2][0] == 'lin' and c[3][0] == 'lin' and c[2][1] == sym('S') and c[3][1] == C:
                pt.facts.append(('S', C)); pt.cond.append('full'); pf.cond.append('not-full')
            elif c[0] == 'cmp' and c[1] == '==': pt.cond.append(f'{c[2][1]}=={c[3][1]}'); pf.cond.append(f'{c[2][1]}!={c[3][1]}')
            else: raise Inconclusive('condition ' + str(c)[:80])
            out += run(n['t'], [pt], dict(frame)) + run(n['f'], [pf], dict(frame))
        else:
            ev(s, p, frame); out.append(p)
    return out

def physical(v, what):
    i = as_index(v)
    if i is None: raise AssertionError(f"RB.6 VIOLATION: {what}: index {v} is not a physical (mod-capacity) index")
    return i

SPEC = {  # op -> cond -> (dpos, dsize, kind, slot expr relative to OLD state, sigma shift)
 'emplace_back':  {'not-full': (0, +1, 'construct', sym('P') + sym('S'), 0), 'full': (+1, 0, 'assign', sym('P'), +1)},
 'emplace_front': {'not-full': (-1, +1, 'construct', sym('P') - Lin(k=1), -1), 'full': (-1, 0, 'assign', sym('P') - Lin(k=1), -1)},
 'pop_back':  {'': (0, -1, 'moveout', sym('P') + sym('S') - Lin(k=1), 0)},
 'pop_front': {'': (+1, -1, 'moveout', sym('P'), +1)},
}
RET = {'emplace_back': lambda S2: S2 - Lin(k=1), 'emplace_front': lambda S2: Lin(k=0)}
ok = True; checked = 0
for name, spec in SPEC.items():
    for fname, fl in funcs.items():
        if not (fname == name or fname.startswith(name + '<')): continue
        f = fl[0]
        try:
            paths = run(f['body'], [Path()], {})
        except Inconclusive as e:
            print(f"INCONCLUSIVE {CLS}::{fname}: {e}"); ok = False; continue
        for p in paths:
            cond = next((c for c in p.cond if c in ('full', 'not-full')), '')
            if cond not in spec:
                if len(spec) == 1: cond = ''
                else: print('?? unexpected path', p.cond); ok = False; continue
            dpos, dsize, kind, slot, shift = spec[cond]
            facts = p.facts; checked += 1; errs = []
            try:
                pos2 = physical(p.env['m_pos'], 'm_pos')
                if not congruent(pos2, sym('P') + Lin(k=dpos), facts): errs.append(f"pos' = {pos2}, expected P{dpos:+d} (mod C)")
                size2 = p.env['m_size'][1]
                if not (size2 == sym('S') + Lin(k=dsize)): errs.append(f"size' = {size2}, expected S{dsize:+d}")
                effs = [e for e in p.effects if e[0] in ('construct', 'assign', 'moveout')]
                if len(effs) != 1 or effs[0][0] != kind: errs.append(f"slot effects {[(e[0]) for e in effs]}, expected one {kind}")
                else:
                    idx = physical(effs[0][1], kind)
                    if not congruent(idx, slot, facts): errs.append(f"{kind} at {idx}, expected {slot} (mod C)")
                # sigma: new logical j -> old logical j+shift : Mod(pos'+j) == Mod(P + j + shift)
                j = sym('j')
                if not congruent(pos2 + j, sym('P') + j + Lin(k=shift), facts): errs.append("index map broken")
                if name in RET:
                    r = p.ret
                    if r is None or r[0] != 'slot': errs.append(f"return {r}")
                    else:
                        want = pos2 + RET[name](size2)
                        if not congruent(physical(r[1], 'return'), want, facts): errs.append(f"returns slot {r[1][1]}, expected {want}")
                elif name.startswith('pop'):
                    r = p.ret
                    if r is None or r[0] != 'slot' or not congruent(physical(r[1], 'return'), slot, facts): errs.append(f"returns {r}, expected the removed slot")
            except AssertionError as e: errs.append(str(e))
            print(f"{'ok       ' if not errs else 'VIOLATION'} {CLS}::{fname} [{cond or 'any'}]  pos'={p.env['m_pos'][1]} size'={p.env['m_size'][1]} effects={[(e[0], str(e[1][1]) if e[1][0] in ('mod','lin') else str(e[1])) for e in p.effects]}")
            for e in errs: print("            ", e); ok = False
print("paths checked:", checked, "all ok" if ok else "PROBLEMS")
