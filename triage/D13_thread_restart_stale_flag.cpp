// D13: Thread::start() does not clear m_isFinished: a Thread object that is started again reports isFinished() == true
// (and isRunning() == false) while its second callable is still running.
#include <tulz/threading/Thread.h>
#include <atomic>
#include <chrono>
#include <cstdio>
#include <thread>
int main() {
    tulz::Thread t;
    t.start([] {});
    t.join();
    std::atomic<bool> release {false}, entered {false};
    t.start([&] { entered = true; while (!release) std::this_thread::sleep_for(std::chrono::milliseconds(1)); });
    while (!entered) std::this_thread::sleep_for(std::chrono::milliseconds(1));
    bool finishedWhileRunning = t.isFinished();          // the second callable has not returned
    release = true;
    t.join();
    if (finishedWhileRunning) { std::printf("isFinished() == true while the callable of the second start() is still running\n"); return 1; }
    std::printf("ok\n");
    return 0;
}
