#include <tulz/threading/ThreadPool.h>
#include <thread>
#include <chrono>
#include <cstdio>
#include <atomic>
using namespace tulz;
int main(){ ThreadPool p; p.setMaxThreadCount(1); std::atomic<int> n{0}; p.start([&]{n++;});
 std::this_thread::sleep_for(std::chrono::milliseconds(30)); // worker ran task, is now evaluating predicate (false) and sleeping 100ms before blocking
 std::thread killer([]{ std::this_thread::sleep_for(std::chrono::seconds(3)); puts("HANG: stop() did not return within 3s"); fflush(stdout); _exit(2);} ); killer.detach();
 p.stop(); puts("stop returned"); }
