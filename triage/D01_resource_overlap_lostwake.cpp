#include <tulz/threading/rwp/Resource.h>
#include <thread>
#include <vector>
#include <atomic>
#include <cstdio>
#include <chrono>
using namespace tulz::rwp;
int main(){
  for (int iter=0; iter<20000; ++iter){
    Resource r; std::atomic<int> writers{0}, readers{0}, done{0}; std::atomic<bool> bad{false};
    r.lockWrite();
    std::vector<std::thread> ts;
    for(int i=0;i<4;i++) ts.emplace_back([&]{ r.lockRead(); readers++; if(writers.load()) bad=true; readers--; r.unlockRead(); done++; });
    std::this_thread::sleep_for(std::chrono::microseconds(200));
    ts.emplace_back([&]{ r.lockWrite(); writers++; if(readers.load()||writers.load()>1) bad=true; writers--; r.unlockWrite(); done++;});
    std::this_thread::sleep_for(std::chrono::microseconds(200));
    r.unlockWrite();
    auto t0=std::chrono::steady_clock::now();
    while(done.load()<5){ if(std::chrono::steady_clock::now()-t0>std::chrono::seconds(2)){ printf("iter %d: HANG (lost wakeup) done=%d\n",iter,done.load()); _exit(2);} std::this_thread::yield(); }
    for(auto&t:ts)t.join();
    if(bad){ printf("iter %d: OVERLAP writer with other holder\n",iter); return 1; }
  }
  puts("no failure"); return 0;
}
