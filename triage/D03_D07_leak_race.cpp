#include <tulz/container/RingBuffer.h>
#include <tulz/threading/ThreadPool.h>
#include <tulz/observer/routing/ConcurrentSubjectRouter.h>
#include <tulz/observer/routing/RoutingKeyBuilder.h>
#include <string>
#include <thread>
#include <cstdio>
#include <atomic>
using namespace tulz;
int main(int argc,char**argv){ int w=atoi(argv[1]);
 if(w==3){ RingBuffer<std::string> a(4), b(4); a.push_back(std::string(100,'a')); b.push_back(std::string(100,'b')); a = b; printf("%zu\n", a.size()); }
 if(w==7){ ThreadPool p; p.setMaxThreadCount(2); p.setExpiryTimeout(0); std::atomic<int> n{0}; for(int i=0;i<200;i++){ p.start([&]{n++;}); p.update(); } std::this_thread::sleep_for(std::chrono::milliseconds(50)); p.update(); p.stop(); printf("n=%d\n",n.load()); }
 if(w==11){ ConcurrentSubjectRouter r; auto k=RoutingKeyBuilder{"a"}.build(); using O=EternalObserver<>; for(int i=0;i<50;i++) r.subscribe(k, [](O::SelfView self){ self->invalidate(); }); std::thread t1([&]{ r.notify(k); }), t2([&]{ r.notify(k); }); t1.join(); t2.join(); puts("done11"); }
}
