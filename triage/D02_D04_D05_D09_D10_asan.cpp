#include <tulz/observer/Subject.h>
#include <tulz/observer/routing/SubjectRouter.h>
#include <tulz/observer/routing/RoutingKeyBuilder.h>
#include <tulz/container/Array.h>
#include <tulz/container/RingBuffer.h>
#include <tulz/LocaleInfo.h>
#include <cstdio>
#include <string>
#include <cstring>
using namespace tulz;
int main(int argc,char**argv){
  int which = atoi(argv[1]);
  if(which==9){ Subject<> s; Subscription<> sub; int n=0; sub = s.subscribe([&]{ ++n; sub.unsubscribe(); }); s.notify(); s.notify(); printf("n=%d\n",n); }
  if(which==10){ SubjectRouter r; auto k1=RoutingKeyBuilder{"a","b"}.build(); auto k2=RoutingKeyBuilder{"a","c"}.build(); auto all=RoutingKeyBuilder{}.level("a").all().build();
    r.subscribe<int>(k1,[](int v){printf("b got %d\n",v);}); r.subscribe<int>(k2,[](int v){printf("c got %d\n",v);});
    r.notify<int>(k1, 42); r.notify<int>(all, 42);
    SubjectRouter q; q.subscribe<std::string>(k1,[](std::string v){printf("b got '%s'\n",v.c_str());}); q.subscribe<std::string>(k2,[](std::string v){printf("c got '%s'\n",v.c_str());});
    q.notify<std::string>(all, std::string("a long payload string that is heap allocated............")); }
  if(which==4){ std::string src[3]={"x","y","z"}; Array<std::string> a(src,3); printf("size=%zu\n",a.size()); printf("%s\n",a[1].c_str()); }
  if(which==2){ struct T{ int*p; T(int v):p(new int(v)){} T(const T&o):p(new int(*o.p)){} T(T&&o)noexcept:p(o.p){o.p=nullptr;} T&operator=(T&&o)noexcept{std::swap(p,o.p);return *this;} ~T(){delete p;} };
    RingBuffer<T> b(8); for(int i=0;i<3;i++) b.emplace_back(i); for(int i=0;i<3;i++) b.pop_front(); for(int i=0;i<5;i++) b.emplace_back(10+i); /* m_pos=3,size=5 */ b.resize(4); printf("size=%zu first=%d\n", b.size(), *b[0].p); for (size_t i=0;i<b.size();++i) printf("%d ", *b[i].p); puts(""); }
  if(which==19){ auto i = LocaleInfo::get(argv[2]); printf("%s %s %s err=%s\n", i.languageCode, i.country, i.countryCode, i.error?i.error:"(null)"); }
}
