#!/usr/bin/env python3
"""Design-time sanity check of the *reference monitor* used as oracle for RES.* rules.
Explores all interleavings of small thread programs at critical-section granularity.
variant 'orig'  = code as pinned (holder counted by the woken waiter)
variant 'fixed' = reference monitor of DESIGN.md (holder credited in select())"""
import sys, itertools
from collections import deque

def explore(progs, variant):
    # state: (Q tuple of (type,ub), op, cnt, nxt, bound, threads tuple)
    # thread: (pc, phase, id)  phase: 'idle' (about to call lock/unlock), 'wait' (parked with id), 'hold'
    init = ((), 'N', 0, 0, 0, tuple((0, 'idle', -1) for _ in progs))
    seen = {init}; todo = deque([init]); bad = []
    nstates = 0
    while todo:
        s = todo.popleft(); nstates += 1
        Q, op, cnt, nxt, bound, ths = s
        # invariant: exclusion among threads in 'hold'
        holders = [(i, progs[i][t[0]]) for i, t in enumerate(ths) if t[1] == 'hold']
        kinds = [k for _, k in holders]
        if 'W' in kinds and len(kinds) > 1:
            bad.append(('OVERLAP', s)); continue
        succ = []
        for i, (pc, ph, tid) in enumerate(ths):
            if pc >= len(progs[i]): continue
            t = progs[i][pc]
            def upd(Q=Q, op=op, cnt=cnt, nxt=nxt, bound=bound, th=None):
                l = list(ths); l[i] = th; return (tuple(Q), op, cnt, nxt, bound, tuple(l))
            if ph == 'idle':      # lock() entry CS
                if len(Q) == 0 and (op == 'N' or (op == 'R' and t == 'R')):
                    succ.append(upd(op=t, cnt=cnt + 1, th=(pc, 'hold', -1)))
                else:
                    myid = nxt; n2 = nxt + 1; Q2 = list(Q)
                    if len(Q2) == 0 or t == 'W': Q2.append((t, n2))
                    elif Q2[-1][0] == 'R': Q2[-1] = ('R', n2)
                    else: Q2.append(('R', n2))
                    succ.append(upd(Q=Q2, nxt=n2, th=(pc, 'wait', myid)))
            elif ph == 'wait':    # resumption CS (predicate re-check under mutex)
                if tid < bound:
                    c2 = cnt + 1 if variant == 'orig' else cnt
                    succ.append(upd(cnt=c2, th=(pc, 'hold', -1)))
            elif ph == 'hold':    # unlock CS
                c2 = cnt - 1; Q2 = list(Q); op2, n2, b2 = op, nxt, bound
                if c2 == 0:
                    if not Q2: op2, n2, b2 = 'N', 0, 0
                    else:
                        e = Q2.pop(0); op2 = e[0]
                        if variant == 'fixed': c2 = e[1] - bound
                        b2 = e[1]
                succ.append(upd(Q=Q2, op=op2, cnt=c2, nxt=n2, bound=b2, th=(pc + 1, 'idle', -1)))
        if not succ:
            if any(t[0] < len(progs[i]) for i, t in enumerate(ths)):
                bad.append(('DEADLOCK', s))
            else:
                if not (Q == () and op == 'N' and cnt == 0 and nxt == 0 and bound == 0):
                    bad.append(('NOT-IDLE-AT-END', s))
            continue
        for n in succ:
            if n not in seen: seen.add(n); todo.append(n)
    return nstates, bad

cfgs = [
  [['W'], ['R'], ['R']],
  [['W'], ['R'], ['R'], ['W']],
  [['R','W'], ['R','R'], ['W','R']],
  [['W','R'], ['R','W'], ['R'], ['R']],
  [['R'], ['R'], ['R'], ['R']],
]
for variant in ('orig', 'fixed'):
    for p in cfgs:
        n, bad = explore(p, variant)
        kinds = sorted(set(b[0] for b in bad))
        print(f"{variant:5s} progs={p} states={n} problems={kinds or 'none'}")
