// witness TU (no executable logic): forces the instantiations of RingBuffer / Array / the index
// iterator that the container rules (C04, C09, C14) are evaluated on.
#include <string>
#include <tulz/container/Array.h>
#include <tulz/container/RingBuffer.h>
#include "w_types.h"

template class tulz::RingBuffer<int, false>;
template class tulz::RingBuffer<int, true>;
template class tulz::RingBuffer<std::string, false>;
template class tulz::RingBuffer<std::string, true>;
template class tulz::RingBuffer<w::W, false>;
template class tulz::RingBuffer<w::W, true>;

template class tulz::Array<int>;
template class tulz::Array<unsigned char>;
template class tulz::Array<std::string>;
template class tulz::Array<w::W>;
template class tulz::Array<w::Tok>;
template class tulz::Array<w::Pod>;

template class tulz::RandomAccessIndexIterator<int, tulz::RingBuffer<int, false>>;
template class tulz::RandomAccessIndexIterator<const std::string, const tulz::RingBuffer<std::string, true>>;
template class tulz::RandomAccessIndexIterator<w::W, tulz::Array<w::W>>;
template class tulz::RandomAccessIndexIterator<const int, const tulz::Array<int>>;

namespace w {
void ring_members(tulz::RingBuffer<int, false> &a, tulz::RingBuffer<int, true> &b,
                  tulz::RingBuffer<std::string, false> &c, tulz::RingBuffer<std::string, true> &d,
                  tulz::RingBuffer<W, false> &e, tulz::RingBuffer<W, true> &f,
                  std::string s, W v, int i) {
    a.emplace_back(i);      a.emplace_front(i);     a.emplace_back(1);    a.emplace_front(2);
    b.emplace_back(i);      b.emplace_front(i);
    c.emplace_back(s);      c.emplace_front(s);     c.emplace_back(std::move(s)); c.emplace_front(3, 'x');
    d.emplace_back(s);      d.emplace_front(s);     d.emplace_back("lit"); d.emplace_front(3, 'x');
    e.emplace_back(v);      e.emplace_front(v);     e.emplace_back(1, "a"); e.emplace_front(std::move(v));
    f.emplace_back(v);      f.emplace_front(v);     f.emplace_back(1, "a"); f.emplace_front();
    (void)(a == a); (void)(a == b); (void)(c == d); (void)(e == f);
}
}
