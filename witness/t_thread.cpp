// thorough-tier witness TU: further callables for Thread / ThreadPool (C20, C07)
#include <functional>
#include <string>
#include <tulz/threading/Thread.h>
#include <tulz/threading/ThreadPool.h>

namespace wt {
struct Functor { template<typename... A> void operator()(A &...) const; };
struct Obj { void method(int &, std::string &, double &); };
void fn3(int &, std::string &, double &);

void thread_forms(tulz::Thread &t, tulz::ThreadPool &p, int &i, std::string &s, double &d, Obj &o, std::function<void()> f, std::function<void(int &)> g) {
    t.start(f);
    t.start(g, i);
    t.start(Functor{}, i, s, d);
    t.start(fn3, i, s, d);
    t.start([&o](int &a, std::string &b, double &c) { o.method(a, b, c); }, i, s, d);
    tulz::Thread t1(f);
    tulz::Thread t2(Functor{}, i);
    p.start(f);
    p.start(g, i);
    p.start(fn3, i, s, d);
    p.start(Functor{}, i, s);
}
}
