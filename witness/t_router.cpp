// thorough-tier witness TU: further signatures through both routers (C06, C11, C13, C15)
#include <string>
#include <vector>
#include <tulz/observer/routing/SubjectRouter.h>
#include <tulz/observer/routing/ConcurrentSubjectRouter.h>

namespace wt {
template<typename R>
void router_forms(R &r, const tulz::RoutingKey &key, int i, std::string s, std::vector<int> v, double d, int *p) {
    auto s0 = r.template subscribe<double>(key, [](double) {});
    auto s1 = r.template subscribe<const int &>(key, [](const int &) {});
    auto s2 = r.template subscribe<int, std::string, double>(key, [](int, std::string, double) {});
    auto s3 = r.template subscribe<std::vector<int>>(key, [](std::vector<int>) {});
    auto s4 = r.template subscribe<int *>(key, [](int *) {});
    auto s5 = r.template subscribe<const std::vector<int> &, std::string &>(key, [](const std::vector<int> &, std::string &) {});
    r.template notify<double>(key, 1.0);
    r.template notify<double>(key, std::move(d));
    r.template notify<const int &>(key, i);
    r.template notify<int, std::string, double>(key, 1, std::string("x"), 2.0);
    r.template notify<std::vector<int>>(key, std::vector<int>{1});
    r.template notify<std::vector<int>>(key, std::move(v));
    r.template notify<int *>(key, std::move(p));
    r.template notify<const std::vector<int> &, std::string &>(key, v, s);
}
void plain(tulz::SubjectRouter &r, const tulz::RoutingKey &key, int i, std::string s, std::vector<int> v, double d, int *p) { router_forms(r, key, i, s, v, d, p); }
void concurrent(tulz::ConcurrentSubjectRouter &r, const tulz::RoutingKey &key, int i, std::string s, std::vector<int> v, double d, int *p) { router_forms(r, key, i, s, v, d, p); }
}
