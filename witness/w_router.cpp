// witness TU (no executable logic): SubjectRouter / ConcurrentSubjectRouter subscribe/notify for seven
// argument signatures (C06, C11, C13, C15).
#include <string>
#include <tulz/observer/routing/SubjectRouter.h>
#include <tulz/observer/routing/ConcurrentSubjectRouter.h>
#include <tulz/observer/routing/RoutingKeyBuilder.h>

namespace w {
template<typename R>
void router_forms(R &r, const tulz::RoutingKey &key, int i, std::string s) {
    auto s0 = r.template subscribe<>(key, [] {});
    auto s1 = r.template subscribe<int>(key, [](int) {});
    auto s2 = r.template subscribe<std::string>(key, [](std::string) {});
    auto s3 = r.template subscribe<const std::string &>(key, [](const std::string &) {});
    auto s4 = r.template subscribe<std::string &>(key, [](std::string &) {});
    auto s5 = r.template subscribe<int, std::string>(key, [](int, std::string) {});
    auto s6 = r.template subscribe<int &>(key, [](int &) {});

    r.notify(key);
    r.template notify<int>(key, 1);
    r.template notify<int>(key, std::move(i));
    r.template notify<std::string>(key, std::string("x"));
    r.template notify<const std::string &>(key, s);
    r.template notify<std::string &>(key, s);
    r.template notify<int, std::string>(key, 1, std::string("y"));
    r.template notify<int &>(key, i);
    r.notify(key, i);            // deduced: Args = int&
    r.notify(key, 2);            // deduced: Args = int
    r.notify(key, s);            // deduced: Args = std::string&

    r.shrink(key);
    (void)r.exists(key);
    (void)r.depth();
}

void plain(tulz::SubjectRouter &r, const tulz::RoutingKey &key, int i, std::string s) { router_forms(r, key, i, s); }
void concurrent(tulz::ConcurrentSubjectRouter &r, const tulz::RoutingKey &key, int i, std::string s) {
    router_forms(r, key, i, s);
    auto u = r.subscribe<int>(key, [](int) {});
    u->unsubscribe(); u->mute(); u->unmute(); (void)u->isMuted(); (void)u->isValid();
}
void builder() {
    auto k = tulz::RoutingKeyBuilder("a", std::regex(".*"), std::string("b")).build();
    auto k2 = tulz::RoutingKeyBuilder().level("x").all().level(std::regex("y")).build();
}
}
