// thorough-tier witness TU: further element types for the container rules (C04, C09, C14)
#include <string>
#include <utility>
#include <vector>
#include <tulz/container/Array.h>
#include <tulz/container/RingBuffer.h>

template class tulz::RingBuffer<double, false>;
template class tulz::RingBuffer<std::vector<int>, true>;
template class tulz::RingBuffer<std::pair<int, std::string>, false>;
template class tulz::RingBuffer<long, true>;

template class tulz::Array<double>;
template class tulz::Array<long>;
template class tulz::Array<std::vector<int>>;
template class tulz::Array<std::pair<int, std::string>>;

namespace wt {
void ring_members(tulz::RingBuffer<double, false> &a, tulz::RingBuffer<std::vector<int>, true> &b,
                  tulz::RingBuffer<std::pair<int, std::string>, false> &c, tulz::RingBuffer<long, true> &d,
                  std::vector<int> v, std::pair<int, std::string> p, double x, long l) {
    a.emplace_back(x);            a.emplace_front(1.5);
    b.emplace_back(v);            b.emplace_front(std::move(v));   b.emplace_back(3, 7);   b.emplace_front();
    c.emplace_back(p);            c.emplace_front(1, "s");          c.emplace_back(std::move(p));
    d.emplace_back(l);            d.emplace_front(2L);
    (void)(b == b); (void)(a == a);
}
}
