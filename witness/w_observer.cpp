// witness TU (no executable logic): Subject / Subscription / Observer / Observable instantiations
// for the observer rules (C05, C10, C16).
#include <string>
#include <functional>
#include <tulz/observer/Subject.h>
#include <tulz/observer/Observable.h>
#include <tulz/observer/USubscription.h>

template class tulz::Subject<>;
template class tulz::Subject<int>;
template class tulz::Subject<std::string>;
template class tulz::Subject<const std::string &>;
template class tulz::Subject<std::string &>;
template class tulz::Subject<int, std::string>;
template class tulz::Subject<int &>;

template class tulz::Subscription<>;
template class tulz::Subscription<int>;
template class tulz::Subscription<const std::string &>;
template class tulz::Subscription<int, std::string>;

template class tulz::EternalObserver<>;
template class tulz::EternalObserver<int>;
template class tulz::EternalObserver<const std::string &>;
template class tulz::EternalObserver<int, std::string>;

namespace w {
struct NearEq {
    bool operator()(const float &a, const float &b) const { return a - b < 0.5f && b - a < 0.5f; }
};

void subscribe_forms(tulz::Subject<int> &s, tulz::Subject<> &s0, tulz::Subject<const std::string &> &ss) {
    auto a = s.subscribe([](int) {});
    auto b = s.subscribe([](tulz::Observer<int>::SelfView self, int) { self->invalidate(); });
    auto c = s.subscribe(std::make_unique<tulz::EternalObserver<int>>([](int) {}));
    auto d = s0.subscribe([] {});
    auto e = ss.subscribe([](const std::string &) {});
    tulz::USubscription u(std::move(a));
    u->mute(); u->unmute(); (void)u->isMuted(); (void)u->isValid(); u->unsubscribe();
    tulz::USubscription u2(std::move(e));
    tulz::USubscription u3(std::move(d));
    u2 = std::move(u3);
}

void observable_int(tulz::Observable<int> &o, int v) {
    auto sub = o.subscribe([](int &) {});
    o = v; o = 3;
    o += v; o -= v; o *= v; o /= v; o += 1;
    o++; ++o; o--; --o;
    o.apply([](int &x) { x = 1; });
    o.apply([](int &x) { return x -= 1; });          // a callable that returns something: whichever apply() overload takes it is analysed
    (void)*o; (void)o.value();
}

void observable_float(tulz::Observable<float, NearEq> &o, float v) {
    auto sub = o.subscribe([](float &) {});
    o = v;
    o += v; o -= v; o *= v; o /= v;
    o++; ++o; o--; --o;
    o.apply([](float &x) { x = 1; });
}

void observable_string(tulz::Observable<std::string> &o, std::string v) {
    auto sub = o.subscribe([](std::string &) {});
    o = v; o = "lit"; o = std::move(v);
    o += std::string("y");
    o.apply([](std::string &x) { x.clear(); });
    o.apply([](std::string &x) { x.pop_back(); return x.size(); });
}
}
