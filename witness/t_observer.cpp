// thorough-tier witness TU: further argument signatures for the observer rules (C05, C10, C16)
#include <memory>
#include <string>
#include <vector>
#include <tulz/observer/Subject.h>
#include <tulz/observer/Observable.h>

template class tulz::Subject<double>;
template class tulz::Subject<const int &>;
template class tulz::Subject<int *, std::string &, double>;
template class tulz::Subject<std::vector<int>>;
template class tulz::Subject<std::unique_ptr<int> &>;
template class tulz::Subject<const std::vector<std::string> &, int>;

namespace wt {
void observable_double(tulz::Observable<double> &o, double v) {
    auto sub = o.subscribe([](double &) {});
    o = v; o += v; o -= v; o *= v; o /= v; o++; ++o; o--; --o;
    o.apply([](double &x) { x = 1; });
}
void observable_long(tulz::Observable<long> &o, long v) {
    auto sub = o.subscribe([](long &) {});
    o = v; o = 3L; o += v; o -= 1L; o *= v; o /= v; o++; ++o; o--; --o;
}
void observable_unsigned(tulz::Observable<unsigned> &o, unsigned v) {
    o = v; o += v; o++; --o;
    o.apply([](unsigned &x) { x <<= 1; });
}
void observable_vector(tulz::Observable<std::vector<int>> &o, std::vector<int> v) {
    auto sub = o.subscribe([](std::vector<int> &) {});
    o = v; o = std::move(v); o = std::vector<int>{1, 2};
    o.apply([](std::vector<int> &x) { x.push_back(1); });
}
}
