// witness element type with user-provided special members (a "class type" for the containers)
#ifndef VERIF_W_TYPES_H
#define VERIF_W_TYPES_H
#include <string>
namespace w {
struct W {
    W();
    W(int, const char *);
    W(const W &);
    W(W &&) noexcept;
    W &operator=(const W &);
    W &operator=(W &&) noexcept;
    ~W();
    bool operator==(const W &) const;
    int tag;
};
// trivially destructible, but copying goes through its own copy constructor (std::is_trivially_copyable_v is false)
struct Tok {
    Tok();
    Tok(const Tok &);
    Tok &operator=(const Tok &);
    bool operator==(const Tok &) const;
    int tag;
};
// plain data: a class type that is trivially copyable and trivially destructible
struct Pod {
    float x, y, z;
};
}
#endif
