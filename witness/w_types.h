// witness element type with user-provided special members (a "class type" for the containers)
#ifndef VERIF_W_TYPES_H
#define VERIF_W_TYPES_H
#include <string>
namespace w {
struct W {
    W();
    W(int, const char *);
    W(const W &);
    W(W &&) noexcept;
    W &operator=(const W &);
    W &operator=(W &&) noexcept;
    ~W();
    bool operator==(const W &) const;
    int tag;
};
}
#endif
