// witness TU (no executable logic): Thread / ThreadPool templated start() and constructor for function
// pointers, captureless lambdas, closures (small and 256-byte), with and without lvalue arguments (C20, C07).
#include <string>
#include <tulz/threading/Thread.h>
#include <tulz/threading/ThreadPool.h>

namespace w {
void fn0();
void fn1(int);
void fn2(int &, std::string &);
struct Big { char pad[256]; void operator()() const; };
struct Task : tulz::Runnable { void run() override; };

void thread_forms(tulz::Thread &t, int &i, std::string &s, int k) {
    t.start(&fn0);
    t.start(fn0);
    t.start([] {});
    t.start([k] { (void)k; });
    t.start(Big{});
    t.start(&fn1, i);
    t.start(fn2, i, s);
    t.start([](int &a) { a = 1; }, i);
    t.start(new Task);
    tulz::Thread t1(&fn0);
    tulz::Thread t2([k] { (void)k; });
    tulz::Thread t3(fn2, i, s);
    t.join(); (void)t.isFinished(); (void)t.isRunning(); (void)t.isJoinable();
}

void pool_forms(tulz::ThreadPool &p, int &i, std::string &s, int k) {
    p.start(&fn0);
    p.start([] {});
    p.start([k] { (void)k; });
    p.start(Big{});
    p.start(&fn1, i);
    p.start(fn2, i, s);
    p.start(new Task);
    p.update(); p.clear(); p.stop();
    (void)p.getThreadCount(); (void)p.getActiveThreadCount(); (void)p.isRunning();
    (void)p.getExpiryTimeout(); (void)p.getMaxThreadCount();
}
}
