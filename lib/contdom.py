"""A5: affine / modular abstract domain for the containers (Array, RingBuffer).

Values: Lin (linear forms over entry symbols), ModVal (euclidean residue of a linear form modulo the capacity),
Ptr (symbolic block + element offset), ElemRef (an element slot), Bytes (n * sizeof(T)), MinVal.
Loops in canonical form are *summarised* into range effects (no unrolling), so every statement about indices holds for
all sizes; order relations between symbols that the code branches on are table rows supplied by the rule.
"""
import itertools, operator
from facts import Node, Inconclusive, strip_targs
from symex import Domain, Exec, Lin, Enum, Unknown, Record, Ref, Closure, Sym, State, Frame, as_lin

OPF = {'<': operator.lt, '<=': operator.le, '>': operator.gt, '>=': operator.ge, '==': operator.eq, '!=': operator.ne}
FLIP = {'<': '>', '>': '<', '<=': '>=', '>=': '<=', '==': '==', '!=': '!='}


class ModVal:
    """euclidean (inner mod cap), always in [0, cap)"""
    __slots__ = ('inner', 'cap')
    def __init__(self, inner, cap):
        # canonical representative: multiples of the capacity symbol do not change the residue
        if isinstance(cap, Lin) and cap.c == 0 and len(cap.t) == 1 and isinstance(inner, Lin):
            (s_, c_), = cap.t.items()
            if c_ == 1 and s_ in inner.t: inner = Lin({k: v for k, v in inner.t.items() if k != s_}, inner.c)
        self.inner = inner; self.cap = cap
    def __repr__(self): return f'Mod({self.inner})'
    def __eq__(self, o): return isinstance(o, ModVal) and o.inner == self.inner and o.cap == self.cap
    def __hash__(self): return hash(('mod', self.inner))


class ModPlus:
    """Mod(inner) + k as an integer (not yet reduced)"""
    __slots__ = ('mod', 'k')
    def __init__(self, mod, k): self.mod = mod; self.k = k
    def __repr__(self): return f'{self.mod}+{self.k}'
    def total(self): return self.mod.inner + self.k


class Ptr:
    __slots__ = ('base', 'off')
    def __init__(self, base, off=None): self.base = base; self.off = off if off is not None else Lin.const(0)
    def __repr__(self): return f'{self.base}+{self.off}' if not (isinstance(self.off, Lin) and self.off == Lin.const(0)) else f'{self.base}'
    def __eq__(self, o): return isinstance(o, Ptr) and o.base == self.base and o.off == self.off
    def __hash__(self): return hash(('ptr', self.base, repr(self.off)))


class ElemRef:
    """lvalue designating element slot `ptr` (physical) or logical element `k` of container object `obj`"""
    __slots__ = ('ptr', 'obj', 'k')
    def __init__(self, ptr=None, obj=None, k=None): self.ptr = ptr; self.obj = obj; self.k = k
    def __repr__(self): return f'*({self.ptr})' if self.ptr is not None else f'{self.obj}[[{self.k}]]'


class Bytes:
    __slots__ = ('n',)
    def __init__(self, n): self.n = n
    def __repr__(self): return f'{self.n}*sizeof(T)'


def as_bytes(v):
    """k * sizeof(T) that the evaluator folded into a plain linear form (a constant count: `resize(1)`) is a byte count of k elements"""
    if isinstance(v, Lin) and set(v.t) == {'sizeofT'} and v.c == 0 and v.t['sizeofT'] > 0: return Bytes(Lin.const(v.t['sizeofT']))
    return v


class MinVal:
    __slots__ = ('a', 'b')
    def __init__(self, a, b): self.a = a; self.b = b
    def __repr__(self): return f'min({self.a},{self.b})'


class Rem:
    """truncated C remainder a % b (sign follows a): only turned into a ModVal when proven euclidean"""
    __slots__ = ('a', 'b', 'unsigned_wrap')
    def __init__(self, a, b, w=False): self.a = a; self.b = b; self.unsigned_wrap = w
    def __repr__(self): return f'({self.a} % {self.b})'


def nonneg(l):
    return isinstance(l, Lin) and l.c >= 0 and all(v >= 0 for v in l.t.values())


def _subst(l, sym, repl):
    c = l.t.get(sym, 0)
    if not c: return l
    rest = Lin({k: v for k, v in l.t.items() if k != sym}, l.c)
    return rest + repl.scale(c)


def lower_bound_sign(d):
    """1 if d > 0 follows from the object invariants (0 <= S <= C, 0 <= P < C, all size symbols >= 0), 0 if d >= 0 follows, else None"""
    best = None
    for sub in (None, ('C', Lin({'S': 1, '#a': 1})), ('C', Lin({'P': 1, '#b': 1}, 1))):
        x = d if sub is None else _subst(d, sub[0], sub[1])
        if nonneg(x):
            v = 1 if x.c > 0 else 0
            best = v if best is None else max(best, v)
    return best


def feasible_sign(d, sign):
    """can the linear form d have this sign ('<', '=', '>') given the object invariants?"""
    lo = lower_bound_sign(d); hi = lower_bound_sign(-d)
    if lo == 1 and sign != '>': return False
    if lo == 0 and sign == '<': return False
    if hi == 1 and sign != '<': return False
    if hi == 0 and sign == '>': return False
    return True


class ContDomain(Domain):
    max_depth = 7
    loop_unroll = 1
    correlate_unknowns = True      # an opaque condition (a bool parameter) read twice on a path has one value

    def __init__(self, T, is_class, rows=None, objs=('this',)):
        self.T = T; self.is_class = is_class; self.rows = rows or {}
        self.consulted = set()
        self.unknown_cmp = []
        self.ctor = False
        self.fresh = itertools.count()
        self.ord_vals = {}      # 'L ? R' -> (L value, R value) of every order atom consulted
        self.imprecise = []     # (kind, site): places where the evaluation lost exactness (unsummarised loops)

    # ---- initial values --------------------------------------------------------------------------------------------------
    def init_field(self, path, node):
        obj = '.'.join(str(p) for p in path[:-1]) or 'this'
        pre = '' if obj == 'this' else obj + '.'
        last = path[-1]
        if self.ctor and obj == 'this' and last in getattr(self, 'no_default_init', ()) and last in ('m_size', 'm_capacity', 'm_pos', 'm_data', 'm_array'):
            return Unknown('uninit:' + str(last))        # no default member initialiser: whatever the storage held
        if last in ('m_size',): return Lin.const(0) if (self.ctor and obj == 'this') else Lin.sym(pre + 'S')
        if last == 'm_capacity': return Lin.const(0) if (self.ctor and obj == 'this') else Lin.sym(pre + 'C')
        if last == 'm_pos': return Lin.const(0) if (self.ctor and obj == 'this') else Lin.sym(pre + 'P')
        if last in ('m_data', 'm_array'): return Ptr('null') if (self.ctor and obj == 'this') else Ptr(pre + 'data0')
        if last == 'm_index': return Lin.sym(pre + 'index')
        if last == 'm_container': return Ref(('f', (pre + 'container',)))
        return Unknown('field:' + str(last))

    def init_param(self, fn, p):
        ct = p['ctype']
        if p.get('isptr'): return Ptr('param:' + p['name'])
        base = ct.replace('const ', '').replace('&', '').strip()
        if base in ('unsigned long', 'long', 'int', 'unsigned int', 'size_t', 'ssize_t', 'bool'):
            if base == 'bool':
                v = self.rows.get('param:' + p['name'])
                return v if v is not None else Unknown('param:' + p['name'])
            return Lin.sym('p:' + p['name'])
        if 'RingBuffer<' in ct or 'Array<' in ct or 'RandomAccessIndexIterator<' in ct:
            if getattr(self, 'self_alias', False) and ('RingBuffer<' in ct or 'Array<' in ct) and (p.get('isref') or p.get('isrref')):
                return Ref(('f', ('this',)))          # x = x / x = std::move(x): the parameter *is* this object, every field is shared
            return Ref(('f', (p['name'],)))
        if 'initializer_list' in ct: return Sym('il:' + p['name'])
        return Sym('param:' + p['name'])

    # ---- arithmetic ----------------------------------------------------------------------------------------------------------
    def resolve_rem(self, v):
        """a truncated remainder that the row says is >= 0 (or whose dividend cannot be negative) is the euclidean residue"""
        if isinstance(v, Rem) and not v.unsigned_wrap:
            if nonneg(v.a): return ModVal(v.a, v.b)
            fact = self.rows.get(('ord', self.key_for(v, Lin.const(0))))
            if fact in ('=', '>'): return ModVal(v.a, v.b)
        return v

    def arith(self, ex, n, op, l, r, st, fr):
        if isinstance(l, Ref): l = ex.read(l.loc, st)
        if isinstance(r, Ref): r = ex.read(r.loc, st)
        l = self.resolve_rem(l); r = self.resolve_rem(r)
        if op == '*':
            for a, b in ((l, r), (r, l)):
                if isinstance(a, Lin) and a.t == {'sizeofT': 1} and a.c == 0:
                    bl = as_lin(b)
                    if bl is not None: return Bytes(bl)
                    if isinstance(b, MinVal): return Bytes(b)
            return Unknown(('mul', n.id))
        if op == '/':
            if isinstance(l, Bytes) and isinstance(r, Lin) and r.t == {'sizeofT': 1}: return l.n
            ll, rl = as_lin(l), as_lin(r)
            if ll is not None and rl is not None and ll.is_const() and rl.is_const() and rl.c: return Lin.const(ll.c // rl.c)
            return Unknown(('div', n.id))
        if op in ('+', '-'):
            if isinstance(l, Ptr):
                rl = as_lin(r) if not isinstance(r, (ModVal, MinVal)) else r
                if isinstance(r, ModVal): return Ptr(l.base, ('mod', l.off, r)) if False else Ptr(l.base, r if l.off == Lin.const(0) else Unknown('ptr+mod'))
                if isinstance(r, MinVal): return Ptr(l.base, r if l.off == Lin.const(0) else Unknown('ptr+min'))
                if isinstance(r, Ptr) and op == '-' and l.base == r.base and isinstance(r.off, Lin) and r.off == Lin.const(0) and isinstance(l.off, (ModVal, MinVal)): return l.off
                if isinstance(r, Ptr) and op == '-': return (l.off - r.off) if (l.base == r.base and isinstance(l.off, Lin) and isinstance(r.off, Lin)) else Unknown('ptrdiff')
                if rl is not None: return Ptr(l.base, (l.off + rl) if op == '+' else (l.off - rl)) if isinstance(l.off, Lin) else Ptr(l.base, Unknown('off'))
            if isinstance(l, MinVal) or isinstance(r, MinVal):
                return Unknown(('minarith', n.id, op, repr(l), repr(r)))
            if isinstance(l, (ModVal, ModPlus)) or isinstance(r, (ModVal, ModPlus)):
                m, o, left = (l, r, True) if isinstance(l, (ModVal, ModPlus)) else (r, l, False)
                ol = as_lin(o) if not isinstance(o, (ModVal, ModPlus, MinVal, Bytes)) else None
                if ol is not None and (op == '+' or left):
                    k = ol if op == '+' else -ol
                    if isinstance(m, ModVal): return ModPlus(m, k)
                    return ModPlus(m.mod, m.k + k)
                return Unknown(('modarith', n.id))
            # Lin +- Rem : ((a % b) + b)
            if isinstance(l, Rem) and op == '+' and as_lin(r) is not None and as_lin(r) == l.b:
                if self.rows.get(('ord', self.key_for(l, Lin.const(0)))) == '<' and not l.unsigned_wrap: return ModVal(l.a, l.b)     # rem in (-b, 0): rem + b is the residue
                return ('rem+b', l)
            if isinstance(r, Rem) and op == '+' and as_lin(l) is not None and as_lin(l) == r.b:
                if self.rows.get(('ord', self.key_for(r, Lin.const(0)))) == '<' and not r.unsigned_wrap: return ModVal(r.a, r.b)
                return ('rem+b', r)
            return Unknown(('arith', n.id))
        if op == '%':
            a = l; b = as_lin(r)
            if isinstance(a, tuple) and a and a[0] == 'rem+b' and b is not None and a[1].b == b:
                rem = a[1]
                if rem.unsigned_wrap:
                    st.events.append(('c', n, ('bad-mod', f'`{n.text()[:60]}`: the index is converted to an unsigned type before %, so a negative index (m_pos - 1 with m_pos == 0) wraps to 2^64-1 and the result is only correct when the capacity is a power of two')))
                    return Unknown(('wrapped-mod', n.id))
                return ModVal(rem.a, b)
            if isinstance(a, ModVal): a = ModPlus(a, Lin.const(0))
            if isinstance(a, ModPlus) and b is not None and a.mod.cap == b and nonneg(a.k):
                return ModVal(a.total(), b)          # Mod(x) + k >= 0: truncated and euclidean remainder agree
            if isinstance(a, ModPlus) and b is not None and a.mod.cap == b:
                unsigned_op = not n.d.get('lhs_signed', True)
                return Rem(a.total(), b, unsigned_op and not nonneg(a.k))
            al = as_lin(a) if not isinstance(a, (MinVal, Bytes, Ptr, tuple)) else None
            if al is not None and b is not None:
                unsigned_op = not n.d.get('lhs_signed', True)
                maybe_neg = not nonneg(al)
                return Rem(al, b, unsigned_op and maybe_neg)
            return Unknown(('rem', n.id))
        return Unknown(('arith' + op, n.id))

    def rem_as_index(self, v, n, st):
        """a bare truncated remainder used as an index"""
        v = self.resolve_rem(v)
        if isinstance(v, Rem):
            if nonneg(v.a) and not v.unsigned_wrap: return ModVal(v.a, v.b)
            st.events.append(('c', n, ('bad-mod', f'`{n.text()[:50]}`: plain % on an index that may be negative ({v.a}) is not a modulo')))
            return Unknown(('rem-index', n.id))
        return v

    # ---- comparisons ------------------------------------------------------------------------------------------------------------
    def key_for(self, l, r):
        return f'{l!r} ? {r!r}'

    def deref(self, ex, n, v, st, fr):
        if isinstance(v, Ptr): return ElemRef(ptr=v)
        if isinstance(v, ElemRef): return v
        return None

    def compare(self, ex, op, l, r, n, st, fr):
        l = self.resolve_rem(l); r = self.resolve_rem(r)
        if isinstance(l, Rem) and nonneg(l.a) and not l.unsigned_wrap: l = ModVal(l.a, l.b)
        if isinstance(r, Rem) and nonneg(r.a) and not r.unsigned_wrap: r = ModVal(r.a, r.b)
        # a residue lies in [0, cap)
        for a_, b_, o_ in ((l, r, op), (r, l, FLIP[op])):
            bl_ = as_lin(b_) if not isinstance(b_, (ModVal, MinVal, Bytes, Rem, ModPlus, Ptr)) else None
            if isinstance(a_, ModVal) and bl_ is not None:
                if bl_.is_const() and bl_.c <= 0:
                    if o_ == '<': return False
                    if o_ == '>=': return True
                    if bl_.c < 0: return {'>': True, '<=': False, '==': False, '!=': True}[o_]
                if bl_ == a_.cap:
                    return {'<': True, '<=': True, '>': False, '>=': False, '==': False, '!=': True}[o_]
        if op in ('==', '!='):
            # the result of realloc(p, n) tested against null: null exactly when n == 0 (glibc frees and returns NULL; allocation failure is not modelled)
            isnull = lambda x: (isinstance(x, Ptr) and x.base == 'null') or (isinstance(x, Lin) and x.is_const() and x.c == 0) or (isinstance(x, int) and not isinstance(x, bool) and x == 0)
            for a_, b_ in ((l, r), (r, l)):
                if isinstance(a_, Ptr) and a_.base in getattr(self, 'realloc_size', {}) and isnull(b_):
                    ln = self.realloc_size[a_.base]
                    sg = self.sign_of(ln)
                    if sg is None:
                        self.unknown_cmp.append((repr(ln), n, ln)); return None
                    return (sg == 0) == (op == '==')
        if isinstance(l, Ptr) and isinstance(r, Ptr) and op in ('==', '!='):
            if l.base == r.base: return op == '=='
            k = f'alias({l.base},{r.base})'
            v = self.rows.get(k)
            if v is None: self.consulted.add(k); v = False      # distinct objects unless the row says otherwise
            return v if op == '==' else not v
        if (isinstance(l, Ref) or isinstance(r, Ref)) and op in ('==', '!='):
            # &other == this
            a = l.loc if isinstance(l, Ref) else None; b = r.loc if isinstance(r, Ref) else None
            if a is not None and b is not None:
                if a == b: return op == '=='
                if getattr(self, 'self_alias', False): return op == '=='
                v = False if self.ctor else self.rows.get('self', False); self.consulted.add('self')
                return v if op == '==' else not v
        ll = as_lin(l) if not isinstance(l, (ModVal, MinVal, Bytes)) else None
        rl = as_lin(r) if not isinstance(r, (ModVal, MinVal, Bytes)) else None
        if ll is not None and rl is not None:
            d = ll - rl
            key = repr(d)
            sgn = self.sign_of(d)
            if sgn is None:
                self.unknown_cmp.append((repr(d), n, d)); return None
            return OPF[op](sgn, 0)
        key = self.key_for(l, r)
        v = self.rows.get(('ord', key))
        self.consulted.add(('ord', key))
        self.ord_vals[key] = (l, r)
        if v is None:
            self.unknown_cmp.append((key, n, None)); return None
        return OPF[op]({'<': -1, '=': 0, '>': 1}[v], 0)

    def sign_of(self, d):
        """sign of linear form d under the row facts; None if unknown"""
        if d.is_const(): return (d.c > 0) - (d.c < 0)
        lo = lower_bound_sign(d); hi = lower_bound_sign(-d)
        if lo == 1: return 1
        if hi == 1: return -1
        key = repr(d); nkey = repr(-d)
        self.consulted.add(('sign', key))
        if ('sign', key) in self.rows: return {'<': -1, '=': 0, '>': 1}[self.rows[('sign', key)]]
        if ('sign', nkey) in self.rows: return -{'<': -1, '=': 0, '>': 1}[self.rows[('sign', nkey)]]
        return None

    def decide(self, ex, cond, value, st, fr):
        return None

    def step(self, v, d):
        """++p / --p on a pointer into a block"""
        if isinstance(v, Ptr) and isinstance(v.off, Lin): return Ptr(v.base, v.off + Lin.const(d))
        return None

    # ---- element / memory operations ---------------------------------------------------------------------------------------------
    def c_event(self, st, node, *payload):
        st.events.append(('c', node, payload))

    def elem_of(self, ex, n, st, fr):
        """ElemRef designated by an lvalue expression (subscript / deref / reference variable)"""
        v = ex._value(n, st, fr)
        if isinstance(v, ElemRef): return v
        if isinstance(v, Ref):
            x = st.store.get(v.loc)
            if isinstance(x, ElemRef): return x
        return None

    def ext_call(self, ex, n, st, fr):
        k = n.k
        if k == 'subscript':
            b = ex._rvalue(n.n('base'), st, fr); i = ex._rvalue(n.n('idx'), st, fr)
            i = self.rem_as_index(i, n, st)
            if isinstance(b, Ptr): return ElemRef(ptr=Ptr(b.base, self._ptr_add(b.off, i)))
            return Unknown(('subscript', n.id))
        if k == 'new':
            pl = [ex._value(p, st, fr) for p in n.ns('placement') if p is not None]
            init = n.n('init')
            src = None
            if init is not None and init.k == 'construct':
                a = [x for x in init.ns('args') if x is not None]
                src = []
                for x in a:
                    v = ex._value(x, st, fr)
                    if isinstance(v, Ref):
                        y = st.store.get(v.loc)
                        if isinstance(y, ElemRef): v = y
                    src.append(v)
            elif init is not None:
                v = ex._value(init, st, fr)
                if isinstance(v, Ref):
                    y = st.store.get(v.loc)
                    if isinstance(y, ElemRef): v = y
                src = [v]
            tgt = pl[0] if pl else None
            if isinstance(tgt, Ref):
                x = st.store.get(tgt.loc); tgt = x if isinstance(x, (ElemRef, Ptr)) else tgt
            if isinstance(tgt, ElemRef): tgt = tgt.ptr if tgt.ptr is not None else tgt
            self.c_event(st, n, 'elem', 'construct', tgt, src)
            return tgt
        if k == 'pseudodtor':
            e = self.elem_of(ex, n.n('base'), st, fr)
            self.c_event(st, n, 'elem', 'destroy', e.ptr if (e is not None and e.ptr is not None) else e, None)
            return None
        if k == 'delete':
            return Unknown('delete')
        if k == 'construct' and self.opaque(n):
            a0, a1 = n.ns('args')
            c = ex._value(a0, st, fr)
            if not isinstance(c, Ref):
                loc = ex.loc_of(a0, st, fr)
                c = Ref(loc) if loc is not None else c
            return Record({'m_container': c, 'm_index': ex._rvalue(a1, st, fr)}, 'iterator')
        if k == 'construct':
            args = [ex._value(a, st, fr) for a in n.ns('args') if a is not None]
            cls = n.d.get('class') or ''
            if (n.copy or n.move) and args:
                a0 = args[0]
                if isinstance(a0, Ref):
                    x = st.store.get(a0.loc)
                    a0 = x if x is not None else a0
                if isinstance(a0, ElemRef):
                    if n.move: self.c_event(st, n, 'elem', 'moveout', a0.ptr if a0.ptr is not None else a0, None)
                    return Sym(f'T@{n.id}')
                return ex._rvalue(n.ns('args')[0], st, fr)
            # T(args...) : a new value of the element type
            for a, an in zip(args, [x for x in n.ns('args') if x is not None]):
                if isinstance(a, ElemRef) and an.cat == 'x': self.c_event(st, n, 'elem', 'moveout', a.ptr if a.ptr is not None else a, None)
            return Sym(f'T@{n.id}')
        if k != 'call': return Unknown(k)
        q = strip_targs(n.calleeq or '')
        base = q.split('::')[-1]
        args = n.ns('args')
        vals = [ex._value(a, st, fr) if a is not None else None for a in args]
        rv = lambda i: ex._rvalue(args[i], st, fr) if i < len(args) and args[i] is not None else None
        if n.ck == 'dtor':
            e = self.elem_of(ex, n.n('object'), st, fr)
            self.c_event(st, n, 'elem', 'destroy', e.ptr if (e is not None and e.ptr is not None) else e, None); return None
        if base in ('malloc',) and q in ('malloc', 'std::malloc'):
            a = as_bytes(rv(0)); p = Ptr(f'blk@{n.line}:{n.id}')
            self.c_event(st, n, 'alloc', a, p); return p
        if base == 'realloc':
            old = rv(0); a = as_bytes(rv(1)); p = Ptr(f'blk@{n.line}:{n.id}')
            cnt = a.n if isinstance(a, Bytes) else a
            if isinstance(cnt, (Lin, int)) and as_lin(cnt) is not None:
                if not hasattr(self, 'realloc_size'): self.realloc_size = {}
                self.realloc_size[p.base] = as_lin(cnt)
            self.c_event(st, n, 'realloc', old, a, p); return p
        if base == 'free':
            self.c_event(st, n, 'free', rv(0)); return None
        if q in ('std::construct_at', 'std::ranges::construct_at') and args:
            tgt = rv(0)
            if isinstance(tgt, ElemRef): tgt = tgt.ptr if tgt.ptr is not None else tgt
            src = []
            for i in range(1, len(args)):
                v = vals[i]
                if isinstance(v, Ref):
                    y = st.store.get(v.loc)
                    if isinstance(y, ElemRef): v = y
                src.append(v)
            self.c_event(st, n, 'elem', 'construct', tgt, src); return tgt
        if q in ('std::destroy_at', 'std::ranges::destroy_at') and args:
            tgt = rv(0)
            if isinstance(tgt, ElemRef): tgt = tgt.ptr if tgt.ptr is not None else tgt
            self.c_event(st, n, 'elem', 'destroy', tgt, None); return None
        if base in ('memcpy', 'memmove'):
            self.c_event(st, n, 'memcpy', rv(0), rv(1), as_bytes(rv(2))); return rv(0)
        if base == 'min' and len(args) == 2:
            a, b = as_lin(rv(0)), as_lin(rv(1))
            if a is not None and b is not None:
                s = self.sign_of(a - b)
                if s is None:
                    self.unknown_cmp.append((repr(a - b), n, a - b)); return MinVal(a, b)
                return a if s <= 0 else b
            return Unknown(('min', n.id))
        if base == 'max' and len(args) == 2:
            a, b = as_lin(rv(0)), as_lin(rv(1))
            if a is not None and b is not None:
                s = self.sign_of(a - b)
                if s is not None: return a if s >= 0 else b
                self.unknown_cmp.append((repr(a - b), n, a - b))      # decided per row (row discovery splits on the order of the operands)
            return Unknown(('max', n.id))
        if q == 'std::swap' and len(args) == 2:
            la = ex.loc_of(args[0], st, fr); lb = ex.loc_of(args[1], st, fr)
            if la is not None and lb is not None:
                va = ex.read(la, st, args[0]); vb = ex.read(lb, st, args[1])
                ex.write(la, vb, st, n); ex.write(lb, va, st, n)
                self.c_event(st, n, 'swap', la, lb)
            return None
        r_ = self._std_range_algo(ex, n, q, base, args, st, fr)
        if r_ is not None: return r_[0]
        if q == 'std::for_each' and len(args) == 3 and self._sum_foreach(ex, n, args, st, fr): return Sym('ret:for_each')
        if q in ('std::copy', 'std::equal', 'std::fill', 'std::copy_n', 'std::uninitialized_copy', 'std::uninitialized_copy_n', 'std::move', 'std::reverse', 'std::rotate',
                 'std::for_each', 'std::transform', 'std::generate', 'std::generate_n', 'std::uninitialized_move', 'std::uninitialized_move_n', 'std::destroy', 'std::destroy_n',
                 'std::uninitialized_fill', 'std::uninitialized_fill_n', 'std::uninitialized_value_construct', 'std::uninitialized_value_construct_n',
                 'std::uninitialized_default_construct', 'std::uninitialized_default_construct_n', 'std::fill_n', 'std::move_backward', 'std::copy_backward', 'std::swap_ranges'):
            # an element-range algorithm in a form that is not modelled: everything said about element lifetimes in this function is inexact
            self.imprecise.append(('algorithm ' + q, n.shortloc()))
            self.c_event(st, n, 'algo', q, [ex._rvalue(a, st, fr) if a is not None else None for a in args]); return Sym(f'ret:{base}')
        if q.startswith('std::initializer_list'):
            o = n.n('object')
            on = ex._rvalue(o, st, fr) if o is not None else None
            if base == 'size': return Lin.sym('il.size')
            return Sym('il.' + base)
        if n.ck == 'op' and n.op in ('=',) and len(args) == 2:
            # T::operator=(T&&/const T&) on an element slot
            e = self.elem_of(ex, args[0], st, fr)
            if e is not None:
                self.c_event(st, n, 'elem', 'assign', e.ptr if e.ptr is not None else e, [vals[1]]); return vals[0]
        if n.ck == 'op' and n.op in ('++', '--') and args:
            # std::string etc. not expected; ignore
            return Unknown(('op', n.id))
        if q == '__assert_fail' or base == '__assert_fail': return None
        self.c_event(st, n, 'extcall', q, vals)
        return Sym(f'ret:{base}@{n.line}')

    def _sum_foreach(self, ex, n, args, st, fr):
        """std::for_each(X.begin(), X.end(), closure) over an initializer_list: the closure body is evaluated once on logical element
        k, with every pointer it captured by reference standing at start + k (it must step each by exactly one)"""
        a0 = ex._rvalue(args[0], st, fr); a1 = ex._rvalue(args[1], st, fr); clo = ex._rvalue(args[2], st, fr)
        if not (isinstance(a0, Sym) and a0.name == 'il.begin' and isinstance(a1, Sym) and a1.name == 'il.end' and isinstance(clo, Closure) and clo.fn is not None): return False
        if len(clo.fn.d['params']) != 1: return False
        isym = f'k#{next(self.fresh)}'; count = Lin.sym('il.size')
        st2 = st.clone(); sub = Frame(clo.fn, fr.this, fr.depth + 1)
        stepped = {}
        for dk, (mode, v) in clo.env.items():
            if mode == 'val': st2.store[('l', sub.id, dk)] = v; continue
            st2.store[('l', sub.id, dk)] = Ref(v)
            cur = st.store.get(v)
            if isinstance(cur, Ptr) and isinstance(cur.off, Lin): st2.store[v] = Ptr(cur.base, cur.off + Lin.sym(isym)); stepped[v] = cur
            elif isinstance(cur, Lin): st2.store[v] = cur + Lin.sym(isym); stepped[v] = cur
        st2.store[('l', sub.id, clo.fn.d['params'][0]['decl'])] = ElemRef(obj='il', k=Lin.sym(isym))
        n0 = len(st2.events)
        outs = [(s_, f_, e_) for s_, f_, e_ in ex._walk(sub, st2)]
        if len(outs) != 1 or outs[0][2] not in ('exit', 'return'): return False
        st3 = outs[0][0]
        for loc, cur in stepped.items():
            new = st3.store.get(loc)
            want = Ptr(cur.base, cur.off + Lin.sym(isym) + Lin.const(1)) if isinstance(cur, Ptr) else cur + Lin.sym(isym) + Lin.const(1)
            same = (new == want) if isinstance(cur, Ptr) else (isinstance(new, Lin) and new == want)
            unchanged = (new == st2.store.get(loc)) if isinstance(cur, Ptr) else (isinstance(new, Lin) and new == cur + Lin.sym(isym))
            if not (same or unchanged): return False
            if unchanged: stepped[loc] = None
        if self._ranges_from(st3.events[n0:], isym, Lin.const(0), count, st, n) is None: return False
        for loc, cur in stepped.items():
            if cur is None: continue
            st.store[loc] = Ptr(cur.base, cur.off + count) if isinstance(cur, Ptr) else cur + count
        return True

    def _std_range_algo(self, ex, n, q, base, args, st, fr):
        """<memory> / <algorithm> calls over element ranges as range events; a range end may be a raw pointer into a block, an
        iterator of a container object (logical index), or begin()/end() of the initializer list; returns (result,) or None"""
        A = [ex._rvalue(a, st, fr) if a is not None else None for a in args]

        def end_of(v):
            """('raw', base, offset) / ('logical', obj, index) for one range end"""
            if isinstance(v, Ref):
                x = st.store.get(v.loc); v = x if x is not None else v
            if isinstance(v, Ptr) and isinstance(v.off, Lin): return ('raw', v.base, v.off)
            if isinstance(v, Sym) and v.name == 'il.begin': return ('logical', 'il', Lin.const(0))
            if isinstance(v, Sym) and v.name == 'il.end': return ('logical', 'il', Lin.sym('il.size'))
            if isinstance(v, Record) and isinstance(v.f.get('m_container'), Ref) and as_lin(v.f.get('m_index')) is not None and isinstance(v.f.get('m_index'), (Lin, int)):
                loc = v.f['m_container'].loc
                if loc[0] == 'f': return ('logical', '.'.join(map(str, loc[1])), as_lin(v.f['m_index']))
            return None

        def rng(first, last=None, cnt=None):
            f_ = end_of(first)
            if f_ is None: return None
            if last is not None:
                l_ = end_of(last)
                if l_ is None or l_[:2] != f_[:2]: return None
                return f_[0], f_[1], f_[2], l_[2]
            c_ = as_lin(cnt) if isinstance(cnt, (Lin, int)) else None
            if c_ is None: return None
            return f_[0], f_[1], f_[2], f_[2] + c_

        def emit(kind, r, src, pair=False):
            # an iterator-pair algorithm walks `first != last`: a reversed range does not stop (unlike an `i < end` loop)
            self.c_event(st, n, 'range', kind, (r[0], r[1]), r[2], r[3], src, 'iterpair' if pair else 'counted')

        def dst_for(first, length):
            d_ = end_of(first)
            return None if d_ is None else (d_[0], d_[1], d_[2], d_[2] + length)

        def out(r): return Ptr(r[1], r[3]) if r[0] == 'raw' else Sym('ret:it')
        valsrc = lambda v: ('value', repr(v))
        res = None
        if q in ('std::uninitialized_copy_n', 'std::uninitialized_move_n', 'std::copy_n') and len(A) == 3:
            c_ = as_lin(A[1]) if isinstance(A[1], (Lin, int)) else None
            s_ = rng(A[0], cnt=A[1]); r = dst_for(A[2], c_) if c_ is not None else None
            if r and s_: emit('construct' if 'uninit' in q else 'assign', r, s_); res = out(r)
        elif q in ('std::uninitialized_copy', 'std::uninitialized_move', 'std::copy', 'std::move') and len(A) == 3:
            s_ = rng(A[0], last=A[1])
            r = dst_for(A[2], s_[3] - s_[2]) if s_ else None
            if r and s_: emit('construct' if 'uninit' in q else 'assign', r, s_, pair=True); res = out(r)
        elif q in ('std::uninitialized_fill_n', 'std::fill_n') and len(A) == 3:
            r = rng(A[0], cnt=A[1])
            if r: emit('construct' if 'uninit' in q else 'assign', r, valsrc(A[2])); res = out(r)
        elif q in ('std::uninitialized_fill', 'std::fill') and len(A) == 3:
            r = rng(A[0], last=A[1])
            if r: emit('construct' if 'uninit' in q else 'assign', r, valsrc(A[2]), pair=True); res = Sym('void')
        elif q in ('std::uninitialized_value_construct', 'std::uninitialized_default_construct') and len(A) == 2:
            r = rng(A[0], last=A[1])
            if r: emit('construct', r, ('value', 'T()'), pair=True); res = Sym('void')
        elif q in ('std::uninitialized_value_construct_n', 'std::uninitialized_default_construct_n') and len(A) == 2:
            r = rng(A[0], cnt=A[1])
            if r: emit('construct', r, ('value', 'T()')); res = out(r)
        elif q == 'std::destroy' and len(A) == 2:
            r = rng(A[0], last=A[1])
            if r: emit('destroy', r, None, pair=True); res = Sym('void')
        elif q == 'std::destroy_n' and len(A) == 2:
            r = rng(A[0], cnt=A[1])
            if r: emit('destroy', r, None); res = out(r)
        return (res,) if res is not None else None

    def sizeof_value(self, n):
        at = n.d.get('argtype')
        if at is not None and at == self.T: return Lin.sym('sizeofT')
        sub = n.n('sub')
        if sub is not None and (sub.type or '') == self.T: return Lin.sym('sizeofT')
        return Lin.const(n.d['v']) if 'v' in n.d else Unknown('sizeof')

    def assign_to(self, ex, n, lv, rv, st, fr):
        if isinstance(lv, ElemRef):
            self.c_event(st, n, 'elem', 'assign', lv.ptr if lv.ptr is not None else lv, [rv]); return lv
        return None

    def _ptr_add(self, off, i):
        if isinstance(i, (ModVal, MinVal)):
            return i if (isinstance(off, Lin) and off == Lin.const(0)) else Unknown('off+mod')
        il = as_lin(i)
        if isinstance(off, Lin) and il is not None: return off + il
        return Unknown('off')

    # assignment to an element lvalue of trivially-copyable / class type: symex turns `m_data[i] = v` into a write to a
    # location only if loc_of succeeds; element slots are not store locations, so intercept through ext hooks
    def opaque(self, n):
        # iterator objects are values (container reference + index): built directly instead of running the constructor
        return n.k == 'construct' and strip_targs(n.d.get('class') or '') == 'tulz::RandomAccessIndexIterator' and len(n.ns('args')) == 2

    # ---- loops ------------------------------------------------------------------------------------------------------------------------
    def summarise_loop(self, ex, loop, st, fr):
        r = None
        if loop.k == 'for':
            r = self._sum_for(ex, loop, st, fr)
            if r is None: r = self._sum_iterfor(ex, loop, st, fr)
        elif loop.k == 'rangefor': r = self._sum_rangefor(ex, loop, st, fr)
        if r is None:
            # the loop is unrolled a bounded number of times: statements about *all* iterations are no longer exact
            self.imprecise.append(('loop', loop.shortloc()))
        return r

    def _body_effects(self, ex, body, st, fr, binds):
        """evaluate the loop body once with the bindings in `binds` (decl -> value) on a cloned state; returns the
        ('c', ...) events and the local writes it performed, or None if the body branches / has unrecognised effects"""
        st2 = st.clone()
        for k, v in binds.items(): st2.store[('l', fr.id, k)] = v
        fr2 = ex._clone_frame(fr, dict(fr.vals))
        n0 = len(st2.events)
        # evaluate the statements of the body in source order through the CFG elements that belong to it
        ids = {x.id for x in body.walk()}
        cfg = fr.fn.cfg
        seq = []
        for bid in cfg.rpo():
            for e in cfg.blocks[bid].elems:
                if e.node is not None and e.node.id in ids: seq.append(e)
        for e in seq:
            if e.node.k in ('if', 'for', 'while', 'rangefor', 'break', 'continue', 'return', 'cond'): return None
            r = ex._elem(e, st2, fr2)
            if r is not None:
                # an inlined callee: fine as long as it has exactly one continuation (helpers like dataIndex / modCap)
                if r[0] == 'fork' and len(r[1]) == 1 and not r[2]:
                    st2, vals = r[1][0]
                    fr2 = ex._clone_frame(fr2, vals)
                    continue
                return None
        return st2, st2.events[n0:]

    def _sum_for(self, ex, loop, st, fr):
        init, cond, inc, body = loop.n('init'), loop.n('c'), loop.n('inc'), loop.n('body')
        if cond is None or inc is None or body is None: return None
        if init is not None:
            if init.k != 'decl' or not init.vars: return None
            iv = init.vars[0]['decl']
            if len(init.vars) > 1:
                # `for (size_t i = a, last = b; i < last; ++i)`: the counter is the variable the increment steps; the others are ordinary locals
                tgt = inc.n('sub') if inc is not None and inc.k == 'unop' else (inc.n('lhs') if inc is not None and inc.k == 'binop' else None)
                cand = [v_['decl'] for v_ in init.vars if tgt is not None and tgt.k == 'ref' and tgt.decl == v_['decl']]
                if len(cand) != 1: return None
                iv = cand[0]
        else:
            # for (; first != last; ++first): the counter is an existing local / by-value parameter
            c0 = cond.n('lhs') if cond.k == 'binop' else None
            if c0 is None or c0.k != 'ref' or c0.dk not in ('local', 'param') or c0.d.get('declref'): return None
            iv = c0.decl
        is_iv = lambda x: x is not None and x.k == 'ref' and x.decl == iv
        # i < b, i != b, b > i, b != i   (for `!=` the start must not exceed the bound: checked below)
        if cond.k != 'binop': return None
        plus1 = False
        if cond.op in ('<', '!=', '<=') and is_iv(cond.n('lhs')): bound_node = cond.n('rhs'); plus1 = cond.op == '<='
        elif cond.op in ('>', '!=', '>=') and is_iv(cond.n('rhs')): bound_node = cond.n('lhs'); plus1 = cond.op == '>='
        else: return None
        ne_form = cond.op == '!='
        inc_ok = (inc.k == 'unop' and inc.op == '++' and is_iv(inc.n('sub'))) or \
                 (inc.k == 'binop' and inc.op == '+=' and is_iv(inc.n('lhs')) and inc.n('rhs') is not None and inc.n('rhs').k == 'int' and inc.n('rhs').v == 1)
        if not inc_ok: return None
        a = as_lin(st.store.get(('l', fr.id, iv)))
        b = ex._rvalue(bound_node, st, fr)
        if isinstance(b, Ref): b = ex.read(b.loc, st)
        bl = as_lin(b)
        if a is None or bl is None: return None
        if plus1: bl = bl + Lin.const(1)          # i <= b  is  i < b + 1
        if not nonneg(bl - a):
            s = self.sign_of(bl - a)
            if s is None:
                self.unknown_cmp.append((repr(bl - a), loop, bl - a)); return None
            if s < 0 and ne_form: return None       # `i != b` starting above b does not terminate at b
            if s <= 0:
                return ('empty', repr(a), repr(bl))
        isym = f'i#{next(self.fresh)}'
        res = self._body_effects(ex, body, st, fr, {iv: Lin.sym(isym)})
        if res is None: return None
        st2, evs = res
        out = self._ranges_from(evs, isym, a, bl, st, loop)
        if out is None: return None
        # locals advanced once per iteration (i++ style counters) are advanced by the trip count
        self._advance_counters(ex, st, st2, fr, isym, bl - a)
        return ('range', repr(a), repr(bl))

    def _advance_counters(self, ex, st, st2, fr, isym, count):
        for loc, v2 in st2.store.items():
            if loc[0] != 'l' or loc[1] != fr.id: continue
            v1 = st.store.get(loc)
            l1, l2 = as_lin(v1) if not isinstance(v1, (ModVal, MinVal, Bytes, Ptr)) else None, as_lin(v2) if not isinstance(v2, (ModVal, MinVal, Bytes, Ptr)) else None
            if l1 is not None and l2 is not None and l2 != l1:
                d = l2 - l1
                if d == Lin.const(1): st.store[loc] = l1 + count
                elif isym not in d.t: st.store[loc] = Unknown('loop-modified')

    def _ranges_from(self, evs, isym, a, b, st, loop):
        """turn the per-iteration element events (index affine in isym with coefficient 1) into range events on `st`"""
        found = False
        for k, node, p in evs:
            if k != 'c': continue
            if p[0] == 'elem':
                _, kind, tgt, src = p
                idx = tgt.off if isinstance(tgt, Ptr) else None
                basep = tgt.base if isinstance(tgt, Ptr) else None
                if isinstance(tgt, ElemRef) and tgt.obj is not None:
                    # logical element of a container object
                    kk = as_lin(tgt.k)
                    if kk is None or kk.t.get(isym) != 1: return None
                    rest = Lin({s: c for s, c in kk.t.items() if s != isym}, kk.c)
                    self.c_event(st, node, 'range', kind, ('logical', tgt.obj), rest + a, rest + b, self._src_range(src, isym, a, b)); found = True; continue
                if isinstance(idx, ModVal):
                    inn = idx.inner
                    if inn.t.get(isym) != 1: return None
                    rest = Lin({s: c for s, c in inn.t.items() if s != isym}, inn.c)
                    self.c_event(st, node, 'range', kind, ('mod', basep), rest + a, rest + b, self._src_range(src, isym, a, b)); found = True; continue
                il = as_lin(idx) if idx is not None and not isinstance(idx, (MinVal,)) else None
                if il is None or il.t.get(isym) != 1: return None
                rest = Lin({s: c for s, c in il.t.items() if s != isym}, il.c)
                self.c_event(st, node, 'range', kind, ('raw', basep), rest + a, rest + b, self._src_range(src, isym, a, b)); found = True
            elif p[0] in ('bad-mod',):
                st.events.append((k, node, p))
            elif p[0] == 'extcall':
                continue
            else:
                return None
        return found or None

    def _src_range(self, src, isym, a, b):
        if not src: return None
        s0 = src[0]
        if isinstance(s0, Ref): return None
        if isinstance(s0, ElemRef):
            if s0.obj is not None:
                kk = as_lin(s0.k)
                if kk is not None and kk.t.get(isym) == 1:
                    rest = Lin({s: c for s, c in kk.t.items() if s != isym}, kk.c)
                    return ('logical', s0.obj, rest + a, rest + b)
            if s0.ptr is not None and isinstance(s0.ptr.off, ModVal) and isinstance(s0.ptr.off.inner, Lin) and s0.ptr.off.inner.t.get(isym) == 1 and s0.ptr.base.endswith('data0'):
                # physical slot (pos + k) mod cap of an object = its logical element k
                obj = s0.ptr.base[:-len('data0')].rstrip('.') or 'this'
                pre = '' if obj == 'this' else obj + '.'
                inn = s0.ptr.off.inner
                rest = Lin({s: c for s, c in inn.t.items() if s != isym}, inn.c) - Lin.sym(pre + 'P')
                return ('logical', obj, rest + a, rest + b)
            if s0.ptr is not None and isinstance(s0.ptr.off, Lin) and s0.ptr.off.t.get(isym) == 1:
                rest = Lin({s: c for s, c in s0.ptr.off.t.items() if s != isym}, s0.ptr.off.c)
                return ('raw', s0.ptr.base, rest + a, rest + b)
        return ('value', repr(s0))

    def _sum_iterfor(self, ex, loop, st, fr):
        """for (auto it = X.begin()[, last = X.end()]; it != X.end() | last; ++it[, ++p ...]) body   — X an initializer_list or a
        container object: the body is evaluated once with `it` designating logical element k of X, every pointer / counter stepped
        in the increment part standing at start + k"""
        init, cond, inc, body = loop.n('init'), loop.n('c'), loop.n('inc'), loop.n('body')
        if init is None or cond is None or inc is None or body is None or init.k != 'decl' or not (1 <= len(init.vars) <= 2): return None
        itv = init.vars[0]; itd = itv['decl']
        is_it = lambda x: x is not None and x.k == 'ref' and x.decl == itd
        if not (cond.k in ('binop', 'call') ): return None
        # condition: it != <end>
        if cond.k == 'binop':
            if cond.op not in ('!=', '<') or not is_it(cond.n('lhs')): return None
            end_node = cond.n('rhs')
        else:
            a = [x for x in cond.ns('args') if x is not None]
            if cond.ck != 'op' or cond.op not in ('!=', '<') or len(a) != 2 or not is_it(a[0]): return None
            end_node = a[1]
        # increment part: ++it plus any number of ++x / x++ on other locals
        incs = []
        def collect(n):
            if n is None: return False
            if n.k == 'binop' and n.op == ',': return collect(n.n('lhs')) and collect(n.n('rhs'))
            if n.k == 'unop' and n.op == '++' and n.n('sub') is not None and n.n('sub').k == 'ref': incs.append(n.n('sub').decl); return True
            if n.k == 'call' and n.ck == 'op' and n.op == '++' and n.ns('args') and n.ns('args')[0] is not None and n.ns('args')[0].k == 'ref': incs.append(n.ns('args')[0].decl); return True
            return False
        if not collect(inc) or incs.count(itd) != 1: return None
        v0 = st.store.get(('l', fr.id, itd))
        isym = f'k#{next(self.fresh)}'
        count = None; bind = None
        if isinstance(v0, Sym) and v0.name == 'il.begin':
            count = Lin.sym('il.size'); bind = ElemRef(obj='il', k=Lin.sym(isym)); end_ok = lambda e: isinstance(e, Sym) and e.name == 'il.end'
        elif isinstance(v0, Record) and isinstance(v0.f.get('m_container'), Ref) and as_lin(v0.f.get('m_index')) == Lin.const(0):
            cref = v0.f['m_container']
            if cref.loc[0] != 'f': return None
            sz = as_lin(ex.read(('f', cref.loc[1] + ('m_size',)), st, loop))
            if sz is None: return None
            count = sz; bind = Record(dict(v0.f, m_index=Lin.sym(isym)), v0.tag)
            end_ok = lambda e: isinstance(e, Record) and isinstance(e.f.get('m_container'), Ref) and e.f['m_container'].loc == cref.loc and as_lin(e.f.get('m_index')) == sz
        else: return None
        ev_ = ex._rvalue(end_node, st, fr)
        if isinstance(ev_, Ref): ev_ = ex.read(ev_.loc, st)
        if not end_ok(ev_): return None
        st3 = st.clone(); starts = {}
        for d_ in incs:
            if d_ == itd: continue
            loc = ('l', fr.id, d_); cur = st.store.get(loc)
            if isinstance(cur, Ptr) and isinstance(cur.off, Lin): st3.store[loc] = Ptr(cur.base, cur.off + Lin.sym(isym)); starts[loc] = cur
            elif as_lin(cur) is not None and isinstance(cur, (Lin, int)): st3.store[loc] = as_lin(cur) + Lin.sym(isym); starts[loc] = cur
            else: return None
        res = self._body_effects(ex, body, st3, fr, {itd: bind})
        if res is None: return None
        st2, evs = res
        out = self._ranges_from(evs, isym, Lin.const(0), count, st, loop)
        if out is None: return None
        for loc, cur in starts.items():
            st.store[loc] = Ptr(cur.base, cur.off + count) if isinstance(cur, Ptr) else as_lin(cur) + count
        return ('iter-for', repr(count))

    def _sum_rangefor(self, ex, loop, st, fr):
        rng = loop.n('range'); body = loop.n('body')
        if rng is None or body is None: return None
        rv = ex._value(rng, st, fr)
        if isinstance(rv, Ref):
            x = st.store.get(rv.loc)
            if isinstance(x, Sym) or (isinstance(x, Ref) and x.loc[0] == 'f'): rv = x
        var = loop.var
        isym = f'k#{next(self.fresh)}'
        count = None; bind = None
        if isinstance(rv, Sym) and rv.name.startswith('il:'):
            count = Lin.sym('il.size'); bind = ElemRef(obj='il', k=Lin.sym(isym))
        elif isinstance(rv, Ref) and rv.loc[0] == 'f':
            # a container object (this / other): iterates its logical elements [0, size) through begin()/end()/operator*
            obj = '.'.join(map(str, rv.loc[1]))
            sz = ex.read(('f', rv.loc[1] + ('m_size',)), st, rng)
            count = as_lin(sz); bind = ElemRef(obj=obj, k=Lin.sym(isym))
        if count is None: return None
        res = self._body_effects(ex, body, st, fr, {var['decl']: bind})
        if res is None: return None
        st2, evs = res
        # counters incremented in the body (i++) : their per-iteration value is start + k
        subst = {}
        for loc, v2 in st2.store.items():
            if loc[0] == 'l' and loc[1] == fr.id:
                v1 = st.store.get(loc); l1, l2 = as_lin(v1) if isinstance(v1, (Lin, int)) else None, as_lin(v2) if isinstance(v2, (Lin, int)) else None
                if l1 is not None and l2 is not None and (l2 - l1) == Lin.const(1): subst[loc] = l1
                # a pointer stepped by one element per iteration (`T *dst = m_array; … construct_at(dst++, e)`)
                if isinstance(v1, Ptr) and isinstance(v2, Ptr) and v1.base == v2.base and isinstance(v1.off, Lin) and isinstance(v2.off, Lin) and (v2.off - v1.off) == Lin.const(1): subst[loc] = v1
        if subst:
            # re-evaluate with counter = start + k
            st3 = st.clone()
            for loc, l1 in subst.items(): st3.store[loc] = (Ptr(l1.base, l1.off + Lin.sym(isym)) if isinstance(l1, Ptr) else l1 + Lin.sym(isym))
            res = self._body_effects(ex, body, st3, fr, {var['decl']: bind})
            if res is None: return None
            _, evs = res
        out = self._ranges_from(evs, isym, Lin.const(0), count, st, loop)
        if out is None: return None
        for loc, l1 in subst.items(): st.store[loc] = (Ptr(l1.base, l1.off + count) if isinstance(l1, Ptr) else l1 + count)
        return ('range-for', repr(count))


def concrete(v, env):
    """value of an abstract index expression under a valuation of the entry symbols (None if it contains anything else)"""
    if isinstance(v, bool): return int(v)
    if isinstance(v, int): return v
    if isinstance(v, Lin):
        t = v.c
        for k, c in v.t.items():
            if k not in env: return None
            t += c * env[k]
        return t
    if isinstance(v, ModVal):
        a = concrete(v.inner, env); b = concrete(v.cap, env)
        return None if a is None or not b else a % b
    if isinstance(v, ModPlus):
        a = concrete(v.mod, env); k = concrete(v.k, env)
        return None if a is None or k is None else a + k
    if isinstance(v, Rem):
        a = concrete(v.a, env); b = concrete(v.b, env)
        if a is None or not b: return None
        r = abs(a) % abs(b)
        return r if a >= 0 else -r
    if isinstance(v, MinVal):
        a = concrete(v.a, env); b = concrete(v.b, env)
        return None if a is None or b is None else min(a, b)
    return None
