"""Obligation bookkeeping, known-findings filter, evidence writer, output contract (DESIGN App. D)."""
import json, os, sys, time

VERIF = os.path.dirname(os.path.dirname(os.path.abspath(__file__)))
EVDIR = os.environ.get('VERIF_EVIDENCE_DIR') or os.path.join(VERIF, 'evidence')


class Report:
    def __init__(self, prop, tier='quick'):
        self.prop = prop; self.tier = tier
        self.obligations = []      # dicts: rule, instance, site, status, why, key, nontrivial
        self.counts = {}
        self.floors = []           # (name, measured, minimum)
        self.broken = []           # (anchor, why)
        self.notes = []
        self.assumptions = []
        self.rules = {}            # rule id -> text
        self.t0 = time.time()

    # ---- recording ------------------------------------------------------------------
    def rule(self, rid, text):
        self.rules[rid] = text

    def ok(self, rule, instance, site='', note='', nontrivial=True):
        self.obligations.append(dict(rule=rule, instance=instance, site=site, status='ok', why=note, nontrivial=nontrivial))

    def violation(self, rule, instance, site, why, key=None, fn='', details=None):
        self.obligations.append(dict(rule=rule, instance=instance, site=site, status='violation', why=why,
                                     key=key or f'{rule}|{fn}|{instance}', fn=fn, details=details or {}, nontrivial=True))

    def inconclusive(self, rule, instance, site, why):
        self.obligations.append(dict(rule=rule, instance=instance, site=site, status='inconclusive', why=why, nontrivial=True))

    def check(self, cond, rule, instance, site, why_bad, note='', key=None, fn='', details=None):
        if cond: self.ok(rule, instance, site, note)
        elif cond is None: self.inconclusive(rule, instance, site, why_bad)          # tri-state callers: not decided is not a refutation
        else: self.violation(rule, instance, site, why_bad, key=key, fn=fn, details=details)
        return cond

    def anchor_missing(self, anchor, why=''):
        self.broken.append((anchor, why))

    def count(self, name, n):
        self.counts[name] = self.counts.get(name, 0) + n

    def floor(self, name, measured, minimum):
        self.floors.append((name, measured, minimum))
        if measured < minimum:
            self.broken.append((f'floor:{name}', f'{measured} instance(s) analysed, at least {minimum} confirmed by hand'))

    def note(self, text):
        self.notes.append(text)

    def assume(self, text):
        if text not in self.assumptions: self.assumptions.append(text)

    def normalise_keys(self, known_keys=None):
        """a key segment may list alternatives ('~'): the violation is a listed finding if one of the concrete keys is listed; otherwise
        it goes by the first alternative"""
        if known_keys is None:
            kf_path = os.path.join(VERIF, 'known_findings.json')
            known_keys = {k['key'] for k in json.load(open(kf_path)).get('known', []) if k.get('property') == self.prop} if os.path.exists(kf_path) else set()
        import itertools as _it
        for o in self.obligations:
            if o['status'] == 'violation' and '~' in o['key']:
                segs = [sg.split('~') for sg in o['key'].split('|')]
                cands = ['|'.join(c) for c in _it.islice(_it.product(*segs), 64)]
                o['key'] = next((c for c in cands if c in known_keys), cands[0])

    # ---- finishing --------------------------------------------------------------------
    def finish(self, extraction_info, seed=0):
        kf_path = os.path.join(VERIF, 'known_findings.json')
        known = []
        if os.path.exists(kf_path):
            known = [k for k in json.load(open(kf_path)).get('known', []) if k.get('property') == self.prop]
        known_keys = {k['key']: k for k in known}
        self.normalise_keys(known_keys)
        viols = [o for o in self.obligations if o['status'] == 'violation']
        incs = [o for o in self.obligations if o['status'] == 'inconclusive']
        new_viols = [o for o in viols if o['key'] not in known_keys]
        listed = [o for o in viols if o['key'] in known_keys]
        lines = []
        seen_known = set()
        for o in listed:
            if o['key'] in seen_known: continue
            seen_known.add(o['key'])
            lines.append(f"KNOWN-FINDING: property={self.prop} {o['rule']} {o['site']}: {known_keys[o['key']].get('what', o['why'])}")
        vdir = os.path.join(EVDIR, 'violations'); os.makedirs(vdir, exist_ok=True)
        for f in os.listdir(vdir):
            if f.startswith(self.prop + '-'): os.remove(os.path.join(vdir, f))
        exit_code = 0
        # de-duplicate violations by key (same construct seen through several instantiations)
        uniq = {}
        for o in new_viols:
            u = uniq.setdefault(o['key'], dict(o, instances=[]))
            u['instances'].append(o['instance'])
        if uniq:
            # a floor that is missed because a rule upstream already found a definite violation is not a broken analysis
            self.broken = [(a, w) for a, w in self.broken if not a.startswith('floor:')]
        if self.broken or incs:
            exit_code = 2
        if uniq and not self.broken:
            exit_code = 1
            for i, (key, o) in enumerate(sorted(uniq.items())):
                path = os.path.join(vdir, f'{self.prop}-{i}.json')
                json.dump(dict(property=self.prop, rule=o['rule'], rule_text=self.rules.get(o['rule'], ''), key=key, site=o['site'],
                               function=o.get('fn', ''), why=o['why'], instances=o['instances'][:20], details=o.get('details', {})),
                          open(path, 'w'), indent=1)
                lines.append(f"VIOLATION property={self.prop} replay={path}")
                lines.append(f"  {o['site']}: {o['rule']}: {o['instances'][0]}: {o['why']}")
        for a, w in self.broken:
            lines.append(f"ANALYSIS-BROKEN property={self.prop} anchor={a} {w}")
        if not self.broken:
            for o in incs[:10]:
                lines.append(f"INCONCLUSIVE property={self.prop} {o['rule']} construct={o['site']} {o['why']}")
        n_ob = len(self.obligations)
        n_ok = sum(1 for o in self.obligations if o['status'] == 'ok')
        samples = []
        by_rule = {}
        for o in self.obligations:
            by_rule.setdefault(o['rule'], []).append(o)
        for r, os_ in sorted(by_rule.items()):
            for o in os_[:2]:
                samples.append(dict(rule=r, instance=o['instance'], site=o['site'], verdict=o['status'], note=o['why'][:300]))
        distinct = len({(o['rule'], o['instance'], o['site']) for o in self.obligations if o.get('nontrivial')})
        ev = dict(
            property_id=self.prop, tier=self.tier, seed=int(seed), level='other',
            coverage=dict(
                explanation=('Static rule conformance over the resolved program (clang-14 typed AST + CFG of /repo\'s current '
                             'working tree; nothing is executed). Rules applied: ' + ' | '.join(f'{k}: {v}' for k, v in sorted(self.rules.items()))),
                obligations=n_ob, discharged=n_ok + len(listed),
                evaluations=max(n_ob, 1), distinct_nontrivial=distinct,
                rule='one obligation = one rule instance at one construct (function, path, call site, table row set, field access) '
                     'of one instantiation; non-trivial = needed a table/flow/symbolic evaluation, not a presence test',
                samples=samples[:40],
                exhaustive=True,
                per_rule={r: dict(instances=len(v), ok=sum(1 for o in v if o['status'] == 'ok')) for r, v in sorted(by_rule.items())},
                counts=self.counts,
                floors=[dict(name=n, measured=m, minimum=mi) for n, m, mi in self.floors],
                tus=extraction_info.get('tus', []),
                extraction=dict(fixits=extraction_info.get('fixits'), cache_hit=extraction_info.get('cache_hit'), tree_key=extraction_info.get('key')),
                known_findings_matched=sorted(seen_known),
                notes=self.notes[:50],
                checker_cmd=f'./check {self.prop} --tier {self.tier}',
                trusted_base=['clang 14 front end (AST, CFG, template instantiation, overload resolution)',
                              'fix-it normalisation (typename) and the P0960 shim of compat/', 'libstdc++ / libc contracts named in the rules',
                              'the hand-written specification tables in rules/ (DESIGN App. B)'],
            ),
            assumptions=self.assumptions or ['see DESIGN.md §4 for the property'],
            wall_s=round(time.time() - self.t0 + float(extraction_info.get('wall_s', 0)), 2),
            violations=len(uniq),
        )
        os.makedirs(EVDIR, exist_ok=True)
        json.dump(ev, open(os.path.join(EVDIR, f'{self.prop}.json'), 'w'), indent=1)
        return exit_code, lines
