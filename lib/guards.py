"""A4/A10 helpers: which atomic conditions are known (with polarity) at a program point, expanding boolean locals
into the conjunctions / disjunctions that define them; structural equality of expressions modulo casts."""
from facts import Node
import common


def single_assignment_init(fn, decl):
    """init expression of a local that is initialised at its declaration and never assigned again, else None"""
    init = None
    for n in fn.nodes():
        if n.k == 'decl':
            for v in n.vars:
                if v['decl'] == decl and v.get('init'): init = Node(fn.tu, v['init'])
        if n.k == 'binop' and n.op in ('=', '+=', '-=', '|=', '&=') and n.n('lhs') is not None and n.n('lhs').k == 'ref' and n.n('lhs').decl == decl: return None
        if n.k == 'unop' and n.op in ('++', '--') and n.n('sub') is not None and n.n('sub').k == 'ref' and n.n('sub').decl == decl: return None
        if n.k == 'unop' and n.op == '&' and n.n('sub') is not None and n.n('sub').k == 'ref' and n.n('sub').decl == decl: return None
        if n.k == 'lambda':
            for c in n.captures or []:
                if c.get('decl') == decl and c.get('mode') == 'ref': return None
    return init


def expand(fn, cond, polarity, depth=0):
    """[(atom node, polarity)] implied by cond == polarity"""
    out = []
    if cond is None or depth > 6: return out
    k = cond.k
    if k == 'unop' and cond.op == '!':
        return expand(fn, cond.n('sub'), not polarity, depth + 1)
    if k == 'binop' and cond.op == '&&':
        if polarity: return expand(fn, cond.n('lhs'), True, depth + 1) + expand(fn, cond.n('rhs'), True, depth + 1)
        return [(cond, False)]
    if k == 'binop' and cond.op == '||':
        if not polarity: return expand(fn, cond.n('lhs'), False, depth + 1) + expand(fn, cond.n('rhs'), False, depth + 1)
        return [(cond, True)]
    if k == 'ref' and cond.dk == 'local' and (cond.type == 'bool' or (cond.d.get('decltype') or '').replace('const ', '') == 'bool'):
        init = single_assignment_init(fn, cond.decl)
        if init is not None:
            return [(cond, polarity)] + expand(fn, init, polarity, depth + 1)
    if k == 'cast':
        return expand(fn, cond.n('sub'), polarity, depth + 1) + [(cond, polarity)]
    return [(cond, polarity)]


def known_at(fn, node):
    """atoms known at `node`: from every dominating branch edge, expanded"""
    out = []
    for cond, pol in common.conditions_at(fn, node):
        out += expand(fn, cond, pol)
    return out


def strip_casts(n):
    while n is not None and n.k == 'cast': n = n.n('sub')
    return n


def same_expr(a, b):
    """structural equality modulo casts / parentheses (same declarations, same operators, same literals)"""
    a = strip_casts(a); b = strip_casts(b)
    if a is None or b is None: return a is b
    if a.k != b.k: return False
    k = a.k
    if k == 'ref': return a.decl == b.decl
    if k == 'member': return a.name == b.name and a.d.get('class') == b.d.get('class') and same_expr(a.n('base'), b.n('base'))
    if k == 'this': return True
    if k in ('int', 'char', 'bool', 'str'): return a.v == b.v
    if k == 'binop': return a.op == b.op and same_expr(a.n('lhs'), b.n('lhs')) and same_expr(a.n('rhs'), b.n('rhs'))
    if k == 'unop': return a.op == b.op and same_expr(a.n('sub'), b.n('sub'))
    if k == 'sizeof': return a.d.get('v') == b.d.get('v') and a.d.get('v') is not None
    if k == 'call':
        return a.callee == b.callee and len(a.ns('args')) == len(b.ns('args')) and all(same_expr(x, y) for x, y in zip(a.ns('args'), b.ns('args'))) and same_expr(a.n('object'), b.n('object'))
    return False


def const_of(n):
    """compile-time integer value of an expression if clang evaluated it"""
    n = strip_casts(n)
    if n is None: return None
    if n.k in ('int', 'char'): return n.v
    if n.k == 'sizeof' and 'v' in n.d: return n.d['v']
    if 'const' in n.d: return n.d['const']
    return None


def vars_in(n):
    return {x.decl for x in n.walk() if x.k == 'ref' and x.dk in ('local', 'param')}
